"""Anchor-based source rewrites used to validate the monitors (DESIGN.md section 6).

Each mutant: id, desc, edits [{file, old, new}], targets [property ids expected to fire].
Anchors are matched textually against the *current* /repo tree; a mutant whose anchor
is gone is reported as such, not as caught.
"""

MUTANTS = []


def M(id, desc, targets, *edits):
    MUTANTS.append(dict(id=id, desc=desc, targets=list(targets),
                        edits=[dict(file=f, old=o, new=n) for f, o, n in edits]))


# --- scalar_function.py -------------------------------------------------------
M("sf_store_ref", "wrapper stores the caller's array instead of a copy", ["C15"],
  ("lbfgsb/scalar_function.py", "        self.x = np.atleast_1d(x).astype(float)\n        self.f_updated = False",
   "        self.x = np.atleast_1d(x)\n        self.f_updated = False"))
M("sf_g_flag", "g_updated not cleared on a new point", ["C15"],
  ("lbfgsb/scalar_function.py", "        self.f_updated = False\n        self.g_updated = False\n        self.H_updated = False\n\n    def _update_fun",
   "        self.f_updated = False\n        self.H_updated = False\n\n    def _update_fun"))
M("sf_scale_at_eval", "scaling applied at evaluation time instead of return time", ["C15", "C17"],
  ("lbfgsb/scalar_function.py", "            self.f = fun_wrapped(self.x)\n", "            self.f = fun_wrapped(self.x) * self.scaling_factor\n"),
  ("lbfgsb/scalar_function.py", "        self._update_fun()\n        return self.f * self.scaling_factor\n", "        self._update_fun()\n        return self.f\n"))
M("sf_nfev_in_fun", "nfev counted in fun() instead of in the wrapper", ["C15", "C05"],
  ("lbfgsb/scalar_function.py", "        def fun_wrapped(x):\n            self.nfev += 1\n", "        def fun_wrapped(x):\n"),
  ("lbfgsb/scalar_function.py", "            self.update_x(x)\n        self._update_fun()\n        return self.f * self.scaling_factor",
   "            self.update_x(x)\n        self.nfev += 1\n        self._update_fun()\n        return self.f * self.scaling_factor"))
M("sf_bounds_dropped", "bounds not handed to the differencing routine", ["C15", "C16", "C02"],
  ("lbfgsb/scalar_function.py", "            finite_diff_options[\"bounds\"] = finite_diff_bounds\n", "            finite_diff_options[\"bounds\"] = (-np.inf, np.inf)\n"))
M("sf_eps_none", "epsilon forced to None for jac=None", ["C15", "C16"],
  ("lbfgsb/scalar_function.py", "        grad = \"2-point\"\n        epsilon = epsilon\n", "        grad = \"2-point\"\n        epsilon = None\n"))

# --- benchmarks.py ------------------------------------------------------------
M("bm_ackley_pinned", "pinned ackley_grad defect (reverse of the fix)", ["C19"],
  ("lbfgsb/benchmarks.py", "    ) + 2.0 * np.pi / ndim * np.sin(2.0 * np.pi * x) * np.exp(\n        1.0 / ndim * np.cos(2.0 * np.pi * x).sum()\n    )\n",
   "    ) - 2.0 * np.pi / ndim * np.sin(2.0 * np.pi * x)\n"))
M("bm_rastrigin_factor", "dropped factor in rastrigin_grad", ["C19"],
  ("lbfgsb/benchmarks.py", "return 2.0 * x + 20.0 * np.pi * np.sin(2.0 * np.pi * x)", "return 2.0 * x + 20.0 * np.sin(2.0 * np.pi * x)"))
M("bm_griewank_den", "griewank_grad misses 1/sqrt(i)", ["C19"],
  ("lbfgsb/benchmarks.py", "np.prod(np.cos(x / den)) / np.cos(x / den) / den\n", "np.prod(np.cos(x / den)) / np.cos(x / den)\n"))
