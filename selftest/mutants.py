"""Anchor-based source rewrites used to validate the monitors (DESIGN.md section 6).

Each mutant: id, desc, edits [{file, old, new}], targets [property ids expected to fire].
Anchors are matched textually against the *current* /repo tree; a mutant whose anchor
is gone is reported as such, not as caught.
"""

MUTANTS = []


def M(id, desc, targets, *edits):
    MUTANTS.append(dict(id=id, desc=desc, targets=list(targets),
                        edits=[dict(file=f, old=o, new=n) for f, o, n in edits]))


# --- scalar_function.py -------------------------------------------------------
M("sf_store_ref", "wrapper stores the caller's array instead of a copy", ["C15"],
  ("lbfgsb/scalar_function.py", "        self.x = np.atleast_1d(x).astype(float)\n        self.f_updated = False",
   "        self.x = np.atleast_1d(x)\n        self.f_updated = False"))
M("sf_g_flag", "g_updated not cleared on a new point", ["C15"],
  ("lbfgsb/scalar_function.py", "        self.f_updated = False\n        self.g_updated = False\n        self.H_updated = False\n\n    def _update_fun",
   "        self.f_updated = False\n        self.H_updated = False\n\n    def _update_fun"))
M("sf_scale_at_eval", "scaling applied at evaluation time instead of return time", ["C15", "C17"],
  ("lbfgsb/scalar_function.py", "            self.f = fun_wrapped(self.x)\n", "            self.f = fun_wrapped(self.x) * self.scaling_factor\n"),
  ("lbfgsb/scalar_function.py", "        self._update_fun()\n        return self.f * self.scaling_factor\n", "        self._update_fun()\n        return self.f\n"))
M("sf_nfev_in_fun", "nfev counted in fun() instead of in the wrapper", ["C15", "C05"],
  ("lbfgsb/scalar_function.py", "        def fun_wrapped(x):\n            self.nfev += 1\n", "        def fun_wrapped(x):\n"),
  ("lbfgsb/scalar_function.py", "            self.update_x(x)\n        self._update_fun()\n        return self.f * self.scaling_factor",
   "            self.update_x(x)\n        self.nfev += 1\n        self._update_fun()\n        return self.f * self.scaling_factor"))
M("sf_bounds_dropped", "bounds not handed to the differencing routine", ["C15", "C16", "C02"],
  ("lbfgsb/scalar_function.py", "            finite_diff_options[\"bounds\"] = finite_diff_bounds\n", "            finite_diff_options[\"bounds\"] = (-np.inf, np.inf)\n"))
M("sf_eps_none", "epsilon forced to None for jac=None", ["C15"],
  ("lbfgsb/scalar_function.py", "        grad = \"2-point\"\n        epsilon = epsilon\n", "        grad = \"2-point\"\n        epsilon = None\n"))

# --- benchmarks.py ------------------------------------------------------------
M("bm_ackley_pinned", "pinned ackley_grad defect (reverse of the fix)", ["C19"],
  ("lbfgsb/benchmarks.py", "    ) + 2.0 * np.pi / ndim * np.sin(2.0 * np.pi * x) * np.exp(\n        1.0 / ndim * np.cos(2.0 * np.pi * x).sum()\n    )\n",
   "    ) - 2.0 * np.pi / ndim * np.sin(2.0 * np.pi * x)\n"))
M("bm_rastrigin_factor", "dropped factor in rastrigin_grad", ["C19"],
  ("lbfgsb/benchmarks.py", "return 2.0 * x + 20.0 * np.pi * np.sin(2.0 * np.pi * x)", "return 2.0 * x + 20.0 * np.sin(2.0 * np.pi * x)"))
M("bm_griewank_den", "griewank_grad misses 1/sqrt(i)", ["C19"],
  ("lbfgsb/benchmarks.py", "np.prod(np.cos(x / den)) / np.cos(x / den) / den\n", "np.prod(np.cos(x / den)) / np.cos(x / den)\n"))

# --- bfgsmats.py --------------------------------------------------------------
M("bm_theta_inverse", "theta = s.y / y.y", ["C10", "C12"],
  ("lbfgsb/bfgsmats.py", "        mats.theta = yTy / sTy\n", "        mats.theta = sTy / yTy\n"))
M("bm_triu", "L taken from the upper triangle", ["C10"],
  ("lbfgsb/bfgsmats.py", "        mats.L = np.tril(mats.L, -1)  # shape (m, m)", "        mats.L = np.triu(mats.L, 1).T  # shape (m, m)"))
M("bm_evict_newest", "eviction with pop() instead of popleft()", ["C10", "C18"],
  ("lbfgsb/bfgsmats.py", "    if len(X) > maxcor + 1:\n        X.popleft()\n        G.popleft()\n\n    return True",
   "    if len(X) > maxcor + 1:\n        del X[-2]\n        del G[-2]\n\n    return True"))
M("bm_curv_no_eps", "curvature test s.y > 0 without eps*y.y", ["C10"],
  ("lbfgsb/bfgsmats.py", "    if sTy > eps * yTy:\n        return True", "    if sTy > 0:\n        return True"))
M("bm_curv_ge", "curvature test s.y >= eps*y.y (accepts zero steps)", ["C10"],
  ("lbfgsb/bfgsmats.py", "    if sTy > eps * yTy:\n        return True", "    if sTy >= eps * yTy:\n        return True"))
M("bm_maxcor_off_by_one", "memory keeps maxcor+1 pairs", ["C10", "C18"],
  ("lbfgsb/bfgsmats.py", "    if len(X) > maxcor + 1:\n        X.popleft()", "    if len(X) > maxcor + 2:\n        X.popleft()"))
M("bm_theta_stale", "theta taken from the oldest pair", ["C10", "C12"],
  ("lbfgsb/bfgsmats.py", "        yk = G[-1] - G[-2]\n        # sk = X[-1] - X[-2]\n        sTy = (X[-1] - X[-2]).dot(yk)",
   "        yk = G[1] - G[0]\n        # sk = X[-1] - X[-2]\n        sTy = (X[1] - X[0]).dot(yk)"))
M("main_stale_mats_after_reset", "matrices not reset after a failed line search", ["C10"],
  ("lbfgsb/main.py", "                # Reboot BFGS-Hessian\n                mats = LBFGSB_MATRICES(n)\n", "                # Reboot BFGS-Hessian\n"))

# --- cauchy.py ----------------------------------------------------------------
M("cp_unsorted_mask", "pinned defect: sorted indices filtered with an unsorted mask (reverse of fix 0332fe3)", ["C08", "C01"],
  ("lbfgsb/cauchy.py", "    sorted_t_idx: NDArrayInt = np.argsort(t)\n    sorted_t_idx = sorted_t_idx[t[sorted_t_idx] > 0]\n",
   "    sorted_t_idx: NDArrayInt = np.argsort(t)[t > 0]\n"))
M("cp_floor_1e30", "pinned defect: curvature floor 1e-30 (reverse of fix d4f4a94)", ["C08"],
  ("lbfgsb/cauchy.py", "    eps_f_sec = np.finfo(float).eps\n", "    eps_f_sec = 1e-30\n"))
M("cp_tie_mask", "tied breakpoint reset (reverse of fix 1674fa2); equivalent mutant since the tie-test fix fc4f49b: the search no longer stops in the middle of a tie", [],
  ("lbfgsb/cauchy.py", "    x_cp[d != 0] = np.clip(x + t_old * d, lb, ub)[d != 0]\n", "    x_cp[t >= t_cur] = np.clip(x + t_old * d, lb, ub)[t >= t_cur]\n"))
M("cp_no_final_clip", "final move of the Cauchy point not clipped (reverse of fix 51d3a30)", ["C08"],
  ("lbfgsb/cauchy.py", "    x_cp[d != 0] = np.clip(x + t_old * d, lb, ub)[d != 0]\n", "    x_cp[d != 0] = (x + t_old * d)[d != 0]\n"))
M("ufd_initial_no_filter", "no curvature filter after the initial update_fun_def call of a restart (reverse of fix 86a15fe)", ["C13"],
  ("lbfgsb/main.py", "        if len(X) > 1:\n            # the restored gradients may have been rewritten: as in the main loop,\n            # the updated G must satisfy the strong wolfe condition\n            X, G = make_X_and_G_respect_strong_wolfe(X, G, eps_SY, logger=logger)\n", ""))
M("cp_d_not_zeroed_on_bound", "d = -grad also for variables held at a bound", ["C08"],
  ("lbfgsb/cauchy.py", "    d = np.where(t == 0, 0.0, -grad)\n", "    d = -grad\n"))
M("cp_no_d_reset", "d[ibp] = 0 omitted after fixing a variable; equivalent mutant since fix 51d3a30: the clipped final move x + t*d puts every fixed variable back on its bound (t >= its breakpoint) and nothing else reads d", [],
  ("lbfgsb/cauchy.py", "        p += g_b * W_b\n        d[ibp] = 0\n", "        p += g_b * W_b\n"))
M("cp_dtmin_not_clamped", "delta_t_min not clamped at 0", ["C08"],
  ("lbfgsb/cauchy.py", "    delta_t_min = 0 if delta_t_min < 0 else delta_t_min\n", "    delta_t_min = delta_t_min\n"))
M("cp_fprime_sign", "wrong sign in the f' update", ["C08"],
  ("lbfgsb/cauchy.py", "        f_prime += delta_t * f_second + g_b * (g_b + mats.theta * zb)\n",
   "        f_prime += delta_t * f_second - g_b * (g_b + mats.theta * zb)\n"))
M("cp_c_not_advanced", "c not advanced on the last segment", ["C08"],
  ("lbfgsb/cauchy.py", "    c += delta_t_min * p\n\n    if logger is not None:", "    if logger is not None:"))
M("cp_strict_break", "break test uses <= (stops at a breakpoint when the segment minimiser coincides with it exactly); used to be visible through the overshoot that fix 51d3a30 removed, now only differs when delta_t_min == delta_t bit for bit, a stop-or-continue decision at its threshold which the C08 oracle does not judge", [],
  ("lbfgsb/cauchy.py", "        if delta_t > 0 and delta_t_min < delta_t:\n            is_gpc_found = True", "        if delta_t > 0 and delta_t_min <= delta_t:\n            is_gpc_found = True"))
M("cp_wrong_bound_lower", "breakpoints of decreasing variables computed from the upper bound", ["C08"],
  ("lbfgsb/cauchy.py", "        grad[mask] < 0, (x - ub)[mask] / grad[mask], (x - lb)[mask] / grad[mask]\n",
   "        grad[mask] < 0, (x - ub)[mask] / grad[mask], (x - ub)[mask] / grad[mask]\n"))
M("cp_f2_no_memory_term", "f'' update drops the memory term", ["C08"],
  ("lbfgsb/cauchy.py", "            f_second -= g_b * W_b.dot(bmv(mats.invMfactors, (2 * p + g_b * W_b)))\n",
   "            f_second -= g_b * W_b.dot(bmv(mats.invMfactors, (2 * p)))\n"))

# --- subspacemin.py -----------------------------------------------------------
M("ss_sign", "missing minus sign of eq. 5.11", ["C09", "C01"],
  ("lbfgsb/subspacemin.py", "    dHat = -invThet * (rHat + invThet * np.transpose(WTZ).dot(v))", "    dHat = invThet * (rHat + invThet * np.transpose(WTZ).dot(v))"))
M("ss_ub_minus_x", "(ub - x) instead of (ub - xc) in the truncation", ["C09"],
  ("lbfgsb/subspacemin.py", "                dHat[mask] > 0, (ub - xc)[free_vars][mask], (lb - xc)[free_vars][mask]",
   "                dHat[mask] > 0, (ub - x)[free_vars][mask], (lb - x)[free_vars][mask]"))
M("ss_no_truncation", "truncation to the box dropped", ["C09"],
  ("lbfgsb/subspacemin.py", "    return np.clip(xc + alpha_star * Z @ dHat, lb, ub)", "    return xc + Z @ dHat"))
M("ss_no_projection", "subspace point returned unprojected (reverse of fix b3344a3); shows as a spurious failed line search when the point lands one ulp outside a bound a variable rests on: rare, probabilistic in the quick tier", ["C09", "C06"],
  ("lbfgsb/subspacemin.py", "    return np.clip(xc + alpha_star * Z @ dHat, lb, ub)", "    return xc + alpha_star * Z @ dHat"))
M("mats_no_refresh_on_cholesky_failure", "LinAlgError of the Cholesky factorisation escapes (reverse of fix dc83f52); needs curvatures spanning >16 decades (C04's underflow_valley batch provides them)", ["C04"],
  ("lbfgsb/bfgsmats.py", "        except np.linalg.LinAlgError:\n            # nonpositive definiteness", "        except ZeroDivisionError:\n            # nonpositive definiteness"))
M("ss_K_theta", "K built with 1/theta dropped", ["C09"],
  ("lbfgsb/subspacemin.py", "    K[:m, :m] = -mats.D - (1 / mats.theta) * YTZZTY", "    K[:m, :m] = -mats.D - YTZZTY"))
M("ss_r_no_memory", "reduced gradient without the memory term", ["C09"],
  ("lbfgsb/subspacemin.py", "        r -= mats.W.dot(bmv(mats.invMfactors, c))\n", "        pass\n"))
M("ss_free_includes_bound", "variables on the lower bound treated as free", ["C09"],
  ("lbfgsb/subspacemin.py", "    free_vars: NDArrayInt = ((x_cp != ub) & (x_cp != lb)).nonzero()[0]", "    free_vars: NDArrayInt = ((x_cp != ub)).nonzero()[0]"))
M("ss_alpha_no_cap", "alpha* not capped at 1", ["C09"],
  ("lbfgsb/subspacemin.py", "    alpha_star = min(\n        1.0,\n        np.nanmin(", "    alpha_star = min(\n        1e9,\n        np.nanmin("))
M("ss_second_block_sign", "sign flip of the first half dropped in the LEL^T solve", ["C09"],
  ("lbfgsb/subspacemin.py", "        v[: int(LK.shape[0] / 2)] *= -1\n", ""))

# --- linesearch.py ------------------------------------------------------------
M("ls_no_projection", "pinned defect: trial points not projected (reverse of fix 2db2e5f, line-search part)", ["C11", "C02", "C16"],
  ("lbfgsb/linesearch.py", "            f_m1, dphi_m1 = sf.fun_and_grad(np.clip(x0 + steplength * d, lb, ub))\n",
   "            f_m1, dphi_m1 = sf.fun_and_grad(x0 + steplength * d)\n"))
M("main_no_projection", "pinned defect: iterate update not projected (reverse of fix 2db2e5f, main part)", ["C02", "C16"],
  ("lbfgsb/main.py", "            np.clip(x + steplength * d, lb, ub, out=x)\n", "            x += steplength * d\n"))
M("ls_best_pinned", "pinned defect: best_stp compares with the previous trial only (reverse of fix 3a12e86)", ["C11", "C03"],
  ("lbfgsb/linesearch.py", "            if f_m1 < best_f:\n                best_f = f_m1\n                best_stp = steplength\n",
   "            best_stp = steplength if f_m1 < best_f else best_stp\n            best_f = f_m1\n"),
  ("lbfgsb/linesearch.py", "    if best_stp is None:\n        return None\n", "    if best_stp is None:\n        best_stp = steplength_0\n"))
M("ls_accept_last", "accept the last trial on WARNING / cap", ["C11", "C03"],
  ("lbfgsb/linesearch.py", "    if best_stp is None:\n        return None\n\n    steplength = best_stp\n", "    steplength = steplength_0\n"))
M("ls_le", "< -> <= in the best-trial test (returns a non-improving step)", ["C11", "C03"],
  ("lbfgsb/linesearch.py", "            if f_m1 < best_f:\n", "            if f_m1 <= best_f:\n"))
M("ls_cap_off_by_one", "evaluation cap off by one", ["C11", "C04"],
  ("lbfgsb/linesearch.py", "    while _iter < max_iter:\n", "    while _iter <= max_iter:\n"))
M("ls_amax_wrong_bound", "max step computed with the wrong bound for d < 0", ["C11"],
  ("lbfgsb/linesearch.py", "            d[_mask] > 0, (ub - x)[_mask] / d[_mask], (lb - x)[_mask] / d[_mask]\n",
   "            d[_mask] > 0, (ub - x)[_mask] / d[_mask], (x - ub)[_mask] / d[_mask]\n"))
M("ls_first_step_unit", "first step 1 instead of 1/||d||", ["C12"],
  ("lbfgsb/linesearch.py", "        steplength_0 = min(1.0 / np.sqrt(d.dot(d)), max_steplength)\n", "        steplength_0 = min(1.0, max_steplength)\n"))
M("ls_default_ftol", "ftol_linesearch default 1e-4", ["C12"],
  ("lbfgsb/main.py", "    ftol_linesearch: float = 1e-3,\n", "    ftol_linesearch: float = 1e-4,\n"))
M("ls_default_gtol", "gtol_linesearch default 0.5", ["C12"],
  ("lbfgsb/main.py", "    gtol_linesearch: float = 0.9,\n", "    gtol_linesearch: float = 0.5,\n"))
M("ls_default_epsSY", "eps_SY default 1e-8", ["C12"],
  ("lbfgsb/main.py", "    eps_SY: float = 2.2e-16,\n", "    eps_SY: float = 1e-8,\n"))
M("ls_clip_only_upper", "trial points clipped to the upper bound only", ["C11", "C02"],
  ("lbfgsb/linesearch.py", "            f_m1, dphi_m1 = sf.fun_and_grad(np.clip(x0 + steplength * d, lb, ub))\n",
   "            f_m1, dphi_m1 = sf.fun_and_grad(np.minimum(x0 + steplength * d, ub))\n"))
M("ls_nan_step", "pinned defect: objective evaluated at a nan trial point (reverse of fix 1a423ca)", ["C02"],
  ("lbfgsb/linesearch.py", "            if not np.isfinite(steplength):\n                # the previous trial returned non-finite values and the interpolation\n                # produced a nan step: never evaluate the objective there\n                break\n", ""))

# --- main.py: coherence / counters ---------------------------------------------
M("main_skip_reeval", "accepted point not re-evaluated: cached values of the last trial are used", ["C05", "C03"],
  ("lbfgsb/main.py", "            f0, grad = sf.fun_and_grad(x)\n", "            f0, grad = sf.f * sf.scaling_factor, sf.g * sf.scaling_factor\n"))
M("main_njev_not_restored", "njev not restored from the checkpoint", ["C05"],
  ("lbfgsb/main.py", "        sf.nfev = checkpoint.nfev\n        sf.ngev = checkpoint.njev\n", "        sf.nfev = checkpoint.nfev\n"))
M("main_nfev_restored_twice", "nfev of the checkpoint counted twice", ["C05", "C04"],
  ("lbfgsb/main.py", "        sf.nfev = checkpoint.nfev\n", "        sf.nfev = 2 * checkpoint.nfev\n"))
M("main_jac_alias_G", "result.jac is the stored G[-1] (stale after a rejected update)", ["C05", "C07"],
  ("lbfgsb/main.py", "    return OptimizeResult(\n        fun=f0,\n        jac=grad,\n        nfev=sf.nfev,\n        njev=sf.ngev,\n        nit=istate.nit,\n        status=istate.warnflag,\n        message=istate.task_str,\n        x=x,\n        success=istate.is_success,\n        hess_inv=LbfgsInvHessProduct(\n            np.atleast_2d(np.diff(np.array(X), axis=0)),\n            np.atleast_2d(np.diff(np.array(G), axis=0)),",
   "    return OptimizeResult(\n        fun=f0,\n        jac=G[-1],\n        nfev=sf.nfev,\n        njev=sf.ngev,\n        nit=istate.nit,\n        status=istate.warnflag,\n        message=istate.task_str,\n        x=x,\n        success=istate.is_success,\n        hess_inv=LbfgsInvHessProduct(\n            np.atleast_2d(np.diff(np.array(X), axis=0)),\n            np.atleast_2d(np.diff(np.array(G), axis=0)),"))

# --- main.py: termination --------------------------------------------------------
M("main_nit_eq", "pinned defect: final classification tests nit == maxiter (reverse of fix 87392b5)", ["C04"],
  ("lbfgsb/main.py", "    elif istate.nit >= maxiter:\n", "    elif istate.nit == maxiter:\n"))
M("main_ck_return", "pinned defect: early return hands back the checkpoint with its old message (reverse of fix 481d5cf)", ["C04"],
  ("lbfgsb/main.py", "            res = copy.copy(checkpoint)\n            res[\"message\"] = istate.task_str\n            res[\"success\"] = istate.is_success\n            res[\"status\"] = istate.warnflag\n            return res\n",
   "            return checkpoint\n"))
M("main_ls_cap_ignores_maxfun", "line-search cap ignores the remaining maxfun budget", ["C04"],
  ("lbfgsb/main.py", "            min(maxls, maxfun - sf.nfev),\n", "            maxls,\n"))
M("main_gtol_in_loop", "callable gtol evaluated at every loop test", ["C04"],
  ("lbfgsb/main.py", "    while (\n        projgr(x, grad, lb, ub) > _gtol\n", "    while (\n        projgr(x, grad, lb, ub) > (gtol() if callable(gtol) else gtol)\n"))
M("main_iter_not_success", "iteration limit reported with success False", ["C04"],
  ("lbfgsb/main.py", "        istate.task_str = \"STOP: TOTAL NO. of ITERATIONS REACHED LIMIT\"\n        istate.is_success = True\n",
   "        istate.task_str = \"STOP: TOTAL NO. of ITERATIONS REACHED LIMIT\"\n        istate.is_success = False\n"))
M("main_loop_nfev_le", "loop guard nfev <= maxfun (one iteration too many)", ["C04"],
  ("lbfgsb/main.py", "        and sf.nfev < maxfun\n", "        and sf.nfev <= maxfun\n"))
M("main_loop_nit_le", "loop guard nit <= maxiter (one iteration too many)", ["C04", "C07"],
  ("lbfgsb/main.py", "        and istate.nit < maxiter\n", "        and istate.nit <= maxiter\n"))
M("main_target_lt", "target test uses f < ftarget... reported as target when not reached: f0 >= ftarget inverted", ["C04"],
  ("lbfgsb/main.py", "    if f0 > ftarget:\n        return False\n", "    if f0 > ftarget + 1e-3 * abs(ftarget):\n        return False\n"))
M("main_pgtol_on_grad_norm", "PGTOL classification on a stale gradient norm (uses plain gradient of interior variables)", ["C04"],
  ("lbfgsb/main.py", "    if projgr(x, grad, lb, ub) <= _gtol:\n        istate.task_str = \"CONVERGENCE: NORM_OF_PROJECTED_GRADIENT_<=_PGTOL\"",
   "    if projgr(x, grad, lb, ub) <= 10 * _gtol:\n        istate.task_str = \"CONVERGENCE: NORM_OF_PROJECTED_GRADIENT_<=_PGTOL\""))
M("sf_fd_fixed_nan", "pinned defect: nan finite-difference gradient for lb == ub (reverse of fix 41f24f4)", ["C04", "C16"],
  ("lbfgsb/scalar_function.py", "                if is_fixed.any():\n                    self.g = np.where(is_fixed, 0.0, self.g)\n", ""))

# --- main.py: checkpoint restart -------------------------------------------------
M("ck_forward_cumsum", "pinned defect: forward cumulative sum when restoring the history (reverse of fix c5b19aa)", ["C06", "C07"],
  ("lbfgsb/main.py", "        checkpoint.x - np.cumsum(checkpoint.hess_inv.sk[::-1], axis=0)[::-1],\n        checkpoint.jac - np.cumsum(checkpoint.hess_inv.yk[::-1], axis=0)[::-1],\n",
   "        checkpoint.x - np.cumsum(checkpoint.hess_inv.sk, axis=0),\n        checkpoint.jac - np.cumsum(checkpoint.hess_inv.yk, axis=0),\n"))
M("ck_no_reinsert", "current point not re-inserted into the history at restart", ["C06"],
  ("lbfgsb/main.py", "    if len(X) > 0:\n        # only happens if checkpoint is provided (L-BFGS-B restart)\n        mats = update_lbfgs_matrices(",
   "    if False:\n        # only happens if checkpoint is provided (L-BFGS-B restart)\n        mats = update_lbfgs_matrices("))
M("ck_keep_oldest", "oldest pairs kept when maxcor shrinks at restart", ["C06"],
  ("lbfgsb/main.py", "        if len(X) > maxcor:\n            X.popleft()\n            G.popleft()\n        X.append(x)\n        G.append(g)\n",
   "        if len(X) >= maxcor:\n            continue\n        X.append(x)\n        G.append(g)\n"))
M("ck_nit_not_restored", "nit not restored from the checkpoint", ["C06"],
  ("lbfgsb/main.py", "    if checkpoint is not None:\n        istate.nit = checkpoint.nit\n", "    if checkpoint is not None:\n        pass\n"))
M("ck_f0_recomputed_wrong", "restart takes f0 from the checkpoint but forgets the gradient scaling sign (uses -jac)", ["C06"],
  ("lbfgsb/main.py", "        grad = checkpoint.jac\n", "        grad = -checkpoint.jac\n"))
M("ck_only_x_restored", "history restored for x but gradients taken unshifted", ["C06"],
  ("lbfgsb/main.py", "        checkpoint.jac - np.cumsum(checkpoint.hess_inv.yk[::-1], axis=0)[::-1],\n", "        checkpoint.jac - np.cumsum(checkpoint.hess_inv.yk[::-1], axis=0)[::-1] * 0.5,\n"))
M("ls_init_step_one", "pinned defect: line search starts at 1.0 beyond the max feasible step (reverse of the initial-step fix); since fix b3344a3 the subspace point is projected and the bound-limited maximum step is never 1-eps any more, so the mutant only shows with a user step cap below 1 (C01 runs with max_steplength < 1)", ["C01"],
  ("lbfgsb/linesearch.py", "        steplength_0 = min(1.0, max_steplength)\n", "        steplength_0 = 1.0\n"))

# --- main.py: callback state ------------------------------------------------------
M("cb_x_alias", "pinned defect: callback state.x aliases the live iterate (reverse of fix c878344)", ["C07"],
  ("lbfgsb/main.py", "                        message=istate.task_str,\n                        x=np.copy(x),\n", "                        message=istate.task_str,\n                        x=x,\n"))
M("cb_nit_off_by_one", "pinned defect: callback state.nit is k-1 (reverse of fix 02bb3b3)", ["C07"],
  ("lbfgsb/main.py", "                        nit=istate.nit + 1,\n", "                        nit=istate.nit,\n"))
M("cb_before_memory_update", "callback state built from the memory before the update of this iteration", ["C07"],
  ("lbfgsb/main.py", "                        hess_inv=LbfgsInvHessProduct(\n                            np.atleast_2d(np.diff(np.array(X), axis=0)),\n                            np.atleast_2d(np.diff(np.array(G), axis=0)),\n                        ),\n                    ),\n                ):",
   "                        hess_inv=LbfgsInvHessProduct(\n                            np.atleast_2d(np.diff(np.array(X)[:-1], axis=0)),\n                            np.atleast_2d(np.diff(np.array(G)[:-1], axis=0)),\n                        ),\n                    ),\n                ):"))
M("cb_xk_alias", "xk handed to the callback is the live iterate", ["C07"],
  ("lbfgsb/main.py", "                if callback(\n                    np.copy(x),\n", "                if callback(\n                    x,\n"))
M("cb_nfev_stale", "callback state carries nfev of the previous iteration", ["C07", "C05"],
  ("lbfgsb/main.py", "        f0_old = copy.copy(f0)\n\n        # an objective that is unbounded", "        f0_old = copy.copy(f0)\n        _nfev_prev = sf.nfev\n\n        # an objective that is unbounded"),
  ("lbfgsb/main.py", "                        jac=np.copy(grad),\n                        nfev=sf.nfev,\n                        njev=sf.ngev,\n                        nit=istate.nit + 1,", "                        jac=np.copy(grad),\n                        nfev=_nfev_prev,\n                        njev=sf.ngev,\n                        nit=istate.nit + 1,"))
M("restart_placeholder_gradient", "pinned defect: a restart from a result that computed no gradient takes its zero placeholder for the gradient (reverse of fix f6328a5)", ["C01"],
  ("lbfgsb/main.py", "    if checkpoint is None or checkpoint.njev == 0:\n        grad = sf.grad(x)\n", "    if checkpoint is None:\n        grad = sf.grad(x)\n"))
M("cp_no_initial_f2_floor", "pinned defect: no safeguard on the initial second derivative of the Cauchy search (reverse of fix 5e88d26)", ["C08"],
  ("lbfgsb/cauchy.py", "        f_second = max(f_second, eps_f_sec * f2_org)\n\n    # dtm in the fortran code", "\n    # dtm in the fortran code"))
M("cb_state_jac_alias", "pinned defect: the callback state shares the solver's gradient array (reverse of fix e46799a)", ["C14"],
  ("lbfgsb/main.py", "                        jac=np.copy(grad),\n", "                        jac=grad,\n"))
M("no_overflow_guard", "pinned defect: no termination when theta * g.g overflows on an objective unbounded below (reverse of fix f09f8fb)", ["C04"],
  ("lbfgsb/main.py", "        if not np.isfinite(mats.theta * grad.dot(grad)):\n", "        if False:\n"))
M("cb_false_resets_memo", "a callback (even returning False) changes the run: extra evaluation after the callback", ["C07"],
  ("lbfgsb/main.py", "                    istate.task_str = \"STOP: USER CALLBACK\"\n                    istate.is_success = True\n",
   "                    istate.task_str = \"STOP: USER CALLBACK\"\n                    istate.is_success = True\n                else:\n                    sf.update_x(x + 0.0)\n                    f0 = sf.fun(x)\n"))

# --- fault propagation ---------------------------------------------------------------
M("ex_typeerror_pinned", "pinned defect: except TypeError around ftarget()/gtol() (reverse of fix 51d428d)", ["C20"],
  ("lbfgsb/main.py", "    _gtol: float = gtol() if callable(gtol) else gtol\n", "    try:\n        _gtol: float = gtol()  # type: ignore\n    except TypeError:\n        _gtol = gtol  # type: ignore\n"))
M("ex_broad_except_ls", "broad except around the line search turns failures into a failed search", ["C20"],
  ("lbfgsb/main.py", "        steplength = line_search(\n", "        try:\n          steplength = _ls_guard(\n"),
  ("lbfgsb/main.py", "            iprint,\n            logger,\n        )\n        if steplength is None:", "            iprint,\n            logger,\n          )\n        except Exception:\n            steplength = None\n        if steplength is None:"),
  ("lbfgsb/main.py", "def initialize_X_and_G(", "def _ls_guard(*a, **k):\n    return line_search(*a, **k)\n\n\ndef initialize_X_and_G("))
M("ex_wrap_objective", "objective failures re-raised as ValueError(...) from e", ["C20"],
  ("lbfgsb/scalar_function.py", "            fx = fun(np.copy(x), *args)\n", "            try:\n                fx = fun(np.copy(x), *args)\n            except Exception as e:\n                raise ValueError(\"objective function failed\") from e\n"))
M("ex_callback_swallow", "exceptions of the user callback are logged and ignored", ["C20"],
  ("lbfgsb/main.py", "            if callback is not None and not istate.is_success:\n                if callback(", "            if callback is not None and not istate.is_success:\n                if _safe_cb(callback)("),
  ("lbfgsb/main.py", "def initialize_X_and_G(", "def _safe_cb(cb):\n    def w(*a):\n        try:\n            return cb(*a)\n        except Exception:\n            return False\n    return w\n\n\ndef initialize_X_and_G("))
M("ex_indexerror_cauchy_wide", "the IndexError handler of the Cauchy loop also covers the update of c (swallows user-visible errors)", ["C20"],
  ("lbfgsb/scalar_function.py", "            fx = fun(np.copy(x), *args)\n", "            try:\n                fx = fun(np.copy(x), *args)\n            except IndexError:\n                fx = np.inf\n"))
M("ex_state_left_behind", "a failing objective leaves a module-level flag that changes later runs", ["C20"],
  ("lbfgsb/scalar_function.py", "            fx = fun(np.copy(x), *args)\n", "            global _FAILED\n            try:\n                fx = fun(np.copy(x), *args)\n            except Exception:\n                _FAILED = True\n                raise\n            if _FAILED:\n                fx = fx * (1 + 1e-12)\n"),
  ("lbfgsb/scalar_function.py", "FD_METHODS = (\"2-point\", \"3-point\", \"cs\")\n", "FD_METHODS = (\"2-point\", \"3-point\", \"cs\")\n_FAILED = False\n"))

# --- determinism / isolation -----------------------------------------------------------
M("iso_jac_inplace", "pinned defect: checkpoint.jac scaled in place (reverse of fix 46983ac)", ["C14"],
  ("lbfgsb/main.py", "    grad = grad * sf.scaling_factor\n", "    grad *= sf.scaling_factor\n"))
M("iso_module_istate", "module-level internal state shared by all calls", ["C14"],
  ("lbfgsb/main.py", "    istate = InternalState()\n", "    istate = _ISTATE\n    istate.task_str = \"START\"\n    istate.is_success = False\n    istate.warnflag = 2\n    if checkpoint is None:\n        istate.nit = 0\n"),
  ("lbfgsb/main.py", "def minimize_lbfgsb(\n", "_ISTATE = InternalState()\n\n\ndef minimize_lbfgsb(\n"))
M("iso_class_state", "iteration counter written to the InternalState class instead of the instance", ["C14", "C04"],
  ("lbfgsb/main.py", "        istate.nit += 1\n", "        InternalState.nit = istate.nit + 1\n"))
M("iso_memo_shared", "memo cell shared between ScalarFunction instances (class attributes)", ["C14", "C15"],
  ("lbfgsb/scalar_function.py", "    def update_x(self, x) -> None:\n        # ensure that self.x is a copy of x. Don't store a reference\n        # otherwise the memoization doesn't work properly.\n        self.x = np.atleast_1d(x).astype(float)\n        self.f_updated = False\n",
   "    def update_x(self, x) -> None:\n        # ensure that self.x is a copy of x. Don't store a reference\n        # otherwise the memoization doesn't work properly.\n        self.x = np.atleast_1d(x).astype(float)\n        ScalarFunction._last_x = self.x\n        self.f_updated = False\n"),
  ("lbfgsb/scalar_function.py", "    def _update_fun(self) -> None:\n        if not self.f_updated:\n            self._update_fun_impl()\n            self.f_updated = True\n",
   "    _last_x = None\n    _last_f = None\n\n    def _update_fun(self) -> None:\n        if not self.f_updated:\n            if ScalarFunction._last_f is not None and ScalarFunction._last_x is not self.x and np.array_equal(ScalarFunction._last_f[0], self.x):\n                self.f = ScalarFunction._last_f[1]\n                self.nfev += 1\n            else:\n                self._update_fun_impl()\n            ScalarFunction._last_f = (self.x.copy(), self.f)\n            self.f_updated = True\n"))
M("iso_logging_side_effect", "a logging branch also changes a value (theta printed and rounded)", ["C14"],
  ("lbfgsb/cauchy.py", "    if iprint >= 99 and logger is not None:\n        logger.info(\"---------------- CAUCHY entered-------------------\")\n",
   "    if iprint >= 99 and logger is not None:\n        logger.info(\"---------------- CAUCHY entered-------------------\")\n        grad = np.round(grad, 12)\n"))
M("iso_x0_inplace", "x0 clipped in place", ["C14"],
  ("lbfgsb/base.py", "    return np.clip(x0.T, lb, ub).T\n", "    np.clip(x0, lb, ub, out=x0)\n    return x0\n"))
M("iso_lowest_x_global", "line search keeps its best trial in a module-level variable", ["C14"],
  ("lbfgsb/linesearch.py", "    best_stp: Optional[float] = None\n    best_f: float = f0\n", "    global _BEST\n    best_stp: Optional[float] = None\n    best_f: float = f0\n    _BEST = [None, f0]\n"),
  ("lbfgsb/linesearch.py", "            if f_m1 < best_f:\n                best_f = f_m1\n                best_stp = steplength\n", "            if f_m1 < _BEST[1]:\n                _BEST[1] = f_m1\n                _BEST[0] = steplength\n            best_f, best_stp = _BEST[1], _BEST[0]\n"),
  ("lbfgsb/linesearch.py", "def max_allowed_steplength(\n", "_BEST = [None, 0.0]\n\n\ndef max_allowed_steplength(\n"))
M("cp_tie_test", "pinned defect: minimiser test on a partially fixed tie (reverse of the tie-test fix)", ["C08"],
  ("lbfgsb/cauchy.py", "        if delta_t > 0 and delta_t_min < delta_t:\n", "        if delta_t_min < delta_t:\n"))

# --- gradient scaler -----------------------------------------------------------------
M("sc_f0_scaled_twice", "initial objective value scaled twice", ["C17"],
  ("lbfgsb/main.py", "    f0 *= sf.scaling_factor\n", "    f0 *= sf.scaling_factor * sf.scaling_factor\n"))
M("sc_target_on_scaled", "target tested on the scaled value inside the loop", ["C17"],
  ("lbfgsb/main.py", "            if update_fun_def is None:\n                if is_f0_target_reached(f0 / sf.scaling_factor, _ftarget, istate):",
   "            if update_fun_def is None:\n                if is_f0_target_reached(f0, _ftarget, istate):"))
M("sc_scaler_gets_scaled_grad", "scaler invoked twice, the second time with the scaled gradient", ["C17"],
  ("lbfgsb/main.py", "        sf.scaling_factor = gradient_scaler(x, grad, lb, ub)\n", "        sf.scaling_factor = gradient_scaler(x, grad, lb, ub)\n        gradient_scaler(x, grad * sf.scaling_factor, lb, ub)\n"))
M("sc_scaler_unclipped_x0", "scaler receives the user's x0 bounds swapped", ["C17"],
  ("lbfgsb/main.py", "        sf.scaling_factor = gradient_scaler(x, grad, lb, ub)\n", "        sf.scaling_factor = gradient_scaler(x, grad, ub, lb)\n"))
M("sc_packaged_formula", "packaged scaler uses the 2-norm instead of the max change", ["C17"],
  ("lbfgsb/utils.py", "    max_change = max(abs(updated_params))\n", "    max_change = np.sqrt(np.sum(updated_params**2))\n"))
M("sc_grad_not_scaled_first", "first gradient not scaled (only f0)", ["C17"],
  ("lbfgsb/main.py", "    grad = grad * sf.scaling_factor\n", "    grad = grad * 1.0\n"))

# --- hess_inv pairs ---------------------------------------------------------------------
M("hi_newest_first", "result pairs stored newest-first", ["C18"],
  ("lbfgsb/main.py", "        hess_inv=LbfgsInvHessProduct(\n            np.atleast_2d(np.diff(np.array(X), axis=0)),\n            np.atleast_2d(np.diff(np.array(G), axis=0)),\n        ),\n    )\n\n\ndef initialize_X_and_G",
   "        hess_inv=LbfgsInvHessProduct(\n            np.atleast_2d(np.diff(np.array(X), axis=0))[::-1],\n            np.atleast_2d(np.diff(np.array(G), axis=0))[::-1],\n        ),\n    )\n\n\ndef initialize_X_and_G"))
M("hi_unscaled_G", "G holds the unscaled gradient of the first point", ["C18", "C17"],
  ("lbfgsb/main.py", "        X.append(np.copy(x))\n        G.append(grad)\n", "        X.append(np.copy(x))\n        G.append(grad / sf.scaling_factor)\n"))
M("hi_diag_first_component", "diagonal utility returns matvec(v)[0]", ["C18"],
  ("lbfgsb/utils.py", "        hess_inv_diag[i] = hess_inv.matvec(v)[i]\n", "        hess_inv_diag[i] = hess_inv.matvec(v)[0]\n"))
M("hi_X_alias", "the stored iterate aliases the live x (no copy)", ["C18", "C10"],
  ("lbfgsb/main.py", "            mats = update_lbfgs_matrices(\n                x.copy(),  # copy otherwise x might be changed in X when updated\n                grad,\n                X,\n                G,\n                maxcor,\n                mats,\n                is_force_update=update_fun_def is not None and len(X) > 1,\n                eps=eps_SY,\n                is_check_factorization=is_check_factorization,\n            )\n\n            # callback",
   "            mats = update_lbfgs_matrices(\n                x,  # copy otherwise x might be changed in X when updated\n                grad,\n                X,\n                G,\n                maxcor,\n                mats,\n                is_force_update=update_fun_def is not None and len(X) > 1,\n                eps=eps_SY,\n                is_check_factorization=is_check_factorization,\n            )\n\n            # callback"))
M("hi_callback_pairs_float32", "callback pairs rounded through float32", ["C18", "C07"],
  ("lbfgsb/main.py", "                            np.atleast_2d(np.diff(np.array(X), axis=0)),\n                            np.atleast_2d(np.diff(np.array(G), axis=0)),\n                        ),\n                    ),\n                ):",
   "                            np.atleast_2d(np.diff(np.array(X), axis=0)).astype(np.float32).astype(float),\n                            np.atleast_2d(np.diff(np.array(G), axis=0)),\n                        ),\n                    ),\n                ):"))

# --- update_fun_def ---------------------------------------------------------------------
M("ufd_filter_after_stop", "pinned defect: curvature filter after the stop tests (reverse of fix f49fa35)", ["C13"],
  ("lbfgsb/main.py", "                X, G = make_X_and_G_respect_strong_wolfe(X, G, eps_SY, logger=logger)\n\n                # Check stop criterion: minimum relative change in the\n                # objective function\n                if is_f0_min_change_reached(f0, f0_old, ftol, istate):\n                    break  # the while loop\n\n                # Check stop criterion: minimum objective function value\n                elif is_f0_target_reached(f0 / sf.scaling_factor, _ftarget, istate):\n                    break  # the while loop\n",
   "                # Check stop criterion: minimum relative change in the\n                # objective function\n                if is_f0_min_change_reached(f0, f0_old, ftol, istate):\n                    break  # the while loop\n\n                # Check stop criterion: minimum objective function value\n                elif is_f0_target_reached(f0 / sf.scaling_factor, _ftarget, istate):\n                    break  # the while loop\n                X, G = make_X_and_G_respect_strong_wolfe(X, G, eps_SY, logger=logger)\n"))
M("ufd_no_force_rebuild", "pinned defect: matrices not rebuilt after a rewrite when the newest pair is rejected (reverse of fix 62c59b6)", ["C13"],
  ("lbfgsb/main.py", "                is_force_update=update_fun_def is not None and len(X) > 1,\n", "                is_force_update=False,\n"))
M("ufd_no_filter", "curvature filter not applied to the rewritten history", ["C13"],
  ("lbfgsb/main.py", "                X, G = make_X_and_G_respect_strong_wolfe(X, G, eps_SY, logger=logger)\n\n                # Check stop criterion: minimum relative change in the",
   "                # Check stop criterion: minimum relative change in the"))
M("ufd_filter_keeps_negative", "filter keeps pairs with s.y <= 0 (tests |s.y|)", ["C13"],
  ("lbfgsb/bfgsmats.py", "        if not is_update_X_and_G(X[k], G[k], _X[0], _G[0], eps):", "        if not (is_update_X_and_G(X[k], G[k], _X[0], _G[0], eps) or is_update_X_and_G(X[k], -G[k], _X[0], -_G[0], eps)):"))
M("ufd_after_matrix_update", "update function called after the matrix update of the iteration", ["C13"],
  ("lbfgsb/main.py", "            else:\n                f0, f0_old, grad, G = update_fun_def(x, f0, f0_old, grad, X, G)\n\n                # We must check",
   "            else:\n                mats = update_lbfgs_matrices(x.copy(), grad, X, G, maxcor, mats, is_force_update=False, eps=eps_SY)\n                f0, f0_old, grad, G = update_fun_def(x, f0, f0_old, grad, X, G)\n\n                # We must check"))
M("ufd_returned_G_ignored", "the deque returned by the update function is ignored (old gradients kept)", ["C13"],
  ("lbfgsb/main.py", "            else:\n                f0, f0_old, grad, G = update_fun_def(x, f0, f0_old, grad, X, G)\n", "            else:\n                f0, f0_old, grad, _ = update_fun_def(x, f0, f0_old, grad, X, G)\n"))
M("ufd_identity_extra_eval", "with an update function the accepted point is evaluated once more", ["C13"],
  ("lbfgsb/main.py", "            else:\n                f0, f0_old, grad, G = update_fun_def(x, f0, f0_old, grad, X, G)\n", "            else:\n                sf.update_x(x)\n                f0, grad = sf.fun_and_grad(x)\n                f0, f0_old, grad, G = update_fun_def(x, f0, f0_old, grad, X, G)\n"))
M("ufd_filter_drops_newest", "filter anchored at the oldest stored point; not a violation (which older points survive is not prescribed)", [],
  ("lbfgsb/bfgsmats.py", "    _X, _G = Deque([X[-1]]), Deque([G[-1]])\n    for i in range(ncor):\n        k = ncor - i - 1  # start at 1\n        if not is_update_X_and_G(X[k], G[k], _X[0], _G[0], eps):",
   "    _X, _G = Deque([X[0]]), Deque([G[0]])\n    for i in range(ncor):\n        k = i + 1\n        if not is_update_X_and_G(_X[-1], _G[-1], X[k], G[k], eps) and False or not is_update_X_and_G(X[k], G[k], _X[-1], _G[-1], eps):"),
  ("lbfgsb/bfgsmats.py", "            _X.appendleft(X[k])\n            _G.appendleft(G[k])\n", "            _X.append(X[k])\n            _G.append(G[k])\n"))
