import numpy as np, sys, warnings
from lbfgsb import minimize_lbfgsb
from scipy.optimize import minimize
warnings.simplefilter('ignore')
def probe(r,a,n,seed,**kw):
    rng=np.random.default_rng(seed); u=rng.standard_normal(n); u/=np.linalg.norm(u); x0=r*u
    f=lambda x:0.5*a*(x@x); g=lambda x:a*x
    P=[];S=[]
    def mk(L):
        def F(x): L.append(np.array(x)); return f(x)
        return F
    minimize_lbfgsb(x0=x0,fun=mk(P),jac=g,ftol=0,gtol=1e-12,maxiter=4,**kw)
    minimize(mk(S),x0,jac=g,method='L-BFGS-B',options=dict(ftol=0,gtol=1e-12,maxiter=4))
    k=min(len(P),len(S),4)
    return max(np.max(np.abs(P[i]-S[i]))/max(1,np.max(np.abs(S[i]))) for i in range(k)), len(P), len(S)
for name,kw in [('default',{}),('ftol_ls=1e-4',dict(ftol_linesearch=1e-4)),('ftol_ls=1e-2',dict(ftol_linesearch=1e-2)),('gtol_ls=0.5',dict(gtol_linesearch=0.5)),('gtol_ls=0.95',dict(gtol_linesearch=0.95))]:
    out=[]
    for r in [0.5002,0.50008,0.503,8.0,9.5,10.5,12.0,25.0]:
        e,lp,ls=probe(r,3.0,3,1,**kw); out.append('%g:%.0e'%(r,e))
    print(name,out)
