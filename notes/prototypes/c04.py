import numpy as np, sys, warnings, collections
from gen import *
from lbfgsb import minimize_lbfgsb, rosenbrock, rosenbrock_grad
warnings.simplefilter('ignore')
N=int(sys.argv[1])
DOC={"CONVERGENCE: NORM_OF_PROJECTED_GRADIENT_<=_PGTOL","CONVERGENCE: REL_REDUCTION_OF_F_<=_FTOL","CONVERGENCE: F_<=_TARGET","STOP: TOTAL NO. of ITERATIONS REACHED LIMIT","STOP: TOTAL NO. of f AND g EVALUATIONS EXCEEDS LIMIT","STOP: USER CALLBACK","ABNORMAL_TERMINATION_IN_LNSRCH"}
bad=collections.Counter(); msgs=collections.Counter()
for seed in range(N):
    rng=np.random.default_rng(seed)
    n=int(rng.integers(1,6))
    if seed%2: f,g,_,_=make_qp(rng,n,10**rng.uniform(0,3))
    else: f,g=rosenbrock,rosenbrock_grad; n=max(n,2)
    lb,ub=rand_box(rng,n); x0=rand_x0(rng,lb,ub,'face')
    cnt=dict(f=0,g=0,ft=0,gt=0,cbtrue=0)
    def F(x): cnt['f']+=1; return f(x)
    def G(x): cnt['g']+=1; return g(x)
    maxiter=int(rng.choice([0,1,2,3,5,50])); maxfun=int(rng.choice([1,2,3,5,8,100])); maxls=int(rng.choice([1,2,5,20]))
    ftol=float(rng.choice([0,1e-12,1e-5,1e-1])); gtolv=float(rng.choice([0,1e-8,1e-3,10]))
    f0=f(np.clip(x0,lb,ub))
    ftv=rng.choice([None,'lo','mid','hi'])
    ft=None if ftv is None else {'lo':f0-1e6,'mid':f0-abs(f0)*0.3-0.1,'hi':f0+1}[ftv]
    ftarg=ft
    if ft is not None and rng.random()<0.5:
        def ftarg(): cnt['ft']+=1; return ft
    gt=gtolv
    if rng.random()<0.5:
        def gt(): cnt['gt']+=1; return gtolv
    stopat=int(rng.choice([0,1,2,4])); ncb=[0]
    def cb(xk,st):
        ncb[0]+=1
        if stopat and ncb[0]>=stopat: cnt['cbtrue']+=1; return True
        return False
    kw=dict(fun=F,jac=G,bounds=np.array([lb,ub]).T,maxiter=maxiter,maxfun=maxfun,maxls=maxls,ftol=ftol,gtol=gt,ftarget=ftarg,callback=cb if rng.random()<0.6 else None)
    try: r=minimize_lbfgsb(x0=x0,**kw)
    except Exception as e:
        bad['EXC '+type(e).__name__+str(e)[:50]]+=1; continue
    msgs[r.message]+=1
    def chk(r,n0f,nit0,maxiter):
        m=r.message
        if m not in DOC: bad['undocumented:'+m]+=1; return
        p=pg(r.x,r.jac,lb,ub)
        if 'PGTOL' in m and not p<=gtolv: bad['pgtol-false']+=1
        if 'TARGET' in m and not r.fun<=ft: bad['target-false']+=1
        if 'ITERATIONS' in m and not r.nit>=maxiter: bad['iter-false']+=1
        if 'EVALUATIONS' in m and not r.nfev>=maxfun: bad['eval-false']+=1
        if 'CALLBACK' in m and not cnt['cbtrue']: bad['cb-false']+=1
        if (r.success is False)!=(m.startswith('ABNORMAL')): bad['success-mismatch:'+m]+=1
        if r.nit>max(maxiter,nit0): bad['nit>maxiter']+=1
        if r.nfev>max(maxfun,n0f)+1: bad['nfev>maxfun+1 (%d,%d)'%(r.nfev,maxfun)]+=1
    chk(r,1,0,maxiter)
    if callable(ftarg) and cnt['ft']!=1: bad['ftarget calls %d'%cnt['ft']]+=1
    if callable(gt) and cnt['gt']!=1: bad['gtol calls %d'%cnt['gt']]+=1
    # restart with smaller maxiter
    if r.nit>=1 and r.success:
        cnt['cbtrue']=0
        kw2=dict(kw); kw2['maxiter']=int(rng.integers(0,r.nit+2)); kw2['callback']=None; kw2['maxfun']=maxfun+int(rng.choice([0,5]))
        mf=kw2['maxfun']
        try:
            r2=minimize_lbfgsb(x0=r.x,checkpoint=r,**kw2)
            maxfun=mf
            chk(r2,r.nfev,r.nit,kw2['maxiter'])
        except Exception as e: bad['EXC-restart '+type(e).__name__+str(e)[:50]]+=1
for k,v in bad.most_common(): print(v,k)
print(msgs)
