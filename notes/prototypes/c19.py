import numpy as np, lbfgsb
names=['ackley','beale','griewank','quartic','rastrigin','rosenbrock','sphere','styblinski_tang']
def cgrad(f,x,h=1e-3):
    # Richardson-extrapolated central differences (8th order-ish)
    n=x.size; g=np.zeros(n)
    for i in range(n):
        def D(h):
            e=np.zeros(n); e[i]=h; return (f(x+e)-f(x-e))/(2*h)
        T=[[D(h/2**k)] for k in range(5)]
        for k in range(1,5):
            for j in range(1,k+1):
                T[k].append(T[k][j-1]+(T[k][j-1]-T[k-1][j-1])/(4**j-1))
        g[i]=T[4][4]
    return g
rng=np.random.default_rng(0)
for nm in names:
    f=getattr(lbfgsb,nm); gf=getattr(lbfgsb,nm+'_grad'); worst=0
    for n in range(1 if nm not in('beale','rosenbrock') else 2,13):
        for _ in range(20):
            x=rng.uniform(-5,5,n)
            if nm=='ackley' and np.linalg.norm(x)<0.5: continue
            if nm=='griewank' and np.min(np.abs(np.cos(x/np.sqrt(np.arange(1,n+1)))))<1e-2: continue
            g=gf(x); gn=cgrad(f,x)
            assert g.shape==x.shape, (nm,g.shape)
            v=f(x); assert np.isscalar(v) or np.ndim(v)==0,(nm,type(v))
            worst=max(worst,np.max(np.abs(g-gn))/max(1,np.max(np.abs(gn))))
    print(nm,'worst rel err %.2e'%worst)
