import numpy as np, sys, collections, warnings
from gen import *
from lbfgsb.linesearch import line_search
from lbfgsb.scalar_function import ScalarFunction
warnings.simplefilter('ignore')
N=int(sys.argv[1]); bad=collections.Counter(); res=collections.Counter()
for seed in range(N):
    rng=np.random.default_rng(seed)
    n=int(rng.integers(1,6))
    A=rand_spd(rng,n,10**rng.uniform(0,2)); b=rng.standard_normal(n); w=rng.uniform(0,4); om=rng.uniform(1,8,n); ph=rng.uniform(0,6,n)
    kind=seed%3
    if kind==0: f=lambda x:0.5*x@A@x-b@x; g=lambda x:A@x-b
    elif kind==1: f=lambda x:0.5*x@A@x-b@x+w*np.sum(np.cos(om*x+ph)); g=lambda x:A@x-b-w*om*np.sin(om*x+ph)
    else: f=lambda x:float(np.sum(np.sin(om*x+ph))+0.05*x@x); g=lambda x:om*np.cos(om*x+ph)+0.1*x
    lb,ub=rand_box(rng,n); x0=rand_x0(rng,lb,ub,['interior','face'][seed%2])
    g0=g(x0); t=np.exp(rng.uniform(-3,2)); d=np.clip(x0-t*g0,lb,ub)-x0
    if not g0@d<0: continue
    pts=[]
    def F(x): pts.append(np.array(x)); return f(x)
    sf=ScalarFunction(F,x0,(),g,None,(lb,ub))
    f0=sf.fun(x0); gg=sf.grad(x0); pts.clear(); nf0=sf.nfev
    mi=int(rng.integers(1,21)); it=int(rng.choice([0,1,5])); boxed=not(np.isinf(lb).any() or np.isinf(ub).any())
    a=line_search(x0,f0,gg,d,lb,ub,it,1e8,boxed,sf,1e-3,0.9,0.1,mi,-1,None)
    if any((p<lb).any() or (p>ub).any() for p in pts): bad['eval outside box']+=1
    if sf.nfev-nf0>mi: bad['over budget']+=1
    if a is None: res['None']+=1; continue
    res['step']+=1
    amax=np.inf
    for i in range(n):
        if d[i]>0 and np.isfinite(ub[i]): amax=min(amax,(ub[i]-x0[i])/d[i])
        if d[i]<0 and np.isfinite(lb[i]): amax=min(amax,(lb[i]-x0[i])/d[i])
    if not (0<a<=amax*(1+1e-15)): bad['step out of range']+=1
    if not f(np.clip(x0+a*d,lb,ub))<f0: bad['not strictly downhill']+=1
for k,v in bad.most_common(): print(v,k)
print(dict(res))
