import numpy as np, sys, warnings, collections
from collections import deque
from gen import *
from ref import *
from lbfgsb.cauchy import get_cauchy_point
from lbfgsb.bfgsmats import LBFGSB_MATRICES, update_lbfgs_matrices
warnings.simplefilter('ignore')
N=int(sys.argv[1]); bad=collections.Counter(); worst=0
for seed in range(N):
    rng=np.random.default_rng(seed)
    n=int(rng.integers(1,11)); m=int(rng.integers(1,8)); npairs=int(rng.integers(0,m+1))
    lb,ub=rand_box(rng,n); x=rand_x0(rng,lb,ub,['interior','face','vertex'][seed%3])
    A=rand_spd(rng,n,10**rng.uniform(0,3))
    mats=LBFGSB_MATRICES(n); X=deque([rng.standard_normal(n)]); G=deque([A@X[0]])
    for _ in range(npairs):
        xn=rng.standard_normal(n); mats=update_lbfgs_matrices(xn,A@xn,X,G,m,mats,False)
    g=rng.standard_normal(n)*np.exp(rng.uniform(-2,2)); g[rng.random(n)<0.15]=0
    if np.max(np.abs(np.clip(x-g,lb,ub)-x))==0: continue
    B=dense_from_mats(mats,n)
    Sl=list(np.diff(np.array(X),axis=0)); Yl=list(np.diff(np.array(G),axis=0))
    if Sl:
        B2=dense_bfgs(Sl,Yl,mats.theta); 
        if np.max(np.abs(B-B2))>1e-8*np.max(np.abs(B2)): bad['B mismatch']+=1
    xc,c=get_cauchy_point(x,g,lb,ub,mats,1,-1,None)
    xr,tstar=ref_gcp(x,g,lb,ub,B)
    err=np.max(np.abs(xc-xr))/max(1,np.max(np.abs(xr)))
    worst=max(worst,err if err<1e-6 else 0)
    if err>1e-8: bad['gcp differs']+=1
    if (xc<lb).any() or (xc>ub).any(): bad['infeasible']+=1
    z=xc-x
    if g@z+0.5*z@B@z>1e-12*max(1,abs(g@z)): bad['model increase']+=1
    free=(xc!=lb)&(xc!=ub)
    if free.any() and mats.use_factor and np.max(np.abs(c-mats.W.T@z))>1e-9*max(1,np.max(np.abs(mats.W.T@z))): bad['c wrong']+=1; print('cwrong',seed,n,npairs,np.max(np.abs(c-mats.W.T@z)),np.max(np.abs(mats.W.T@z)),tstar, np.sort(np.where(g!=0, np.where(g<0,(x-ub)/np.where(g==0,1,g),(x-lb)/np.where(g==0,1,g)),np.inf))[:4])
for k,v in bad.most_common(): print(v,k)
print('worst ok err',worst)
