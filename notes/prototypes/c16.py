import numpy as np, sys, warnings, collections
from gen import *
from lbfgsb import minimize_lbfgsb
warnings.simplefilter('ignore')
N=int(sys.argv[1])
for mode in [None,'2-point','3-point','cs']:
    exc=collections.Counter(); worst=0; out=0; nf_bad=0
    for seed in range(N):
        rng=np.random.default_rng(seed)
        n=int(rng.integers(1,7)); cond=10**rng.uniform(0,2)
        f,g,A,b=make_qp(rng,n,cond)
        lb,ub=rand_box(rng,n, kind=3)
        x0=rand_x0(rng,lb,ub,['interior','face','vertex'][seed%3])
        cnt=[0]; bad=[0]
        def F(x):
            cnt[0]+=1
            xr=np.real(x)
            if (xr<lb).any() or (xr>ub).any(): bad[0]+=1
            return f(x)
        bn=np.array([lb,ub]).T
        re=minimize_lbfgsb(x0=x0,fun=f,jac=g,bounds=bn,ftol=1e-12,gtol=1e-7,maxiter=300)
        try:
            r=minimize_lbfgsb(x0=x0,fun=F,jac=mode,bounds=bn,ftol=1e-12,gtol=1e-7,maxiter=300)
        except Exception as e:
            exc[type(e).__name__+':'+str(e)[:50]]+=1; continue
        if bad[0]: out+=1
        if cnt[0]!=r.nfev: nf_bad+=1
        worst=max(worst,(r.fun-re.fun)/max(1,abs(re.fun)))
    print(mode,'exc',dict(exc),'outside',out,'nfev-mismatch',nf_bad,'worst rel f gap %.2e'%worst)
