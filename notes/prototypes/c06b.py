import numpy as np, sys, warnings, copy, collections, logging, io
from gen import *
from lbfgsb import minimize_lbfgsb, rosenbrock, rosenbrock_grad
from scipy.optimize import OptimizeResult, LbfgsInvHessProduct
warnings.simplefilter('ignore')
N=int(sys.argv[1]); bad=collections.Counter(); n_ok=collections.Counter()
def key(r): return (r.x.tobytes(),float(r.fun),r.jac.tobytes(),r.nfev,r.njev,r.nit,r.message,r.hess_inv.sk.tobytes(),r.hess_inv.yk.tobytes())
for seed in range(N):
    rng=np.random.default_rng(seed); n=int(rng.integers(2,8)); m=int(rng.integers(2,7))
    if seed%2==0: f,g,_,_=make_qp(rng,n,10**rng.uniform(0,3)); lb,ub=rand_box(rng,n); x0=rand_x0(rng,lb,ub,'face')
    else: f,g=rosenbrock,rosenbrock_grad; lb=np.full(n,-2.);ub=np.full(n,2.); x0=rng.uniform(-1.5,1.5,n)
    bn=np.array([lb,ub]).T; kw=dict(fun=f,jac=g,bounds=bn,ftol=0,gtol=1e-9)
    K=int(rng.integers(3,9)); ck=minimize_lbfgsb(x0=x0,maxiter=K,maxcor=m,**kw)
    if ck.nit<K or 'ITER' not in ck.message: continue
    # (d) reduced maxcor metamorphic
    m2=int(rng.integers(1,m)); npairs=ck.hess_inv.sk.shape[0]
    if npairs<2: continue
    r0=minimize_lbfgsb(x0=ck.x,checkpoint=ck,maxiter=K,maxcor=m2,**kw)
    keep=min(m2,npairs)
    e=np.max(np.abs(r0.hess_inv.sk-ck.hess_inv.sk[npairs-keep:])) if r0.hess_inv.sk.shape[0]==keep else 'shape'
    if isinstance(e,str) or e>1e-13*max(1,np.max(np.abs(ck.x))): bad['reduced maxcor: kept pairs wrong %s'%e]+=1
    else: n_ok['reduced-zero']+=1
    tr=copy.copy(ck); tr.hess_inv=LbfgsInvHessProduct(ck.hess_inv.sk[npairs-keep:],ck.hess_inv.yk[npairs-keep:])
    ra=minimize_lbfgsb(x0=ck.x,checkpoint=ck,maxiter=K+1,maxcor=m2,**kw); rb=minimize_lbfgsb(x0=ck.x,checkpoint=tr,maxiter=K+1,maxcor=m2,**kw)
    e=np.max(np.abs(ra.x-rb.x))/max(1,np.max(np.abs(rb.x)))
    if e>1e-9: bad['reduced maxcor: metamorphic differs %.1e'%e]+=1
    else: n_ok['reduced-next']+=1
    # chain of restarts
    cur=ck
    for j in range(1,4):
        nxt=minimize_lbfgsb(x0=cur.x,checkpoint=cur,maxiter=K+j,maxcor=m,**kw)
        ref=minimize_lbfgsb(x0=x0,maxiter=K+j,maxcor=m,**kw)
        if ref.nit<K+j: break
        e=np.max(np.abs(nxt.x-ref.x))/max(1,np.max(np.abs(ref.x)))
        if e>1e-9 or nxt.nfev!=ref.nfev: bad['chain step %d differs %.1e nfev %d/%d'%(j,e,nxt.nfev,ref.nfev)]+=1
        else: n_ok['chain%d'%j]+=1
        cur=nxt
    # restart twice from same checkpoint, frozen
    ck2=copy.deepcopy(ck)
    for a in (ck2.x,ck2.jac,ck2.hess_inv.sk,ck2.hess_inv.yk): a.flags.writeable=False
    try:
        q1=minimize_lbfgsb(x0=ck2.x,checkpoint=ck2,maxiter=K+2,maxcor=m,**kw); q2=minimize_lbfgsb(x0=ck2.x,checkpoint=ck2,maxiter=K+2,maxcor=m,**kw)
        if key(q1)!=key(q2): bad['restart twice differs']+=1
        else: n_ok['twice']+=1
    except Exception as e: bad['frozen checkpoint: '+type(e).__name__+' '+str(e)[:40]]+=1
for k,v in bad.most_common(): print(v,k)
print(dict(n_ok))
