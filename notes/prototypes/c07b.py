import numpy as np, sys, warnings, copy, collections
from gen import *
from lbfgsb import minimize_lbfgsb, rosenbrock, rosenbrock_grad
warnings.simplefilter('ignore')
class Crash(BaseException): pass
N=int(sys.argv[1]); bad=collections.Counter(); ok=0; chain_bad=collections.Counter()
for seed in range(N):
    rng=np.random.default_rng(seed); n=int(rng.integers(2,7)); m=int(rng.integers(1,6))
    if seed%2==0: f,g,_,_=make_qp(rng,n,10**rng.uniform(0,3)); lb,ub=rand_box(rng,n); x0=rand_x0(rng,lb,ub,'face')
    else: f,g=rosenbrock,rosenbrock_grad; lb=np.full(n,-2.);ub=np.full(n,2.); x0=rng.uniform(-1.5,1.5,n)
    bn=np.array([lb,ub]).T; kw=dict(jac=g,bounds=bn,ftol=0,gtol=1e-9,maxcor=m)
    # clean run: record per-callback nfev and iterates
    its=[]; 
    def cb0(xk,st): its.append((st.nit,xk.copy(),st.nfev)); return False
    minimize_lbfgsb(x0=x0,fun=f,callback=cb0,maxiter=8,**kw)
    if len(its)<4: continue
    for k in range(len(its)-2):
        # crash at objective call index c after callback k (nfev_k < c <= nfev_{k+1}+1)
        for c in range(its[k][2]+1, its[k+1][2]+2):
            latest=[None]; cnt=[0]
            def F(x):
                cnt[0]+=1
                if cnt[0]==c: raise Crash()
                return f(x)
            def cb(xk,st): latest[0]=st; return False   # keep by reference
            try: minimize_lbfgsb(x0=x0,fun=F,callback=cb,maxiter=8,**kw); continue
            except Crash: pass
            st=latest[0]
            kk=st.nit  # which callback was last
            # index of that state in clean run
            idx=[i for i,t in enumerate(its) if t[0]==kk]
            if not idx: bad['state nit not a clean-run nit']+=1; continue
            i=idx[0]
            if i+1>=len(its): continue
            try:
                r=minimize_lbfgsb(x0=st.x,fun=f,checkpoint=st,maxiter=its[i+1][0],**kw)
            except Exception as e: bad['restart EXC '+str(e)[:40]]+=1; continue
            e=np.max(np.abs(r.x-its[i+1][1]))/max(1,np.max(np.abs(r.x)))
            if e>1e-9: bad['continuation differs']+=1
            else: ok+=1
for k,v in bad.most_common(): print(v,k)
print('ok',ok)
