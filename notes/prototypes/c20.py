import numpy as np, sys, warnings, collections, copy
from gen import *
from lbfgsb import minimize_lbfgsb
warnings.simplefilter('ignore')
N=int(sys.argv[1]); bad=collections.Counter(); inj=0
EXC=[ValueError,TypeError,IndexError,ZeroDivisionError,AssertionError,KeyError,RuntimeError,FloatingPointError,AttributeError,StopIteration,np.linalg.LinAlgError]
for seed in range(N):
    rng=np.random.default_rng(seed)
    n=int(rng.integers(1,5)); f,g,_,_=make_qp(rng,n,10**rng.uniform(0,2))
    lb,ub=rand_box(rng,n); x0=rand_x0(rng,lb,ub,'face'); bn=np.array([lb,ub]).T
    jm=[None,'callable','2-point'][seed%3]
    def run(fault=None):
        cnt=collections.Counter()
        def hit(k):
            cnt[k]+=1
            if fault and fault[0]==k and fault[1]==cnt[k]: raise fault[2]
        def F(x): hit('fun'); return f(x)
        def G(x): hit('jac'); return g(x)
        def cb(x,st): hit('cb'); return False
        def upd(x,f0,fo,gr,X,Gd): hit('upd'); return f0,fo,gr,Gd
        def sc(x,gr,l,u): hit('sc'); return 1.0
        def ft(): hit('ft'); return -1e30
        def gt(): hit('gt'); return 1e-7
        r=minimize_lbfgsb(x0=x0,fun=F,jac=(G if jm=='callable' else jm),bounds=bn,callback=cb,update_fun_def=upd,gradient_scaler=sc,ftarget=ft,gtol=gt,maxiter=4,ftol=0)
        return r,cnt
    base,cnt=run()
    for k,c in cnt.items():
        for i in range(1,c+1):
            E=EXC[int(rng.integers(len(EXC)))]; e=E('boom-%s-%d'%(k,i)); inj+=1
            try:
                r,_=run((k,i,e)); bad['swallowed %s %s'%(k,E.__name__)]+=1
            except BaseException as got:
                if got is not e: bad['converted %s %s -> %s: %s'%(k,E.__name__,type(got).__name__,str(got)[:40])]+=1
            r2,_=run()
            if not (np.array_equal(r2.x,base.x) and r2.nfev==base.nfev and r2.message==base.message and np.array_equal(r2.hess_inv.sk,base.hess_inv.sk)): bad['residue after %s'%k]+=1
for k,v in bad.most_common(): print(v,k)
print('injections',inj)
