import numpy as np, sys, warnings, collections, copy
from collections import deque
from gen import *
from lbfgsb import minimize_lbfgsb
from scipy.optimize import OptimizeResult, LbfgsInvHessProduct
warnings.simplefilter('ignore')
N=int(sys.argv[1]); bad=collections.Counter(); stats=collections.Counter()
for seed in range(N):
    rng=np.random.default_rng(seed)
    n=int(rng.integers(2,7)); m=int(rng.integers(1,6))
    fa,ga,A,b=make_qp(rng,n,10**rng.uniform(0,2))
    R=rand_spd(rng,n,10**rng.uniform(0,2)); 
    kind=seed%3
    if kind==0: c=float(np.exp(rng.uniform(-2,2))); fb=lambda x:c*fa(x); gb=lambda x:c*ga(x)
    elif kind==1: lam=float(np.exp(rng.uniform(-1,3))); fb=lambda x:fa(x)+lam*0.5*x@R@x; gb=lambda x:ga(x)+lam*(R@x)
    else:
        # arbitrary rewrite: indefinite perturbation breaks curvature on some pairs
        Q=rng.standard_normal((n,n)); Q=(Q+Q.T)*rng.uniform(0.2,1.5)
        fb=lambda x:fa(x)+0.5*x@Q@x; gb=lambda x:ga(x)+Q@x
    lb,ub=rand_box(rng,n); x0=rand_x0(rng,lb,ub,'interior'); bn=np.array([lb,ub]).T
    ksw=int(rng.integers(1,6))
    cur={'f':fa,'g':ga}
    F=lambda x:cur['f'](x); G=lambda x:cur['g'](x)
    it=[0]; info={}
    def upd(x,f0,f0_old,grad,X,Gd):
        it[0]+=1   # call 1 is initial (before iteration), call j+1 after iteration j
        if it[0]==ksw+1:
            cur['f']=fb; cur['g']=gb
            info['Xin']=[a.copy() for a in X]; info['x']=x.copy()
            newG=deque(gb(a) for a in X)
            xprev=X[-1]
            return fb(x), fb(xprev), gb(x), newG
        return f0,f0_old,grad,Gd
    states=[]
    def cb(xk,st): states.append(copy.deepcopy(st)); return False
    kw=dict(bounds=bn,maxcor=m,ftol=0,gtol=1e-10)
    try:
        r=minimize_lbfgsb(x0=x0,fun=F,jac=G,update_fun_def=upd,callback=cb,maxiter=ksw+1,**kw)
    except Exception as e:
        bad['EXC '+type(e).__name__+':'+str(e)[:60]]+=1; continue
    if 'Xin' not in info or len(states)<ksw+1: stats['no-switch']+=1; continue
    stats['switched']+=1
    st=states[ksw-1]  # state after iteration ksw (the switch happened just before cb)
    # retained points from state
    sk,yk=st.hess_inv.sk,st.hess_inv.yk
    pts=[st.x]
    for s in sk[::-1]: pts.append(pts[-1]-s)
    pts=pts[::-1]
    visited=info['Xin']+[info['x']]
    # newest retained?
    idx=[]
    for p in pts:
        d=[np.max(np.abs(p-v)) for v in visited]; j=int(np.argmin(d)); idx.append(j if d[j]<1e-9 else None)
    if None in idx: bad['pair points not visited']+=1; continue
    if idx[-1]!=len(visited)-1: bad['newest not retained']+=1
    for a,bq,y,s in zip(idx,idx[1:],yk,sk):
        if not np.array_equal(y,gb(visited[bq])-gb(visited[a])): bad['yk not diff of rewritten grads']+=1; break
        if not s@y>2.2e-16*(y@y): bad['retained pair violates curvature']+=1; break
    stats['dropped' if len(sk)<min(m,len(visited)-1) else 'alldkept']+=1
    # restart equivalence from state on new objective
    try:
        r1=minimize_lbfgsb(x0=st.x,fun=fb,jac=gb,checkpoint=st,maxiter=st.nit+1,**kw)
    except Exception as e:
        bad['EXC-restart '+type(e).__name__+':'+str(e)[:60]]+=1; continue
    xn=states[ksw].x
    # find restart's iterate after one iteration
    e=np.max(np.abs(r1.x-xn))/max(1,np.max(np.abs(xn)))
    if r1.nit!=st.nit+1: stats['restart nit %d vs %d'%(r1.nit,st.nit+1)]+=1
    if e>1e-8: bad['next iterate differs from restart (kind %d)'%kind]+=1
for k,v in bad.most_common(): print(v,k)
print(dict(stats))
