import numpy as np, sys, warnings
from gen import *
import lbfgsb.main as M
from lbfgsb import minimize_lbfgsb, rosenbrock, rosenbrock_grad
from scipy.optimize import minimize
warnings.simplefilter('ignore')
lo=int(sys.argv[1]); hi=int(sys.argv[2])
orig_ls=M.line_search
LS=[]
def ls(*a,**k):
    sf=a[9]; n0=sf.nfev
    r=orig_ls(*a,**k)
    best=(r is not None) and (not np.array_equal(sf.x, np.clip(a[0]+r*a[3],a[4],a[5])))
    LS.append(dict(it=a[6],dnorm=float(np.sqrt(a[3]@a[3])),ret=r,nev=sf.nfev-n0,best=best,fail=r is None))
    return r
M.line_search=ls
def fam(rng,n,kind):
    A=rand_spd(rng,n,10**rng.uniform(0,3)); b=rng.standard_normal(n)*3
    if kind==0:
        w=np.exp(rng.uniform(-2,0,n)); f=lambda x:0.5*x@A@x-b@x+0.25*np.sum(w*x**4); g=lambda x:A@x-b+w*x**3
    elif kind==1:
        C=rng.standard_normal((n,n)); f=lambda x:0.5*x@A@x-b@x+np.sum(np.logaddexp(0,C@x)); g=lambda x:A@x-b+C.T@(1/(1+np.exp(-(C@x))))
    else: f,g=rosenbrock,rosenbrock_grad
    return f,g
worst=0; ncmp=0; ndiv=0; devs={'cap':0,'short':0,'best':0}; lens=[]
for seed in range(lo,hi):
    rng=np.random.default_rng(seed); kind=seed%3; n=int(rng.integers(2,9)); m=int(rng.integers(1,9))
    f,g=fam(rng,n,kind); x0=rng.standard_normal(n)*(1.0 if kind<2 else 0.7)*np.exp(rng.uniform(-1,1))
    P=[];S=[];PF=[];SF=[]
    def mk(L,LF):
        def F(x): L.append(np.array(x,dtype=float)); v=f(x); LF.append(v); return v
        return F
    LS.clear()
    r=minimize_lbfgsb(x0=x0,fun=mk(P,PF),jac=g,maxcor=m,ftol=0,gtol=1e-12,maxiter=12)
    rs=minimize(mk(S,SF),x0,jac=g,method='L-BFGS-B',options=dict(maxcor=m,ftol=0,gtol=1e-12,maxiter=12))
    # determine evaluation index at which a deviation may first apply
    stop=len(P); ev=1
    for rec in LS:
        first=ev; ev+=rec['nev']
        trig=None
        if rec['it']==0 and rec['dnorm']<1: trig='short'
        # cap: iteration 0 any trial at alpha==1.0 cap  -> need alphas; approximate: iteration 0 with more than 1 eval
        elif rec['it']==0 and rec['nev']>1: trig='cap'
        if trig: stop=min(stop,first); devs[trig]+=1; break
        if rec['best'] or rec['fail']: stop=min(stop,ev); devs['best']+=1; break
        # best-trial: returned step != last trial  -> detect via memo: if result evaluated again? approximate using points
        xlast=P[ev-1]
    # best-trial detection: compare accepted iterate with last trial of each LS is complex here; use scipy divergence diagnostics instead
    k=min(len(P),len(S),stop)
    g0=np.max(np.abs(g(x0)))
    for i in range(k):
        # round-off regime cut
        if i>=2 and abs(SF[i-1]-SF[i])<=1e-8*max(1,abs(SF[i])): break
        err=np.max(np.abs(P[i]-S[i]))/max(1,np.max(np.abs(S[i])))
        ncmp+=1
        if err>worst: worst=err; wc=(seed,kind,n,m,i,err)
        if err>1e-6: ndiv+=1; print('DIV',seed,kind,n,m,i,err,[ (q['it'],q['nev'],q['ret']) for q in LS][:6]); break
    lens.append(k)
print(lo,hi,'compared evals',ncmp,'divergent runs',ndiv,'worst',wc,'devs',devs,'mean len',np.mean(lens))
