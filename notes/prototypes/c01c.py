import numpy as np, sys, warnings, time
from gen import *
from lbfgsb import minimize_lbfgsb
warnings.simplefilter('ignore')
N=int(sys.argv[1]); gtol=float(sys.argv[2]); rat=[]; t0=time.time(); its=[]
for seed in range(N):
    rng=np.random.default_rng(seed)
    n=int(rng.integers(1,13)); cond=10**rng.uniform(0,4)
    f,g,A,b=make_qp(rng,n,cond)
    lb,ub=rand_box(rng,n)
    x0=rand_x0(rng,lb,ub,['interior','face','vertex'][seed%3])
    m=int(rng.integers(1,11))
    r=minimize_lbfgsb(x0=x0,fun=f,jac=g,bounds=np.array([lb,ub]).T,maxcor=m,ftol=0,gtol=gtol,maxiter=2000,maxfun=20000)
    p=pg(r.x,g(r.x),lb,ub); its.append(r.nit)
    if not r.message.startswith('CONV'):
        L=np.linalg.eigvalsh(A)[-1]
        Fabs=0.5*np.abs(r.x)@np.abs(A)@np.abs(r.x)+np.abs(b)@np.abs(r.x)
        tau=np.sqrt(L*2.2e-16*max(Fabs,1e-300))
        rat.append(p/tau)
        if p/tau>1.5: print(seed,n,m,r.message[:12],r.nit,r.nfev,'pg=%.2e tau=%.2e ratio=%.2f'%(p,tau,p/tau))
print('n nonconv',len(rat),'max ratio',max(rat) if rat else None,'time',time.time()-t0,'max nit',max(its),'p99 nit',np.percentile(its,99))
