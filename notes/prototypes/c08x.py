import numpy as np, sys, warnings, collections, itertools
from collections import deque
from gen import *
from ref import *
from lbfgsb.cauchy import get_cauchy_point
from lbfgsb.subspacemin import subspace_minimization, get_freev
from lbfgsb.bfgsmats import LBFGSB_MATRICES, update_lbfgs_matrices
warnings.simplefilter('ignore')
nmax=int(sys.argv[1]); bad=collections.Counter(); tot=0; nontriv=0
VAR=[]  # (kind,pos)
for kind in ['both','lo','up','none']:
    for pos in ['lb','int','ub']:
        if pos=='lb' and kind in('up','none'): continue
        if pos=='ub' and kind in('lo','none'): continue
        for sg in (-1,0,1): VAR.append((kind,pos,sg))
print('per-variable patterns',len(VAR))
rng=np.random.default_rng(0)
for n in range(1,nmax+1):
  for pat in itertools.product(VAR,repeat=n):
    for npairs in (0,1,3):
      for tie in (False,True):
        lb=np.empty(n);ub=np.empty(n);x=np.empty(n);g=np.empty(n)
        for i,(kind,pos,sg) in enumerate(pat):
            c=rng.normal(); w=np.exp(rng.uniform(-1,1))
            lb[i]=c-w if kind in('both','lo') else -np.inf; ub[i]=c+w if kind in('both','up') else np.inf
            x[i]={'lb':lb[i],'ub':ub[i],'int':c+ (0.3*w if not tie else 0.0)}[pos]
            g[i]=sg*(np.exp(rng.uniform(-1,1)) if not tie else 1.0)
            if tie and kind=='both' and pos=='int': lb[i]=c-1.0; ub[i]=c+1.0
        if np.max(np.abs(np.clip(x-g,lb,ub)-x))==0: continue
        A=rand_spd(rng,n,10**rng.uniform(0,2)); mats=LBFGSB_MATRICES(n); X=deque([rng.standard_normal(n)]); G=deque([A@X[0]])
        for _ in range(npairs):
            xn=rng.standard_normal(n); mats=update_lbfgs_matrices(xn,A@xn,X,G,3,mats,False)
        B=dense_from_mats(mats,n); tot+=1
        xc,c=get_cauchy_point(x,g,lb,ub,mats,1,-1,None); xr,ts=ref_gcp(x,g,lb,ub,B)
        if np.max(np.abs(xc-xr))>1e-9*max(1,np.max(np.abs(xr))): bad['gcp']+=1
        if (xc<lb).any() or (xc>ub).any(): bad['infeasible']+=1
        z=xc-x
        if ((xc!=lb)&(xc!=ub)).any() and mats.use_factor and np.max(np.abs(c-mats.W.T@z))>1e-9*max(1,np.max(np.abs(mats.W.T@z))): bad['c']+=1
        if any(p[1]!='int' and ((p[1]=='lb' and p[2]>0) or (p[1]=='ub' and p[2]<0)) for p in pat): nontriv+=1
        cref=mats.W.T@z if mats.use_factor else np.zeros(1)
        fv,Z,Am=get_freev(xc,lb,ub,1); xbar=subspace_minimization(x,xc,fv,Z,Am,cref,g,lb,ub,mats)
        F=np.where((xc!=lb)&(xc!=ub))[0]; ref=xc.copy()
        if F.size:
            r=(g+B@(xc-x))[F]; dh=-np.linalg.solve(B[np.ix_(F,F)],r); al=1.0
            for i,di in zip(F,dh):
                if di>0 and np.isfinite(ub[i]): al=min(al,(ub[i]-xc[i])/di)
                if di<0 and np.isfinite(lb[i]): al=min(al,(lb[i]-xc[i])/di)
            ref[F]=xc[F]+al*dh
        if np.max(np.abs(xbar-ref))>1e-9*max(1,np.max(np.abs(ref))): bad['xbar']+=1
        if not g@(xbar-x)<0: bad['not descent']+=1
for k,v in bad.most_common(): print(v,k)
print('inputs',tot,'with outward-gradient var on bound',nontriv)
