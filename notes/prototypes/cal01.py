import numpy as np, sys, warnings, time
from gen import *
from lbfgsb import minimize_lbfgsb
warnings.simplefilter('ignore')
lo=int(sys.argv[1]); hi=int(sys.argv[2]); mx=0; nst=0; its=0; worstcase=None
for seed in range(lo,hi):
    rng=np.random.default_rng(seed+10_000)
    n=int(rng.integers(1,13)); cond=10**rng.uniform(0,4); fam=seed%3
    A=rand_spd(rng,n,cond); b=rng.standard_normal(n)*3
    if fam==0:
        f=lambda x:0.5*x@A@x-b@x; g=lambda x:A@x-b; Lf=lambda x:np.linalg.eigvalsh(A)[-1]; Fa=lambda x:0.5*np.abs(x)@np.abs(A)@np.abs(x)+np.abs(b)@np.abs(x)
    elif fam==1:
        w=np.exp(rng.uniform(-2,0,n))
        f=lambda x:0.5*x@A@x-b@x+0.25*np.sum(w*x**4); g=lambda x:A@x-b+w*x**3
        Lf=lambda x:np.linalg.eigvalsh(A+np.diag(3*w*x**2))[-1]; Fa=lambda x:0.5*np.abs(x)@np.abs(A)@np.abs(x)+np.abs(b)@np.abs(x)+0.25*np.sum(w*x**4)
    else:
        C=rng.standard_normal((n,n))
        f=lambda x:0.5*x@A@x-b@x+np.sum(np.logaddexp(0,C@x)); g=lambda x:A@x-b+C.T@(1/(1+np.exp(-(C@x))))
        def Lf(x):
            s=1/(1+np.exp(-(C@x))); return np.linalg.eigvalsh(A+C.T@np.diag(s*(1-s))@C)[-1]
        Fa=lambda x:0.5*np.abs(x)@np.abs(A)@np.abs(x)+np.abs(b)@np.abs(x)+np.sum(np.logaddexp(0,C@x))
    lb,ub=rand_box(rng,n); x0=rand_x0(rng,lb,ub,['interior','face','vertex'][(seed//3)%3]); m=int(rng.integers(1,11))
    r=minimize_lbfgsb(x0=x0,fun=f,jac=g,bounds=np.array([lb,ub]).T,maxcor=m,ftol=0,gtol=1e-6,maxiter=3000,maxfun=30000)
    p=pg(r.x,g(r.x),lb,ub); its=max(its,r.nit)
    if p>1e-6:
        nst+=1; tau=np.sqrt(Lf(r.x)*2.2e-16*max(Fa(r.x),1e-300)); 
        if p/tau>mx: mx=p/tau; worstcase=(seed,fam,n,m,r.message[:10],p,tau)
print(lo,hi,'stalled',nst,'max ratio %.3f'%mx,'max nit',its,worstcase)
