import numpy as np
def dense_bfgs(S,Y,theta):
    """S,Y: lists of pairs oldest->newest; B0=theta I"""
    n=S[0].size if len(S) else None
    B=None
    for s,y in zip(S,Y):
        if B is None: B=theta*np.eye(s.size)
        Bs=B@s
        B=B-np.outer(Bs,Bs)/(s@Bs)+np.outer(y,y)/(y@s)
    return B
def dense_from_mats(mats,n):
    from lbfgsb.bfgsmats import bmv
    if not mats.use_factor: return mats.theta*np.eye(n)
    W=mats.W; k=W.shape[1]
    M=np.column_stack([bmv(mats.invMfactors,e) for e in np.eye(k)])
    return mats.theta*np.eye(n)-W@M@W.T
def ref_gcp(x,g,lb,ub,B):
    n=x.size
    t=np.full(n,np.inf)
    for i in range(n):
        if g[i]<0 and np.isfinite(ub[i]): t[i]=(x[i]-ub[i])/g[i]
        elif g[i]>0 and np.isfinite(lb[i]): t[i]=(x[i]-lb[i])/g[i]
    d=np.where(t>0,-g,0.0)
    bps=sorted(set(t[(t>0)&np.isfinite(t)]))
    z=np.zeros(n); told=0.0
    for tb in bps+[np.inf]:
        fp=g@d+d@B@z; fpp=d@B@d
        if fp>=0: return x+z,told
        dtmin=-fp/fpp if fpp>0 else np.inf
        if dtmin<tb-told: return x+z+dtmin*d, told+dtmin
        if not np.isfinite(tb): raise RuntimeError('unbounded')
        z=z+(tb-told)*d
        for i in range(n):
            if t[i]==tb:
                z[i]=(ub[i] if g[i]<0 else lb[i])-x[i]; d[i]=0.0
        told=tb
    return x+z,told
