import numpy as np, traceback
from lbfgsb import minimize_lbfgsb
cnt=[0]
def F(x):
    cnt[0]+=1
    if cnt[0]==3: raise StopIteration('boom')
    return float(x@x)
try:
    r=minimize_lbfgsb(x0=np.array([1.,2.]),fun=F,jac='2-point',maxiter=3)
    print('returned',r.message,r.nfev,cnt[0],r.jac)
except BaseException as e: print('raised',type(e),e)
