import numpy as np, sys, warnings
from gen import *
from lbfgsb import minimize_lbfgsb, rosenbrock, rosenbrock_grad
from scipy.optimize import minimize
warnings.simplefilter('ignore')
N=int(sys.argv[1])
def fam(rng,n,kind):
    A=rand_spd(rng,n,10**rng.uniform(0,3)); b=rng.standard_normal(n)*3
    if kind==0:
        w=np.exp(rng.uniform(-2,0,n))
        f=lambda x:0.5*x@A@x-b@x+0.25*np.sum(w*x**4); g=lambda x:A@x-b+w*x**3
    elif kind==1:
        C=rng.standard_normal((n,n)); 
        f=lambda x:0.5*x@A@x-b@x+np.sum(np.logaddexp(0,C@x)); g=lambda x:A@x-b+C.T@(1/(1+np.exp(-(C@x))))
    else:
        f,g=rosenbrock,rosenbrock_grad
    return f,g
stats=[]
for seed in range(N):
    rng=np.random.default_rng(seed)
    kind=seed%3
    n=int(rng.integers(2,9)); m=int(rng.integers(1,9))
    f,g=fam(rng,n,kind)
    x0=rng.standard_normal(n)*(1.0 if kind<2 else 0.7)
    P=[];S=[]
    def mk(L):
        def F(x): L.append(np.array(x,dtype=float)); return f(x)
        return F
    nit=12
    r=minimize_lbfgsb(x0=x0,fun=mk(P),jac=g,maxcor=m,ftol=0,gtol=1e-10,maxiter=nit)
    rs=minimize(mk(S),x0,jac=g,method='L-BFGS-B',options=dict(maxcor=m,ftol=0,gtol=1e-10,maxiter=nit))
    k=min(len(P),len(S)); 
    div=None
    for i in range(k):
        err=np.max(np.abs(P[i]-S[i]))/max(1,np.max(np.abs(S[i])))
        if err>1e-6: div=(i,err); break
    stats.append((seed,kind,n,m,len(P),len(S),div, np.linalg.norm(g(x0))))
    print(seed,kind,n,m,len(P),len(S),div,'|g0|=%.2g'%np.linalg.norm(g(x0)), 'nit',r.nit,rs.nit)
