import numpy as np
def rand_spd(rng, n, cond):
    Q,_ = np.linalg.qr(rng.standard_normal((n,n)))
    ev = np.exp(rng.uniform(0, np.log(cond), n)); ev[0]=1.0
    if n>1: ev[-1]=cond
    A = (Q*ev)@Q.T
    return (A+A.T)/2
def rand_box(rng, n, kind=None):
    lb = np.full(n,-np.inf); ub=np.full(n,np.inf)
    for i in range(n):
        k = rng.integers(0,5) if kind is None else kind
        c = rng.normal()*2
        w = np.exp(rng.uniform(-2,1.5))
        if k==0: pass
        elif k==1: lb[i]=c
        elif k==2: ub[i]=c
        elif k==3: lb[i]=c-w; ub[i]=c+w
        elif k==4:
            if rng.random()<0.3: lb[i]=ub[i]=c
            else: lb[i]=c-w; ub[i]=c+w
    return lb,ub
def rand_x0(rng, lb, ub, mode):
    n=lb.size
    lo = np.where(np.isfinite(lb), lb, np.where(np.isfinite(ub), ub-3, -3))
    hi = np.where(np.isfinite(ub), ub, np.where(np.isfinite(lb), lb+3, 3))
    x = lo + rng.random(n)*(hi-lo)
    if mode=='interior': return x
    for i in range(n):
        p = 0.5 if mode=='face' else 1.0
        if rng.random()<p:
            c=[]
            if np.isfinite(lb[i]): c.append(lb[i])
            if np.isfinite(ub[i]): c.append(ub[i])
            if c: x[i]=c[rng.integers(len(c))]
    return x
def make_qp(rng, n, cond):
    A = rand_spd(rng,n,cond); b = rng.standard_normal(n)*3
    f = lambda x: 0.5*x@A@x - b@x
    g = lambda x: A@x - b
    return f,g,A,b
def pg(x,g,lb,ub):
    return np.max(np.abs(np.clip(x-g,lb,ub)-x))
