import numpy as np, itertools, collections, warnings
from scipy.optimize._numdiff import approx_derivative
from lbfgsb.scalar_function import prepare_scalar_function
warnings.simplefilter('ignore')
A=np.array([[3.,1,0],[1,2,.5],[0,.5,1]]); b=np.array([1.,-2,.5])
f=lambda x: 0.5*x@A@x-b@x+0.1*np.sum(x**4)
g=lambda x: A@x-b+0.4*x**3
PTS=[np.array([0.3,-1.2,2.0]),np.array([1.0,1.0,-0.5]),np.array([-2.0,0.25,0.0])]
lb=np.array([-2.,-3,-1]); ub=np.array([2.,1,2.])
bad=collections.Counter(); nh=0
for mode in ['callable',None,'2-point','3-point','cs']:
  for L in range(1,5):
    for hist in itertools.product(range(9),repeat=L):
        nh+=1
        log=[]
        def F(x): log.append(('f',np.array(x))); return f(x)
        def G(x): log.append(('g',np.array(x))); return g(x)
        sf=prepare_scalar_function(F,PTS[0],jac=(G if mode=='callable' else mode),bounds=(lb,ub),epsilon=1e-8)
        last=None; fknown=False; gknown=False; scal=1.0
        for step,h in enumerate(hist):
            op,pi=divmod(h,3); p=PTS[pi].copy()
            if step==2: scal=2.5; sf.scaling_factor=scal
            n0=len([1 for k,_ in log if k=='f']); g0=len([1 for k,_ in log if k=='g'])
            if op==0: out=sf.fun(p); okv=(out==f(p)*scal)
            elif op==1:
                out=sf.grad(p)
                ref=g(p) if mode=='callable' else approx_derivative(f,p,f0=f(p),method=('2-point' if mode is None else mode),abs_step=(1e-8 if mode is None else None),bounds=(lb,ub))
                okv=np.array_equal(out,ref*scal)
            else:
                o1,o2=sf.fun_and_grad(p)
                ref=g(p) if mode=='callable' else approx_derivative(f,p,f0=f(p),method=('2-point' if mode is None else mode),abs_step=(1e-8 if mode is None else None),bounds=(lb,ub))
                okv=(o1==f(p)*scal) and np.array_equal(o2,ref*scal)
            if not okv: bad[(mode,'stale/wrong value')]+=1
            nf=len([1 for k,_ in log if k=='f'])
            same=last is not None and np.array_equal(last,p)
            if same and fknown and op==0 and nf!=n0: bad[(mode,'re-evaluated f at last point')]+=1
            if sf.nfev!=nf: bad[(mode,'nfev != calls')]+=1
            if mode=='callable' and sf.ngev!=len([1 for k,_ in log if k=='g']): bad[(mode,'ngev != calls')]+=1
            if not same: fknown=gknown=False
            last=p
            if op in(0,2) or mode!='callable': fknown=True
            p[:]=99.0  # caller mutates its array afterwards
print(nh,'histories'); print(bad)
