import numpy as np, sys, warnings
from gen import *
from lbfgsb import minimize_lbfgsb, rosenbrock, rosenbrock_grad
warnings.simplefilter('ignore')
N=int(sys.argv[1])
worst=0
for seed in range(N):
    rng=np.random.default_rng(seed)
    n=int(rng.integers(2,9)); m=int(rng.integers(1,7))
    if seed%2==0:
        f,g,A,b=make_qp(rng,n,10**rng.uniform(0,3)); lb,ub=rand_box(rng,n); x0=rand_x0(rng,lb,ub,'face')
    else:
        f,g=rosenbrock,rosenbrock_grad; lb=np.full(n,-2.);ub=np.full(n,2.); x0=rng.uniform(-1.5,1.5,n)
    bnds=np.array([lb,ub]).T
    kw=dict(fun=f,jac=g,bounds=bnds,maxcor=m,ftol=0,gtol=1e-9)
    full=[]
    for k in range(1,10):
        full.append(minimize_lbfgsb(x0=x0,maxiter=k,**kw))
    for k in range(1,8):
        ck=full[k-1]
        if ck.nit<k: break
        r0=minimize_lbfgsb(x0=ck.x,checkpoint=ck,maxiter=k,**kw)
        e0=max(np.max(np.abs(r0.hess_inv.sk-ck.hess_inv.sk)),0) if r0.hess_inv.sk.shape==ck.hess_inv.sk.shape else 'shape %s %s'%(r0.hess_inv.sk.shape,ck.hess_inv.sk.shape)
        r1=minimize_lbfgsb(x0=ck.x,checkpoint=ck,maxiter=k+1,**kw)
        ref=full[k]
        e1=np.max(np.abs(r1.x-ref.x))/max(1,np.max(np.abs(ref.x)))
        if isinstance(e0,str) or e1>1e-9 or r0.message!=ck.message:
            print(seed,k,'m',m,'pairs-err',e0,'next-x-err %.2e'%e1, r0.message[:20], ck.message[:20],r1.nit,ref.nit, r1.nfev, ref.nfev)
        worst=max(worst,e1)
print('worst',worst)
