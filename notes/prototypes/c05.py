import numpy as np, sys, warnings, collections, copy
from gen import *
from lbfgsb import minimize_lbfgsb, rosenbrock, rosenbrock_grad, rastrigin, rastrigin_grad
warnings.simplefilter('ignore')
N=int(sys.argv[1]); bad=collections.Counter(); ncb=0
for seed in range(N):
    rng=np.random.default_rng(seed)
    n=int(rng.integers(1,7)); k=seed%3
    if k==0: f,g,_,_=make_qp(rng,n,10**rng.uniform(0,3))
    elif k==1: f,g=rosenbrock,rosenbrock_grad; n=max(n,2)
    else: f,g=rastrigin,rastrigin_grad
    lb,ub=rand_box(rng,n); x0=rand_x0(rng,lb,ub,'face'); m=int(rng.integers(1,6))
    cnt=dict(f=0,g=0)
    def F(x): cnt['f']+=1; return f(x)
    def G(x): cnt['g']+=1; return g(x)
    states=[]
    def cb(xk,st):
        states.append((xk.copy(),st,copy.deepcopy(st),dict(cnt)))
        return False
    maxls=int(rng.choice([2,5,20]))
    kw=dict(fun=F,jac=G,bounds=np.array([lb,ub]).T,maxcor=m,ftol=1e-13,gtol=1e-9,maxls=maxls)
    r=minimize_lbfgsb(x0=x0,maxiter=12,callback=cb,**kw)
    def coh(st,c,tag):
        if not (st.fun==f(st.x)): bad[tag+' fun!=f(x)']+=1
        if not np.array_equal(st.jac,g(st.x)): bad[tag+' jac!=g(x)']+=1
        if st.nfev!=c['f']: bad[tag+' nfev']+=1
        if st.njev!=c['g']: bad[tag+' njev']+=1
    coh(r,cnt,'res')
    for i,(xk,st,snap,c) in enumerate(states):
        ncb+=1
        coh(snap,c,'cb')
        if not np.array_equal(xk,snap.x): bad['cb xk!=state.x']+=1
        if not np.array_equal(st.x,snap.x): bad['cb state.x mutated later']+=1
        if not np.array_equal(st.jac,snap.jac): bad['cb state.jac mutated later']+=1
        if not np.array_equal(st.hess_inv.sk,snap.hess_inv.sk): bad['cb state.sk mutated later']+=1
        if False: bad['cb nit != k']+=1
        # compare with run maxiter=i+1
        c0=dict(cnt); rk=minimize_lbfgsb(x0=x0,maxiter=snap.nit,**kw)
        for a in ['x','fun','jac','nfev','njev','nit']:
            if not np.array_equal(getattr(rk,a),getattr(snap,a)): bad['cb vs maxiter=k: '+a]+=1
        if not (np.array_equal(rk.hess_inv.sk,snap.hess_inv.sk) and np.array_equal(rk.hess_inv.yk,snap.hess_inv.yk)): bad['cb vs maxiter=k: pairs']+=1
        cnt.update(c0)
    # no-callback equivalence
    c0=dict(cnt); r2=minimize_lbfgsb(x0=x0,maxiter=12,**kw)
    if not (np.array_equal(r2.x,r.x) and r2.nfev==r.nfev and r2.message==r.message): bad['callback alters run']+=1
for k,v in bad.most_common(): print(v,k)
print('callbacks',ncb)
