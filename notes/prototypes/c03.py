import numpy as np, sys, warnings, collections
from gen import *
from lbfgsb import minimize_lbfgsb, rosenbrock, rosenbrock_grad, rastrigin, rastrigin_grad, styblinski_tang, styblinski_tang_grad
warnings.simplefilter('ignore')
N=int(sys.argv[1])
up=0; conv_after_up=0; worst=0; exc=collections.Counter(); worse_than_start=0
for seed in range(N):
    rng=np.random.default_rng(seed)
    n=int(rng.integers(1,7))
    k=seed%4
    if k==0: f,g,_,_=make_qp(rng,n,10**rng.uniform(0,4))
    elif k==1: f,g=rosenbrock,rosenbrock_grad; n=max(n,2)
    elif k==2: f,g=rastrigin,rastrigin_grad
    else:
        a=rng.uniform(1,10,n)
        f=lambda x: float(np.sum(x+np.exp(-a*x))); g=lambda x: 1-a*np.exp(-a*x)
    lb,ub=rand_box(rng,n); x0=rand_x0(rng,lb,ub,'face')
    if k==3: x0=x0-rng.uniform(0,8); lb=np.minimum(lb,x0)
    maxls=int(rng.integers(1,21)); maxfun=int(rng.integers(1,60))
    fs=[]
    def cb(xk,st): fs.append(float(f(xk))); return False
    try:
        r=minimize_lbfgsb(x0=x0,fun=f,jac=g,bounds=np.array([lb,ub]).T,maxls=maxls,maxfun=maxfun,maxiter=100,callback=cb,maxcor=int(rng.integers(1,8)))
    except Exception as e:
        exc[type(e).__name__+str(e)[:40]]+=1; continue
    seq=[float(f(np.clip(x0,lb,ub)))]+fs+[float(f(r.x))]
    inc=[b-a for a,b in zip(seq,seq[1:]) if b>a]
    if inc:
        up+=1; worst=max(worst,max(inc))
        if r.message.startswith('CONV'): conv_after_up+=1
        if up<6: print(seed,k,maxls,maxfun,r.message,max(inc))
    if seq[-1]>seq[0]: worse_than_start+=1
print('runs',N,'uphill',up,'conv after uphill',conv_after_up,'worst',worst,'worse than start',worse_than_start,exc)
