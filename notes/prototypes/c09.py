import numpy as np, sys, warnings, collections
from collections import deque
from gen import *
from ref import *
from lbfgsb.cauchy import get_cauchy_point
from lbfgsb.subspacemin import subspace_minimization, get_freev
from lbfgsb.bfgsmats import LBFGSB_MATRICES, update_lbfgs_matrices
warnings.simplefilter('ignore')
N=int(sys.argv[1]); bad=collections.Counter(); worst=0; nfree=collections.Counter()
for seed in range(N):
    rng=np.random.default_rng(seed)
    n=int(rng.integers(1,11)); m=int(rng.integers(1,8)); npairs=int(rng.integers(0,m+1))
    lb,ub=rand_box(rng,n); x=rand_x0(rng,lb,ub,['interior','face','vertex'][seed%3])
    A=rand_spd(rng,n,10**rng.uniform(0,3))
    mats=LBFGSB_MATRICES(n); X=deque([rng.standard_normal(n)]); G=deque([A@X[0]])
    for _ in range(npairs):
        xn=rng.standard_normal(n); mats=update_lbfgs_matrices(xn,A@xn,X,G,m,mats,False)
    g=rng.standard_normal(n)*np.exp(rng.uniform(-2,2))
    if np.max(np.abs(np.clip(x-g,lb,ub)-x))==0: continue
    B=dense_from_mats(mats,n)
    xc,c=get_cauchy_point(x,g,lb,ub,mats,1,-1,None)
    fv,Z,Am=get_freev(xc,lb,ub,1)
    xbar=subspace_minimization(x,xc,fv,Z,Am,c,g,lb,ub,mats)
    F=np.where((xc!=lb)&(xc!=ub))[0]; nfree['none' if F.size==0 else ('all' if F.size==n else 'some')]+=1
    ref=xc.copy()
    if F.size:
        r=(g+B@(xc-x))[F]; dh=-np.linalg.solve(B[np.ix_(F,F)],r)
        al=1.0
        for i,di in zip(F,dh):
            if di>0 and np.isfinite(ub[i]): al=min(al,(ub[i]-xc[i])/di)
            if di<0 and np.isfinite(lb[i]): al=min(al,(lb[i]-xc[i])/di)
        ref[F]=xc[F]+al*dh
    err=np.max(np.abs(xbar-ref))/max(1,np.max(np.abs(ref)))
    worst=max(worst,err if err<1e-5 else 0)
    if err>1e-8: bad['xbar differs']+=1
    act=np.setdiff1d(np.arange(n),F)
    if not np.array_equal(xbar[act],xc[act]): bad['active moved']+=1
    mq=lambda p: g@(p-x)+0.5*(p-x)@B@(p-x)
    if mq(xbar)>mq(xc)+1e-10*max(1,abs(mq(xc))): bad['model increased']+=1
    if not g@(xbar-x)<0: bad['not descent']+=1
for k,v in bad.most_common(): print(v,k)
print('worst ok err',worst,dict(nfree))
