import numpy as np, sys, warnings, copy, collections, logging, io
from gen import *
from lbfgsb import minimize_lbfgsb, rosenbrock, rosenbrock_grad
warnings.simplefilter('ignore')
N=int(sys.argv[1]); bad=collections.Counter(); ok=collections.Counter()
def key(r): return (r.x.tobytes(),float(r.fun),r.jac.tobytes(),r.nfev,r.njev,r.nit,r.message,r.hess_inv.sk.tobytes(),r.hess_inv.yk.tobytes())
for seed in range(N):
    rng=np.random.default_rng(seed); n=int(rng.integers(1,7))
    if seed%2==0: f,g,_,_=make_qp(rng,n,10**rng.uniform(0,3)); lb,ub=rand_box(rng,n); x0=rand_x0(rng,lb,ub,'face')
    else: n=max(n,2); f,g=rosenbrock,rosenbrock_grad; lb=np.full(n,-2.);ub=np.full(n,2.); x0=rng.uniform(-1.5,1.5,n)
    bn=np.array([lb,ub]).T; kw=dict(fun=f,jac=g,maxiter=15,maxcor=int(rng.integers(1,6)))
    base=key(minimize_lbfgsb(x0=x0,bounds=bn,**kw))
    # identity update fn
    r=minimize_lbfgsb(x0=x0,bounds=bn,update_fun_def=lambda x,f0,fo,gr,X,G:(f0,fo,gr,G),**kw)
    if key(r)!=base: bad['identity update alters run']+=1
    else: ok['identity']+=1
    # iprint x logger
    for ip in [-1,0,1,7,99,100,101,1000]:
        for lg in [None,'log']:
            L=None
            if lg:
                L=logging.Logger('t%d'%seed); L.addHandler(logging.StreamHandler(io.StringIO())); L.setLevel(logging.INFO)
            try:
                r=minimize_lbfgsb(x0=x0,bounds=bn,iprint=ip,logger=L,**kw)
                if key(r)!=base: bad['iprint %d logger %s alters'%(ip,lg)]+=1
                else: ok['iprint']+=1
            except Exception as e: bad['iprint %d logger %s EXC %s %s'%(ip,lg,type(e).__name__,str(e)[:50])]+=1
    # frozen inputs
    x0f=x0.copy(); bnf=bn.copy(); x0f.flags.writeable=False; bnf.flags.writeable=False
    try:
        r=minimize_lbfgsb(x0=x0f,bounds=bnf,**kw)
        if key(r)!=base: bad['frozen alters']+=1
        elif not(np.array_equal(x0f,x0) and np.array_equal(bnf,bn)): bad['inputs changed']+=1
        else: ok['frozen']+=1
    except Exception as e: bad['frozen EXC %s'%str(e)[:50]]+=1
    # nested
    cnt=[0]
    def Fn(x):
        cnt[0]+=1
        if cnt[0]%3==1:
            q=minimize_lbfgsb(x0=x0,bounds=bn,**kw)
            if key(q)!=base: bad['nested inner differs']+=1
        return f(x)
    kw2=dict(kw); kw2['fun']=Fn
    r=minimize_lbfgsb(x0=x0,bounds=bn,**kw2)
    if key(r)!=base: bad['nested outer differs']+=1
    else: ok['nested']+=1
for k,v in bad.most_common(): print(v,k)
print(dict(ok))
