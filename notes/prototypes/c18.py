import numpy as np, sys, warnings, copy, collections
from gen import *
from lbfgsb import minimize_lbfgsb, rosenbrock, rosenbrock_grad, rastrigin, rastrigin_grad, styblinski_tang, styblinski_tang_grad, extract_hess_inv_diag
from scipy.optimize import LbfgsInvHessProduct
warnings.simplefilter('ignore')
N=int(sys.argv[1]); bad=collections.Counter(); st_n=0; skipchain=0; npd=0
def chain_ok(sk,yk,Xs,Gs):
    # find chain ending anywhere; dynamic search backwards
    K=len(Xs); m=sk.shape[0]
    if m==0: return True,False
    # candidates for last pair
    def rec(j,b):
        if j<0: return [b]
        for a in range(b-1,-1,-1):
            if np.array_equal(Xs[b]-Xs[a],sk[j]) and np.array_equal(Gs[b]-Gs[a],yk[j]):
                r=rec(j-1,a)
                if r is not None: return r+[b]
        return None
    for b in range(K-1,0,-1):
        r=rec(m-1,b)
        if r is not None:
            skipped=any(q-p>1 for p,q in zip(r,r[1:]))
            return True,skipped
    return False,False
for seed in range(N):
    rng=np.random.default_rng(seed); n=int(rng.integers(1,8)); k=seed%4; m=int(rng.integers(1,7))
    if k==0: f,g,_,_=make_qp(rng,n,10**rng.uniform(0,4))
    elif k==1: f,g=rosenbrock,rosenbrock_grad; n=max(n,2)
    elif k==2: f,g=rastrigin,rastrigin_grad
    else: f,g=styblinski_tang,styblinski_tang_grad
    lb,ub=rand_box(rng,n); x0=rand_x0(rng,lb,ub,'face'); s=float(10**rng.uniform(-2,2)) if seed%3==0 else None
    Xs=[np.clip(x0,lb,ub)]; states=[]
    def cb(xk,st): Xs.append(xk.copy()); states.append(copy.deepcopy(st)); return False
    kw=dict(fun=f,jac=g,bounds=np.array([lb,ub]).T,maxcor=m,maxiter=25,ftol=1e-14,gtol=1e-10,maxls=int(rng.choice([2,4,20])),callback=cb)
    if s: kw['gradient_scaler']=lambda *a: s
    r=minimize_lbfgsb(x0=x0,**kw)
    sc=s or 1.0
    for i,st in enumerate(states+[r]):
        st_n+=1
        Gs=[g(x)*sc for x in Xs[:(i+2 if i<len(states) else len(Xs))]]
        sk,yk=st.hess_inv.sk,st.hess_inv.yk
        if sk.shape[0]>m: bad['too many pairs']+=1
        ok,skp=chain_ok(sk,yk,Xs[:len(Gs)],Gs); skipchain+=skp
        if not ok: bad['no bit-exact chain']+=1
        if sk.shape[0] and not all(a@b>0 for a,b in zip(sk,yk)): bad['s.y<=0']+=1
        if sk.shape[0]:
            H=st.hess_inv.todense(); ev=np.linalg.eigvalsh((H+H.T)/2)
            if ev[0]<=0: npd+=1; 
            d=extract_hess_inv_diag(st.hess_inv)
            if np.max(np.abs(d-np.diag(H)))>1e-9*np.max(np.abs(H)): bad['diag mismatch']+=1
for k,v in bad.most_common(): print(v,k)
print('states',st_n,'chains with skipped iterates',skipchain,'non-PD dense (numerical)',npd)
