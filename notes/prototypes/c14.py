import sys, threading, numpy as np, types, random, time, warnings
warnings.simplefilter('ignore')
import lbfgsb
from lbfgsb import minimize_lbfgsb, rosenbrock, rosenbrock_grad
from gen import *
mon=sys.monitoring; TOOL=3
class Sched:
    def __init__(self,nthreads,seed,p_line):
        self.sem=[threading.Semaphore(0) for _ in range(nthreads)]
        self.alive=set(range(nthreads)); self.rng=random.Random(seed); self.p=p_line
        self.cur=None; self.trace=[]; self.tid=threading.local(); self.switches=0
    def start(self):
        self.cur=self.rng.choice(sorted(self.alive)); self.sem[self.cur].release()
    def enter(self,i):
        self.tid.i=i; self.sem[i].acquire()
    def yield_point(self,kind):
        i=getattr(self.tid,'i',None)
        if i is None or i!=self.cur: return
        nxt=self.rng.choice(sorted(self.alive))
        self.trace.append((i,kind,nxt))
        if nxt!=i:
            self.switches+=1
            self.cur=nxt; self.sem[nxt].release(); self.sem[i].acquire()
    def finish(self):
        i=self.tid.i; self.alive.discard(i); self.tid.i=None
        if self.alive:
            nxt=self.rng.choice(sorted(self.alive)); self.cur=nxt; self.sem[nxt].release()
def codes_of(mod):
    out=[]
    def walk(co):
        out.append(co)
        for c in co.co_consts:
            if isinstance(c,types.CodeType): walk(c)
    for v in vars(mod).values():
        if isinstance(v,types.FunctionType) and v.__module__==mod.__name__: walk(v.__code__)
        if isinstance(v,type) and v.__module__==mod.__name__:
            for w in vars(v).values():
                if isinstance(w,types.FunctionType): walk(w.__code__)
    return out
def problems(seed):
    rng=np.random.default_rng(seed); P=[]
    for j in range(2):
        n=int(rng.integers(2,5)); f,g,_,_=make_qp(rng,n,30.); lb,ub=rand_box(rng,n); x0=rand_x0(rng,lb,ub,'face')
        P.append(dict(x0=x0,fun=f,jac=g,bounds=np.array([lb,ub]).T,maxiter=6,maxcor=3))
    return P
def key(r): return (r.x.tobytes(),float(r.fun),r.jac.tobytes(),r.nfev,r.njev,r.nit,r.message,r.hess_inv.sk.tobytes(),r.hess_inv.yk.tobytes())
P=problems(1); base=[key(minimize_lbfgsb(**p)) for p in P]
mon.use_tool_id(TOOL,'sched')
allcodes=[c for m in (lbfgsb.main,lbfgsb.cauchy,lbfgsb.subspacemin,lbfgsb.linesearch,lbfgsb.bfgsmats,lbfgsb.scalar_function,lbfgsb.base) for c in codes_of(m)]
print('code objects',len(allcodes))
S=None
def on_line(code,line):
    if S is not None and S.rng.random()<S.p: S.yield_point(('L',code.co_name,line))
mon.register_callback(TOOL,mon.events.LINE,on_line)
for c in allcodes: mon.set_local_events(TOOL,c,mon.events.LINE)
t0=time.time(); tot=0; distinct=set()
for s in range(30):
    S=Sched(2,s,0.02); res=[None,None]
    def work(i):
        S.enter(i)
        try: res[i]=key(minimize_lbfgsb(**P[i]))
        finally: S.finish()
    th=[threading.Thread(target=work,args=(i,)) for i in range(2)]
    for t in th: t.start()
    S.start()
    for t in th: t.join(30)
    assert not any(t.is_alive() for t in th)
    assert res==base,(s,)
    tot+=S.switches; distinct.add(tuple((a,c) for a,b,c in S.trace if a!=c))
S=None
print('30 schedules ok, switches',tot,'distinct schedules',len(distinct),'time',time.time()-t0)
