import numpy as np, sys, warnings, collections, copy
from gen import *
from lbfgsb import minimize_lbfgsb, rosenbrock, rosenbrock_grad, get_gradient_projection_unit_scaling
warnings.simplefilter('ignore')
N=int(sys.argv[1]); bad=collections.Counter()
for seed in range(N):
    rng=np.random.default_rng(seed)
    n=int(rng.integers(1,7)); k=seed%2
    if k==0: f,g,_,_=make_qp(rng,n,10**rng.uniform(0,3))
    else: f,g=rosenbrock,rosenbrock_grad; n=max(n,2)
    lb,ub=rand_box(rng,n); x0=rand_x0(rng,lb,ub,'face'); m=int(rng.integers(1,6)); bn=np.array([lb,ub]).T
    s=float(10**rng.uniform(-3,3))
    LA=[];LB=[]; sc=[]
    def FA(x): LA.append(x.copy()); return f(x)
    def FB(x): LB.append(x.copy()); return f(x)*s
    def scaler(x,gr,l,u): sc.append((x.copy(),gr.copy(),l.copy(),u.copy())); return s
    if seed%5==4:
        g0=g(np.clip(x0,lb,ub)); 
        if np.max(np.abs(np.clip(x0-g0,lb,ub)-x0))==0: continue
        s=get_gradient_projection_unit_scaling(np.clip(x0,lb,ub),g0,lb,ub); scaler=lambda x,gr,l,u:(sc.append((x.copy(),gr.copy(),l.copy(),u.copy())),get_gradient_projection_unit_scaling(x,gr,l,u))[1]
    kw=dict(bounds=bn,maxcor=m,ftol=1e-9,gtol=1e-7,maxiter=int(rng.integers(1,30)),maxls=int(rng.choice([3,20])))
    SA=[];SB=[]
    try:
        ra=minimize_lbfgsb(x0=x0,fun=FA,jac=g,gradient_scaler=scaler,callback=lambda x,st:SA.append(copy.deepcopy(st)) and False,**kw)
        rb=minimize_lbfgsb(x0=x0,fun=FB,jac=lambda x:g(x)*s,callback=lambda x,st:SB.append(copy.deepcopy(st)) and False,**kw)
    except Exception as e: bad['EXC '+str(e)[:50]]+=1; continue
    if len(sc)!=1: bad['scaler calls %d'%len(sc)]+=1
    else:
        if not (np.array_equal(sc[0][0],np.clip(x0,lb,ub)) and np.array_equal(sc[0][1],g(np.clip(x0,lb,ub))) and np.array_equal(sc[0][2],lb)): bad['scaler args']+=1
    if len(LA)!=len(LB) or any(not np.array_equal(a,b) for a,b in zip(LA,LB)): bad['eval points differ']+=1
    for a in ['x','fun','jac','nfev','njev','nit','message']:
        if not np.array_equal(getattr(ra,a),getattr(rb,a)): bad['result '+a]+=1
    if not (np.array_equal(ra.hess_inv.sk,rb.hess_inv.sk) and np.array_equal(ra.hess_inv.yk,rb.hess_inv.yk)): bad['pairs']+=1
for k,v in bad.most_common(): print(v,k)
print('done')
