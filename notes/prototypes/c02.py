import numpy as np, sys, warnings, traceback, collections
from gen import *
from lbfgsb import minimize_lbfgsb
warnings.simplefilter('ignore')
N=int(sys.argv[1]); jacmode=sys.argv[2] if len(sys.argv)>2 else 'exact'
viol=collections.Counter(); runs=0; exc=collections.Counter()
for seed in range(N):
    rng=np.random.default_rng(seed)
    n=int(rng.integers(1,9)); cond=10**rng.uniform(0,3)
    f,g,A,b=make_qp(rng,n,cond)
    lb,ub=rand_box(rng,n, kind=None)
    x0=rand_x0(rng,lb,ub,['interior','face','vertex'][seed%3])
    m=int(rng.integers(1,11))
    where=[]
    def F(x):
        if (x<lb).any() or (x>ub).any():
            st=traceback.extract_stack()
            where.append(('fun',[ (fr.name,fr.lineno) for fr in st if 'lbfgsb/' in fr.filename and 'scipy' not in fr.filename][-3:], float(np.max(np.maximum(lb-x,x-ub)))))
        return f(x)
    def G(x):
        if (x<lb).any() or (x>ub).any():
            st=traceback.extract_stack()
            where.append(('jac',[ (fr.name,fr.lineno) for fr in st if 'lbfgsb/' in fr.filename and 'scipy' not in fr.filename][-3:], float(np.max(np.maximum(lb-x,x-ub)))))
        return g(x)
    def cb(xk,st):
        if (xk<lb).any() or (xk>ub).any(): where.append(('cb',[],float(np.max(np.maximum(lb-xk,xk-ub)))))
        return False
    runs+=1
    try:
        r=minimize_lbfgsb(x0=x0,fun=F,jac=(G if jacmode=='exact' else (None if jacmode=='None' else jacmode)),bounds=np.array([lb,ub]).T,maxcor=m,ftol=1e-12,gtol=1e-8,maxiter=200,maxfun=2000,callback=cb)
        if (r.x<lb).any() or (r.x>ub).any(): where.append(('res',[],0))
    except Exception as e:
        exc[type(e).__name__+':'+str(e)[:60]]+=1
    if where:
        viol[str(where[0][:2])]+=1
        if sum(viol.values())<4: print(seed,where[0])
print('runs',runs,'violating',sum(viol.values()));
for k,v in viol.most_common(): print(v,k)
print(exc)
