"""Fresh-process baseline: run one fault-free minimisation in a brand-new interpreter and
print a digest of every numeric field of the result (used by C14 and C20).

usage: python -m vlib.fresh   (JSON list of {"problem":..., "cfg":..., "restart": optional} on stdin)
prints a JSON list of hex digests.
"""

import hashlib
import json
import sys

from . import common


def digest_state(snap):
    from . import probes

    return hashlib.sha256(probes.state_bytes(snap)).hexdigest()


def run_one(item):
    from . import gen, probes

    P = gen.make_problem(item["problem"])
    tr = probes.run_min(P, item["cfg"])
    if tr.exc is not None:
        return "raised:" + type(tr.exc).__name__
    if item.get("restart"):
        r = item["restart"]
        tr2 = probes.run_min(P, dict(item["cfg"], **r), checkpoint=tr.result, x0=tr.result.x.copy())
        if tr2.exc is not None:
            return "raised:" + type(tr2.exc).__name__
        return digest_state(tr2.snap)
    return digest_state(tr.snap)


def main():
    common.bind_repo()
    items = json.load(sys.stdin)
    json.dump([run_one(it) for it in items], sys.stdout)


def fresh_digests(items, timeout=600):
    """Called from a worker: spawn the fresh interpreter."""
    import os
    import subprocess

    env = dict(os.environ)
    env["PYTHONPATH"] = common.REPO + os.pathsep + common.VERIF_DIR
    p = subprocess.run([sys.executable, "-m", "vlib.fresh"], input=json.dumps(items), capture_output=True, text=True,
                       env=env, cwd=common.VERIF_DIR, timeout=timeout)
    if p.returncode != 0:
        raise RuntimeError("fresh interpreter failed: " + p.stderr[-400:])
    return json.loads(p.stdout)


if __name__ == "__main__":
    main()
