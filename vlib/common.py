"""Shared plumbing: locating the tree under test, exact (de)serialisation, outcomes."""

from __future__ import annotations

import hashlib
import json
import os
import sys

VERIF_DIR = os.path.dirname(os.path.dirname(os.path.abspath(__file__)))
REPO = os.path.realpath(os.environ.get("VERIF_REPO", "/repo"))
GUARD = "LBFGSB_VERIF"


def bind_repo() -> str:
    """Make ``import lbfgsb`` resolve to the working tree under test and prove it."""
    if REPO not in sys.path[:1]:
        sys.path.insert(0, REPO)
    os.environ.setdefault(GUARD, "1")
    import lbfgsb  # noqa

    path = os.path.realpath(lbfgsb.__file__)
    if not path.startswith(REPO + os.sep):
        raise RuntimeError(f"lbfgsb imported from {path}, expected under {REPO}")
    return path


# ---------------------------------------------------------------------------
# exact serialisation of floats / arrays (hex floats => bit-exact replays)
# ---------------------------------------------------------------------------
def enc(obj):
    import numpy as np

    if isinstance(obj, np.ndarray):
        if obj.dtype.kind == "c":
            return {"__cnd__": [[float(v.real).hex(), float(v.imag).hex()] for v in obj.ravel()],
                    "shape": list(obj.shape)}
        if obj.dtype.kind == "f":
            return {"__nd__": [float(v).hex() for v in obj.ravel()], "shape": list(obj.shape)}
        return {"__ndi__": [int(v) for v in obj.ravel()], "shape": list(obj.shape)}
    if isinstance(obj, (np.floating,)):
        return {"__f__": float(obj).hex()}
    if isinstance(obj, float):
        return {"__f__": obj.hex()}
    if isinstance(obj, (np.integer,)):
        return int(obj)
    if isinstance(obj, (np.bool_,)):
        return bool(obj)
    if isinstance(obj, dict):
        return {str(k): enc(v) for k, v in obj.items()}
    if isinstance(obj, (list, tuple)):
        return [enc(v) for v in obj]
    return obj


def dec(obj):
    import numpy as np

    if isinstance(obj, dict):
        if "__nd__" in obj:
            return np.array([float.fromhex(v) for v in obj["__nd__"]], dtype=float).reshape(obj["shape"])
        if "__cnd__" in obj:
            return np.array(
                [complex(float.fromhex(a), float.fromhex(b)) for a, b in obj["__cnd__"]]
            ).reshape(obj["shape"])
        if "__ndi__" in obj:
            return np.array(obj["__ndi__"], dtype=int).reshape(obj["shape"])
        if "__f__" in obj:
            return float.fromhex(obj["__f__"])
        return {k: dec(v) for k, v in obj.items()}
    if isinstance(obj, list):
        return [dec(v) for v in obj]
    return obj


def human(obj, depth=0):
    """Readable rendering for evidence samples (floats as repr, arrays as lists)."""
    import numpy as np

    if isinstance(obj, np.ndarray):
        if obj.size > 24:
            return {"shape": list(obj.shape), "head": [human(v) for v in obj.ravel()[:8]]}
        return [human(v) for v in obj.tolist()]
    if isinstance(obj, (np.floating, float)):
        f = float(obj)
        if f != f:
            return "nan"
        if f in (float("inf"), float("-inf")):
            return "inf" if f > 0 else "-inf"
        return f
    if isinstance(obj, complex):
        return [obj.real, obj.imag]
    if isinstance(obj, (np.integer,)):
        return int(obj)
    if isinstance(obj, (np.bool_,)):
        return bool(obj)
    if isinstance(obj, dict):
        return {str(k): human(v, depth + 1) for k, v in obj.items()}
    if isinstance(obj, (list, tuple)):
        return [human(v, depth + 1) for v in obj]
    if isinstance(obj, (str, int, bool)) or obj is None:
        return obj
    return repr(obj)


def digest(*parts) -> str:
    h = hashlib.sha1()
    for p in parts:
        if hasattr(p, "tobytes"):
            h.update(p.tobytes())
        else:
            h.update(repr(p).encode())
    return h.hexdigest()[:16]


def subseed(*parts) -> int:
    """Deterministic 63-bit seed from arbitrary hashable parts (independent of PYTHONHASHSEED)."""
    h = hashlib.sha256(json.dumps(parts, sort_keys=True, default=str).encode()).digest()
    return int.from_bytes(h[:8], "big") >> 1


# ---------------------------------------------------------------------------
# outcome of one case
# ---------------------------------------------------------------------------
class Outcome:
    """What the monitors concluded from one case."""

    __slots__ = ("violations", "nontrivial", "key", "keys", "counters", "maxima", "skipped", "sample", "notes")

    def __init__(self):
        self.violations = []  # list of dict(mech=str, detail=str, tags=dict)
        self.nontrivial = False
        self.key = None
        self.keys = None  # optional: several distinct non-trivial sub-cases inside one case
        self.counters = {}
        self.maxima = {}
        self.skipped = None
        self.sample = None
        self.notes = []

    def violate(self, mech: str, detail: str, **tags):
        if len(self.violations) < 8:
            self.violations.append({"mech": mech, "detail": detail[:600], "tags": human(tags)})

    def count(self, name: str, k: int = 1):
        self.counters[name] = self.counters.get(name, 0) + int(k)

    def maxi(self, name: str, v):
        try:
            v = float(v)
        except Exception:
            return
        if v != v:
            return
        if name not in self.maxima or v > self.maxima[name]:
            self.maxima[name] = v

    def to_json(self):
        return {
            "violations": self.violations,
            "nontrivial": bool(self.nontrivial),
            "key": self.key,
            "counters": self.counters,
            "maxima": self.maxima,
            "skipped": self.skipped,
            "sample": self.sample,
        }
