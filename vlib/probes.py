"""Probes: recorders around user callables, interception of inner routines, state
snapshots, write barriers.  Nothing here edits the repository: every observation
point is a user callable or a module-level name that ``lbfgsb.main`` resolves at call
time."""

from __future__ import annotations

import copy
import inspect
import logging
import sys
from contextlib import contextmanager

import numpy as np

from . import gen


# ---------------------------------------------------------------------------
# snapshots
# ---------------------------------------------------------------------------
STATE_FIELDS = ("x", "fun", "jac", "nfev", "njev", "nit", "message", "status", "success")


def snap_state(st):
    """Deep, array-wise copy of an OptimizeResult produced by the solver."""
    out = {}
    for k in STATE_FIELDS:
        v = st.get(k) if hasattr(st, "get") else getattr(st, k, None)
        if isinstance(v, np.ndarray):
            v = v.copy()
        elif isinstance(v, (np.floating,)):
            v = float(v)
        out[k] = v
    hi = st.get("hess_inv") if hasattr(st, "get") else None
    if hi is not None and hasattr(hi, "sk"):
        out["sk"] = np.array(hi.sk, dtype=float, copy=True)
        out["yk"] = np.array(hi.yk, dtype=float, copy=True)
    else:
        out["sk"] = None
        out["yk"] = None
    return out


def same(a, b):
    """Bit-level equality for floats/arrays/scalars (NaN equals NaN, -0.0 != 0.0 ignored)."""
    if a is None or b is None:
        return a is None and b is None
    if isinstance(a, np.ndarray) or isinstance(b, np.ndarray):
        a = np.asarray(a)
        b = np.asarray(b)
        return a.shape == b.shape and bool(np.array_equal(a, b, equal_nan=True))
    if isinstance(a, (float, np.floating)) or isinstance(b, (float, np.floating)):
        try:
            fa, fb = float(a), float(b)
        except Exception:
            return a == b
        return fa == fb or (fa != fa and fb != fb)
    return a == b


def diff_states(a, b, fields=None):
    """Names of fields that differ between two snapshots."""
    bad = []
    for k in fields or (STATE_FIELDS + ("sk", "yk")):
        if not same(a.get(k), b.get(k)):
            bad.append(k)
    return bad


def human_short(v):
    if isinstance(v, np.ndarray):
        return np.array2string(v.ravel()[:6], precision=17, separator=",")
    return repr(v)


def state_bytes(s):
    parts = []
    for k in STATE_FIELDS + ("sk", "yk"):
        v = s.get(k)
        if isinstance(v, np.ndarray):
            parts.append(v.tobytes())
        else:
            parts.append(repr(v).encode())
    return b"|".join(parts)


# ---------------------------------------------------------------------------
# user-callable recorder
# ---------------------------------------------------------------------------
class SimulatedCrash(BaseException):
    """Process death as seen from inside the optimiser (not an Exception on purpose)."""


class InjectedFault(Exception):
    pass


class CapturingLogger:
    def __init__(self, name="verif-capture"):
        self.records = []
        self.logger = logging.Logger(name, level=logging.DEBUG)
        self.logger.propagate = False
        h = logging.Handler()
        h.emit = lambda rec: self.records.append(rec.getMessage())
        self.logger.addHandler(h)


class Trace:
    """Everything one run of minimize_lbfgsb showed at its boundary."""

    def __init__(self):
        self.evals = []  # (kind, x copy, value copy)
        self.nf = 0
        self.ng = 0
        self.cb = []  # dict(ref, snap, xk, at_eval, ret, nf, ng)
        self.ufd = []  # dict(...)
        self.scaler_calls = []
        self.ftarget_calls = 0
        self.gtol_calls = 0
        self.result = None
        self.snap = None
        self.exc = None
        self.kwargs_summary = None
        self.log_records = None
        self.input_style = 0


def _fun_via_args(x, ctx):
    """ONE callable for every run of the process: what it computes is decided by the context the caller passes through `args`."""
    return ctx["fun"](x)


def _jac_via_args(x, ctx):
    return ctx["jac"](x)


def build_kwargs(problem, cfg, trace, hooks=None, checkpoint=None, x0=None):
    """Translate a JSON-able configuration into minimize_lbfgsb keyword arguments whose
    callables record into ``trace``.

    cfg keys: jac ('callable'|None|'2-point'|'3-point'|'cs'), maxcor, maxls, maxiter,
    maxfun, ftol, gtol, gtol_callable, ftarget, ftarget_callable, eps,
    finite_diff_rel_step, iprint, logger (bool), scaler (None|float|'packaged'),
    cb (None|'never'|int k => stop at the k-th call), explicit_scale (float: objective
    and gradient multiplied by it inside the closures), ufd (None|'identity'), x0_dtype (numpy dtype name of the start vector)
    hooks: dict of callables: on_f(i, x), on_g(i, x), on_cb(i, xk, state) -> may raise /
    act; 'ufd' -> the update function to use.
    """
    hooks = hooks or {}
    P = problem
    sc = float(cfg.get("explicit_scale", 1.0))
    kw = {}

    hostile = bool(cfg.get("hostile_user"))
    gbuf = {}

    def fun(x, *a):
        i = trace.nf
        trace.nf += 1
        if "on_f" in hooks:
            hooks["on_f"](i, x)
        xr = np.array(x, copy=True)
        if np.iscomplexobj(xr):
            v = _complex_eval(P, xr)
        else:
            v = P.f(xr)
        if sc != 1.0:
            v = v * sc
        if cfg.get("fp_sensitive") and not np.iscomplexobj(xr):
            # an objective that depends on NumPy's floating-point error state (fast formula, fallback on FloatingPointError): at its first
            # call it sets the state it needs, as lazily initialised user code does; whenever it later finds another state than the one
            # it left, it takes its other branch - modelled as a value lower by 1000 (1 + |f|)
            if not gbuf.get("fp_init"):
                gbuf["fp_init"] = True
                np.seterr(over="warn", invalid="warn", under="warn")
            else:
                st_ = np.geterr()
                if (st_["over"], st_["invalid"], st_["under"]) != ("warn", "warn", "warn"):
                    trace.fp_state_changes = getattr(trace, "fp_state_changes", 0) + 1
                    v = v - 1000.0 * (1.0 + abs(v))
        trace.evals.append(("f", xr, v))
        if cfg.get("reuse_value_buffer") and not np.iscomplexobj(xr):
            # a user whose objective writes its value into one preallocated one-element array and returns that array
            if "vbuf" not in gbuf:
                gbuf["vbuf"] = np.empty(1)
            gbuf["vbuf"][0] = v
            return gbuf["vbuf"]
        if hostile and not np.iscomplexobj(x):
            try:
                x[:] = np.nan  # the user overwrites the array it was handed
            except (ValueError, TypeError):
                pass
            try:
                kw["x0"][:] = np.nan  # ... and recycles its own start array (it belongs to the user) as scratch space
            except (ValueError, TypeError, KeyError):
                pass
        return v

    def jac(x, *a):
        i = trace.ng
        trace.ng += 1
        if "on_g" in hooks:
            hooks["on_g"](i, x)
        xr = np.array(x, copy=True)
        v = P.g(xr)
        if sc != 1.0:
            v = v * sc
        if cfg.get("reuse_value_buffer") and "vbuf" in gbuf:
            # the user's gradient code evaluates the objective at neighbouring points through the same object: the one-element array the
            # objective returns now holds the value at another point
            gbuf["vbuf"][0] = float(P.f(xr + 1e-3)) if np.all(np.isfinite(xr)) else np.nan
        if cfg.get("grad_dtype"):
            v = v.astype(cfg["grad_dtype"])  # the user's gradient code works in (returns) another floating-point precision
        trace.evals.append(("g", xr, v.copy()))
        if cfg.get("reuse_grad_buffer") and not hostile:
            # a user who writes every gradient into one preallocated work array and returns that array each time
            if "buf" not in gbuf:
                gbuf["buf"] = np.empty_like(v)
            gbuf["buf"][:] = v
            return gbuf["buf"]
        if hostile:
            # a user who writes every gradient into one preallocated work array, and scribbles on the argument it was given
            if "buf" not in gbuf:
                gbuf["buf"] = np.empty_like(v)
            gbuf["buf"][:] = v
            try:
                x[:] = np.nan
            except (ValueError, TypeError):
                pass
            return gbuf["buf"]
        return v

    kw["fun"] = fun
    mode = cfg.get("jac", "callable")
    kw["jac"] = jac if mode == "callable" else mode
    if x0 is not None and cfg.get("x0_same_object"):
        kw["x0"] = x0  # the caller's own array (e.g. previous_result.x), not a copy
    else:
        kw["x0"] = np.array(P.x0 if x0 is None else x0, dtype=float, copy=True)
        if cfg.get("x0_dtype"):
            lo = kw["x0"].astype(cfg["x0_dtype"])  # a start vector in single / half precision, rounded towards the inside of the box
            inf = np.array(np.inf, dtype=lo.dtype)
            lo = np.where(lo < P.lb, np.nextafter(lo, inf), lo)
            lo = np.where(lo > P.ub, np.nextafter(lo, -inf), lo)
            kw["x0"] = lo.astype(cfg["x0_dtype"])
    kw["bounds"] = hooks["bounds_obj"] if "bounds_obj" in hooks else P.bounds.copy()
    # Value-preserving variety in how the caller writes its inputs (chosen from the problem's seed, so that every run of one problem
    # uses the same style): the box as a list of (low, high) tuples with None for "no bound", the start as a non-contiguous view of a
    # larger work array, the start in extended precision, the box as a Fortran-ordered array, or (style 1) one objective / gradient
    # function shared by every run of the process with the problem's data passed through `args`. None of this changes a value.
    style = cfg.get("input_style", int(P.spec.get("seed", 0)) % 7 if isinstance(P.spec.get("seed", 0), (int, np.integer)) else 0)
    if cfg.get("plain_inputs") or "bounds_obj" in hooks or cfg.get("x0_same_object") or cfg.get("x0_dtype") or checkpoint is not None:
        style = 0
    if style == 3:
        kw["bounds"] = [(None if not np.isfinite(a) else float(a), None if not np.isfinite(b) else float(b)) for a, b in P.bounds]
    elif style == 4:
        buf = np.full(2 * kw["x0"].size, 777.0)
        buf[::2] = kw["x0"]
        kw["x0"] = buf[::2]
    elif style == 5:
        kw["x0"] = kw["x0"].astype(np.longdouble)
    elif style == 6:
        kw["bounds"] = np.asfortranarray(kw["bounds"])
    trace.input_style = style
    if "fd_step_objects" in hooks:
        # the caller's own step arrays, the same objects in every call of a study
        kw["eps"] = hooks["fd_step_objects"]["eps"]
        if hooks["fd_step_objects"].get("rel") is not None:
            kw["finite_diff_rel_step"] = hooks["fd_step_objects"]["rel"]
    elif cfg.get("fd_steps_as_strided_arrays"):
        # the differencing steps given per variable, as non-contiguous views of a larger work array
        n_ = int(np.size(kw["x0"]))
        e_ = np.full(2 * n_, float(cfg.get("eps") or 1e-8))
        kw["eps"] = e_[::2]
        if cfg.get("finite_diff_rel_step") is not None:
            r_ = np.full(2 * n_, float(cfg["finite_diff_rel_step"]))
            kw["finite_diff_rel_step"] = r_[::2]
    for k in ("maxcor", "maxls", "maxiter", "maxfun", "ftol", "eps", "finite_diff_rel_step", "iprint",
              "ftol_linesearch", "gtol_linesearch", "xtol_linesearch", "eps_SY", "max_steplength", "is_check_factorization"):
        if k in cfg and cfg[k] is not None and k not in kw:
            kw[k] = cfg[k]
    if "gtol_obj" in hooks:
        kw["gtol"] = hooks["gtol_obj"]
    elif "gtol" in cfg:
        if cfg.get("gtol_callable"):
            gv = cfg["gtol"]

            def gtol_fn():
                trace.gtol_calls += 1
                if "on_gtol" in hooks:
                    hooks["on_gtol"](trace.gtol_calls - 1)
                return gv

            kw["gtol"] = gtol_fn
        else:
            kw["gtol"] = cfg["gtol"]
    if "ftarget_obj" in hooks:
        kw["ftarget"] = hooks["ftarget_obj"]
    elif cfg.get("ftarget") is not None:
        if cfg.get("ftarget_callable"):
            tv = cfg["ftarget"]

            def ftarget_fn():
                trace.ftarget_calls += 1
                if "on_ftarget" in hooks:
                    hooks["on_ftarget"](trace.ftarget_calls - 1)
                return tv

            kw["ftarget"] = ftarget_fn
        else:
            kw["ftarget"] = cfg["ftarget"]
    if cfg.get("logger"):
        cl = CapturingLogger()
        if cfg.get("logger") in ("WARNING", "INFO", "ERROR"):
            cl.logger.setLevel(getattr(logging, cfg["logger"]))  # a logger the user never configured below WARNING, or set to INFO
        trace.log_records = cl.records
        kw["logger"] = cl.logger
    s = cfg.get("scaler")
    if s is not None:

        def scaler(x, grad, lbv, ubv):
            trace.scaler_calls.append((np.array(x, copy=True), np.array(grad, copy=True),
                                       np.array(lbv, copy=True), np.array(ubv, copy=True)))
            if "on_scaler" in hooks:
                hooks["on_scaler"](len(trace.scaler_calls) - 1)
            if cfg.get("scaler_probe") and "buf" in gbuf:
                # a scaler that probes the curvature before it answers: the user's gradient code runs again (at another point) and
                # overwrites its one preallocated array (cfg reuse_grad_buffer); not a request of the solver, hence not logged
                olde_ = np.seterr(all="ignore")
                gbuf["buf"][:] = np.asarray(P.g(np.array(x, dtype=float) + 0.1), dtype=gbuf["buf"].dtype) * sc
                np.seterr(**olde_)
            if s == "packaged":
                from lbfgsb import get_gradient_projection_unit_scaling as pk

                return pk(x, grad, lbv, ubv)
            return float(s)

        kw["gradient_scaler"] = scaler
    cbm = cfg.get("cb")
    if cbm is not None:

        def callback(xk, state):
            i = len(trace.cb)
            rec = dict(ref=state, snap=snap_state(state), xk=np.array(xk, copy=True), xk_ref=xk,
                       at_eval=len(trace.evals), nf=trace.nf, ng=trace.ng, ret=False)
            trace.cb.append(rec)
            if "on_cb" in hooks:
                r = hooks["on_cb"](i, xk, state)
                if r:
                    rec["ret"] = True
                    return True
            if cbm != "never" and isinstance(cbm, int) and i + 1 >= cbm:
                rec["ret"] = True
                return True
            if hostile:
                try:
                    xk[:] = np.nan  # the user recycles the iterate array it was handed
                except (ValueError, TypeError):
                    pass
                for fld in ("x", "jac"):
                    try:
                        getattr(state, fld)[:] = np.nan  # ... and the arrays of the state it was handed (they are the user's to keep or to overwrite)
                    except (ValueError, TypeError, AttributeError):
                        pass
            # "do not stop", as users write it: the literal False, a NumPy boolean from a comparison, 0, or nothing at all
            return (False, np.False_, 0, None, 0.0)[i % 5] if cfg.get("cb_falsy_variants", True) else False

        kw["callback"] = callback
    u = cfg.get("ufd")
    if u == "identity":

        def ufd(x, f0, f0_old, grad, X, G):
            trace.ufd.append(dict(nX=len(X), nG=len(G)))
            if "on_ufd" in hooks:
                hooks["on_ufd"](len(trace.ufd) - 1)
            return f0, f0_old, grad, G

        kw["update_fun_def"] = ufd
    elif "ufd" in hooks:
        kw["update_fun_def"] = hooks["ufd"]
    if checkpoint is not None:
        kw["checkpoint"] = checkpoint
    if cfg.get("via_args") or (trace.input_style == 1 and cfg.get("via_args") is not False):
        # the user's code base has one objective / gradient function for all its problems; the data of the problem at hand travel in `args`
        ctx = {"fun": kw["fun"], "jac": jac}
        kw["fun"] = _fun_via_args
        if callable(kw["jac"]):
            kw["jac"] = _jac_via_args
        kw["args"] = (ctx,)
    return kw


def _complex_eval(P, x):
    """Objective on a complex-step stencil point (only analytic families are used with 'cs')."""
    return P.meta["cf"](x) if "cf" in P.meta else P.f(x)


def run_min(problem, cfg, hooks=None, checkpoint=None, x0=None, catch=(Exception,)):
    """Run the real minimiser under the recorder; never lets an ordinary exception
    escape (it is part of the observation)."""
    from lbfgsb import minimize_lbfgsb

    tr = Trace()
    kw = build_kwargs(problem, cfg, tr, hooks, checkpoint, x0)
    old = np.seterr(all="ignore")
    try:
        tr.result = minimize_lbfgsb(**kw)
        tr.snap = snap_state(tr.result)
    except catch as e:  # noqa
        tr.exc = e
    finally:
        np.seterr(**old)
    return tr


# ---------------------------------------------------------------------------
# interception of inner routines
# ---------------------------------------------------------------------------
def deep(obj):
    try:
        return copy.deepcopy(obj)
    except Exception:
        return obj


def perturbed_checkpoint(st, rng, ulps=2):
    """A copy of a kept state whose correction pairs are multiplied entry-wise by (1 + k*eps), |k| <= ulps: the same
    history up to rounding (what a restart rebuilds from differences/cumulative sums is only ever that accurate)."""
    from scipy.optimize import LbfgsInvHessProduct

    ck = copy.deepcopy(st)
    sk = np.array(ck.hess_inv.sk, dtype=float)
    yk = np.array(ck.hess_inv.yk, dtype=float)
    e = np.finfo(float).eps
    sk = sk * (1.0 + e * rng.integers(-ulps, ulps + 1, sk.shape))
    yk = yk * (1.0 + e * rng.integers(-ulps, ulps + 1, yk.shape))
    # the restart rebuilds the stored points as x - sum(s) and the stored gradients as jac - sum(y) and differences them again: each
    # entry of a pair is only known to a few ulp of the *points* (gradients) it is the difference of. For a step at the resolution of x
    # (objectives in units of 1e-13 whose first, steepest-descent step has length |g|) that is a relative error of 1e-4 and more
    if sk.size:
        try:
            ax = np.abs(np.asarray(st.x, dtype=float)) + np.sum(np.abs(sk), axis=0)
            ag = np.abs(np.asarray(st.jac, dtype=float)) + np.sum(np.abs(yk), axis=0)
            if ax.shape == sk.shape[1:] and ag.shape == yk.shape[1:] and np.all(np.isfinite(ax)) and np.all(np.isfinite(ag)):
                sk = sk + e * rng.integers(-ulps, ulps + 1, sk.shape) * ax
                yk = yk + e * rng.integers(-ulps, ulps + 1, yk.shape) * ag
        except (TypeError, ValueError, AttributeError):
            pass
    ck.hess_inv = LbfgsInvHessProduct(sk, yk)
    return ck


def grazes_bound(x, lb, ub, ulps=64):
    """True when a coordinate of x is within a few ulp of a finite bound without being on it (x + 1.0*(bound - x) need not
    round to the bound): the next Cauchy / subspace / maximum-step decisions for that coordinate are taken within rounding
    distance of their thresholds."""
    x, lb, ub = (np.asarray(a, dtype=float) for a in (x, lb, ub))
    e = np.finfo(float).eps
    for b in (lb, ub):
        fin = np.isfinite(b)
        gap = np.abs(np.where(fin, x - np.where(fin, b, 0.0), np.inf))
        if np.any((gap > 0) & (gap <= ulps * e * np.maximum(1.0, np.abs(np.where(fin, b, 0.0))))):
            return True
    return False


def rounding_sensitive(restart, st, ref_x, tol, seed=0, trials=4):
    """Is the iterate produced by `restart(checkpoint) -> Trace` discontinuous at this state? The restart is repeated from
    rounding-level perturbations of the state's pairs; when its own result moves by more than `tol` (relative) a discrete
    decision (active set, maximum step, acceptance of a pair) sits within rounding distance of its threshold, and two
    correct computations of the same step may differ by more than any tolerance: the comparison is not judged."""
    rng = np.random.default_rng(seed)
    ref_x = np.asarray(ref_x, dtype=float)
    for _ in range(trials):
        t = restart(perturbed_checkpoint(st, rng))
        if t.exc is not None:
            return True
        x = np.asarray(t.snap["x"], dtype=float)
        if x.shape != ref_x.shape or not (float(np.max(np.abs(x - ref_x))) / max(1.0, float(np.max(np.abs(ref_x)))) <= tol):
            return True
    return False


class Intercept:
    """Rebind ``module.name`` to a recording wrapper for the duration of a ``with``.

    events: list of dict(name, args (by parameter name, deep copies taken *before* the
    call), ret (deep copy), frame (selected caller locals, deep copies) )
    """

    def __init__(self, module, names, frame_vars=(), keep_args=True, on_event=None, copy_ret=True, on_call=None, copy_args=True):
        self.module = module
        self.names = [n for n in names]
        self.frame_vars = tuple(frame_vars)
        self.keep_args = keep_args
        self.on_event = on_event
        self.on_call = on_call
        self.copy_args = copy_args
        self.copy_ret = copy_ret
        self.events = []
        self.calls = {n: 0 for n in self.names}
        self.missing = []
        self._orig = {}

    def __enter__(self):
        for name in self.names:
            orig = getattr(self.module, name, None)
            if orig is None:
                self.missing.append(name)
                continue
            self._orig[name] = orig
            setattr(self.module, name, self._wrap(name, orig))
        return self

    def __exit__(self, *a):
        for name, orig in self._orig.items():
            setattr(self.module, name, orig)
        return False

    def _wrap(self, name, orig):
        try:
            sig = inspect.signature(orig)
        except Exception:
            sig = None
        me = self

        def wrapper(*args, **kwargs):
            me.calls[name] += 1
            ev = {"name": name}
            if me.keep_args:
                if sig is not None:
                    try:
                        ba = sig.bind(*args, **kwargs)
                        ba.apply_defaults()
                        if me.copy_args:
                            ev["args"] = {k: deep(v) for k, v in ba.arguments.items() if k != "sf" and k != "logger"}
                        else:
                            ev["args"] = None
                        ev["live"] = dict(ba.arguments)
                    except TypeError:
                        ev["args"] = None
                else:
                    ev["args"] = None
            if me.frame_vars:
                fr = sys._getframe(1)
                loc = fr.f_locals
                ev["frame_fn"] = fr.f_code.co_name
                ev["frame"] = {k: deep(loc[k]) for k in me.frame_vars if k in loc}
            if me.on_call is not None:
                me.on_call(ev)
            try:
                ret = orig(*args, **kwargs)
            except BaseException as e:
                ev["exc"] = e
                me.events.append(ev)
                raise
            ev["ret"] = deep(ret) if me.copy_ret else ret
            ev["ret_live"] = ret
            me.events.append(ev)
            if me.on_event is not None:
                me.on_event(ev)
            return ret

        wrapper.__wrapped__ = orig
        return wrapper


@contextmanager
def intercept_main(names, **kw):
    import lbfgsb.main as M

    with Intercept(M, names, **kw) as ic:
        yield ic


# ---------------------------------------------------------------------------
# write barrier
# ---------------------------------------------------------------------------
def freeze(*arrays):
    for a in arrays:
        if isinstance(a, np.ndarray):
            a.flags.writeable = False


def fingerprint(*arrays):
    return tuple((a.shape, a.tobytes()) if isinstance(a, np.ndarray) else repr(a) for a in arrays)


def in_box(x, lb, ub):
    """Exact feasibility of the real part; NaN fails."""
    xr = np.real(x)
    return bool(np.all(lb <= xr) and np.all(xr <= ub))
