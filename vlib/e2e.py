"""Helpers shared by the end-to-end properties: configuration sampling and generic
monitors over a recorded run (vlib.probes.Trace)."""

from __future__ import annotations

import numpy as np

from . import gen, probes

MESSAGES = {
    "PGTOL": "CONVERGENCE: NORM_OF_PROJECTED_GRADIENT_<=_PGTOL",
    "FTOL": "CONVERGENCE: REL_REDUCTION_OF_F_<=_FTOL",
    "TARGET": "CONVERGENCE: F_<=_TARGET",
    "ITER": "STOP: TOTAL NO. of ITERATIONS REACHED LIMIT",
    "EVAL": "STOP: TOTAL NO. of f AND g EVALUATIONS EXCEEDS LIMIT",
    "CALLBACK": "STOP: USER CALLBACK",
    "ABNORMAL": "ABNORMAL_TERMINATION_IN_LNSRCH",
}
MSG_KEY = {v: k for k, v in MESSAGES.items()}


def rand_cfg(rng, modes=("callable",), small_budgets=True):
    cfg = {
        "jac": gen.pick(rng, list(modes)),
        "maxcor": int(rng.integers(1, 11)),
        "maxls": int(gen.pick(rng, [1, 2, 3, 5, 10, 20])),
        "maxiter": int(gen.pick(rng, [1, 2, 3, 5, 8, 15, 40])),
        "maxfun": int(gen.pick(rng, [2, 5, 10, 30, 100, 15000])) if small_budgets else 15000,
        "ftol": float(gen.pick(rng, [0.0, 1e-12, 1e-8, 1e-5])),
        "gtol": float(gen.pick(rng, [1e-9, 1e-6, 1e-5])),
    }
    return cfg


def vary_rare_parameters(rng, cfg, p=0.15):
    """With probability p give the run non-default values of parameters that the bulk of the workloads leaves alone: the line-search
    constants, and (when the run does not already set them) a user step cap. They define another valid run, nothing more."""
    if rng.random() < p:
        cfg["ftol_linesearch"] = float(pick_(rng, [1e-4, 1e-2, 0.1, 0.3]))
        # (the documentation asks for nonnegative tolerances; values of 1 and more make the curvature condition void, 0 makes it
        #  unattainable / switches the interval test off - legal settings all)
        cfg["gtol_linesearch"] = float(pick_(rng, [0.1, 0.5, 0.99, 1.0, 2.5, 0.0]))
        if 0 < cfg["gtol_linesearch"] <= cfg["ftol_linesearch"]:
            cfg["gtol_linesearch"] = 0.9
        cfg["xtol_linesearch"] = float(pick_(rng, [1e-8, 1e-3, 0.1, 0.5, 0.0]))
        cfg["_rare"] = True
    if rng.random() < p and "eps_SY" not in cfg:
        # the curvature threshold of the memory far below machine precision (or zero: any positive curvature is accepted), or large
        cfg["eps_SY"] = float(pick_(rng, [0.0, 1e-300, 1e-30, 1e-3, 0.5]))
    if rng.random() < 0.08:
        # an objective that sets NumPy's floating-point error state at its first call and depends on finding it unchanged afterwards
        cfg["fp_sensitive"] = True
    return cfg


def pick_(rng, seq):
    return seq[int(rng.integers(len(seq)))]


def cs_capable(P):
    return "cf" in P.meta


def pick_mode(rng, P, modes):
    m = gen.pick(rng, list(modes))
    if m == "cs" and not cs_capable(P):
        m = "3-point"
    return m


# ---------------------------------------------------------------------------
# C02 monitor: every point the user sees is inside the box, exactly
# ---------------------------------------------------------------------------
def mon_box(out, P, tr, mode, tags):
    lb, ub = P.lb, P.ub
    deg = lb == ub
    on_bound_after_start = 0

    def bad(p, what, i):
        pr = np.real(p)
        if pr.shape != lb.shape:
            out.violate("point_shape", f"{what} #{i} has shape {pr.shape}", what=what, **tags)
            return True
        if not probes.in_box(pr, lb, ub):
            j = int(np.argmax(~((lb <= pr) & (pr <= ub))))
            ulps = ""
            if np.isfinite(pr[j]):
                ref = ub[j] if pr[j] > ub[j] else lb[j]
                ulps = f" ({abs(pr[j] - ref) / max(np.spacing(abs(ref)), 5e-324):.0f} ulp outside)"
            out.violate("point_outside_box", f"{what} #{i}: component {j} = {pr[j]!r} not in [{lb[j]!r}, {ub[j]!r}]{ulps}", what=what, **tags)
            return True
        if np.any(deg) and not np.array_equal(pr[deg], lb[deg]):
            out.violate("fixed_variable_moved", f"{what} #{i}: a variable with lb == ub moved", what=what, **tags)
            return True
        if np.iscomplexobj(p) and mode != "cs" and np.any(np.imag(p) != 0):
            out.violate("complex_point", f"{what} #{i}: complex argument outside complex-step mode", what=what, **tags)
            return True
        return False

    movable = (lb < ub)
    for i, (kind, p, v) in enumerate(tr.evals):
        out.count("points_checked")
        if bad(p, "objective" if kind == "f" else "gradient", i):
            return
        pr = np.real(p)
        if i > 0 and np.any(((pr == lb) | (pr == ub)) & movable):
            on_bound_after_start += 1
    for i, rec in enumerate(tr.cb):
        out.count("points_checked", 2)
        if bad(rec["xk"], "callback xk", i) or bad(rec["snap"]["x"], "callback state.x", i):
            return
    if tr.result is not None:
        out.count("points_checked")
        if bad(np.asarray(tr.result.x), "result.x", 0):
            return
    out.count("evaluations_with_component_on_bound", on_bound_after_start)
    return on_bound_after_start


# ---------------------------------------------------------------------------
# C03 monitor: recomputed objective sequence never increases
# ---------------------------------------------------------------------------
def mon_monotone(out, P, tr, tags, scale=1.0):
    seq = [("x0", np.array(P.x0, dtype=float))]
    for i, rec in enumerate(tr.cb):
        seq.append((f"callback#{i}", rec["xk"]))
    if tr.result is not None:
        seq.append(("result", np.array(tr.result.x, dtype=float)))
    vals = []
    old = np.seterr(all="ignore")
    try:
        for name, x in seq:
            vals.append(P.f(np.array(x, copy=True)))
    finally:
        np.seterr(**old)
    if not np.isfinite(vals[0]):
        out.skipped = "nonfinite_start_value"
        return None
    out.count("sequence_points", len(vals))
    worst = 0.0
    for k in range(1, len(vals)):
        if not (vals[k] <= vals[k - 1]):
            inc = vals[k] - vals[k - 1]
            worst = max(worst, inc if inc == inc else np.inf)
            msg = None if tr.result is None else str(tr.result.message)
            out.violate("objective_increased", f"f({seq[k][0]})={vals[k]!r} > f({seq[k - 1][0]})={vals[k - 1]!r} (increase {inc:.3e}); "
                        f"final message {msg!r}", converged=bool(msg and msg.startswith("CONVERGENCE")), **tags)
            return vals
    # "a line search that finds no point better than its start leaves the iterate where it was": an iterate that
    # moved must have a strictly lower value
    for k in range(1, len(vals)):
        if vals[k] == vals[k - 1] and not np.array_equal(seq[k][1], seq[k - 1][1]):
            out.violate("iterate_moved_without_decrease", f"f({seq[k][0]}) == f({seq[k - 1][0]}) = {vals[k]!r} but the iterate moved "
                        f"(max |dx| = {float(np.max(np.abs(seq[k][1] - seq[k - 1][1]))):.3e}): the line search found no better point yet the iterate was not left where it was",
                        **tags)
            return vals
    if tr.result is not None and not (vals[-1] <= vals[0]):
        out.violate("result_worse_than_start", f"f(result.x)={vals[-1]!r} > f(x0)={vals[0]!r}", **tags)
    return vals
