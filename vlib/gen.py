"""Seeded workload generators: objective families, boxes, starts.

A problem is fully described by a JSON *spec* (family, n, seed, ...); ``make_problem``
rebuilds bit-identical closures from it, which is what makes replays exact.
All closures are pure: they never mutate their argument and always return fresh
objects, so the harness can re-evaluate them as an oracle.
"""

from __future__ import annotations

import numpy as np

from .common import subseed

EPS = np.finfo(float).eps

CONVEX = ("qp", "qp_quartic", "qp_softplus")
NONCONVEX = (
    "rosenbrock",
    "beale",
    "rastrigin",
    "styblinski_tang",
    "griewank",
    "ackley",
    "oscillating",
    "exp_wall",
    "badly_scaled",
    "quartic",
    "sphere",
)
ALL_FAMILIES = CONVEX + NONCONVEX


class Problem:
    __slots__ = ("spec", "n", "f", "g", "lb", "ub", "x0", "bounds", "meta")

    def __init__(self, spec, n, f, g, lb, ub, x0, meta):
        self.spec = spec
        self.n = n
        self.f = f
        self.g = g
        self.lb = lb
        self.ub = ub
        self.x0 = x0
        self.bounds = np.column_stack([lb, ub])
        self.meta = meta

    def scipy_bounds(self):
        return [
            (None if not np.isfinite(a) else float(a), None if not np.isfinite(b) else float(b))
            for a, b in zip(self.lb, self.ub)
        ]


# ---------------------------------------------------------------------------
# building blocks
# ---------------------------------------------------------------------------
def rand_spd(rng, n, cond):
    Q, _ = np.linalg.qr(rng.standard_normal((n, n)))
    ev = np.exp(rng.uniform(0, np.log(max(cond, 1.0 + 1e-12)), n))
    ev[0] = 1.0
    if n > 1:
        ev[-1] = cond
    A = (Q * ev) @ Q.T
    return (A + A.T) / 2


def rand_box(rng, n, kind):
    lb = np.full(n, -np.inf)
    ub = np.full(n, np.inf)
    for i in range(n):
        c = rng.normal() * 2
        w = np.exp(rng.uniform(-2, 1.5))
        if kind == "none":
            k = 0
        elif kind == "boxed":
            k = 3
        elif kind == "narrow":
            k = 3
            w = np.exp(rng.uniform(-7, -2))
        elif kind == "sliver":
            # half of the variables confined to intervals far narrower than any differencing step (1e-10 .. 5e-7), the others ordinary
            k = 3
            if rng.random() < 0.5:
                w = float(np.exp(rng.uniform(np.log(1e-10), np.log(5e-7))))
        elif kind == "narrow_far":
            # large-magnitude variable with a box that is narrow relative to its magnitude but far from degenerate
            k = 3
            c = float(rng.choice([-1.0, 1.0]) * np.exp(rng.uniform(np.log(1e2), np.log(1e5))))
            w = abs(c) * float(np.exp(rng.uniform(np.log(2e-7), np.log(1e-3))))
        elif kind in ("nonneg", "unit", "nonpos", "zero_mixed"):
            # bounds exactly equal to zero (x >= 0, the unit box, ...): by far the most common boxes in practice
            kk = kind if kind != "zero_mixed" else ("nonneg", "unit", "nonpos", "free")[int(rng.integers(0, 4))]
            k = 0
            if kk == "nonneg":
                lb[i] = 0.0
            elif kk == "nonpos":
                ub[i] = 0.0
            elif kk == "unit":
                lb[i], ub[i] = 0.0, float(2.0 ** rng.integers(-1, 3))
            continue
        elif kind == "lower":
            k = 1
        elif kind == "upper":
            k = 2
        elif kind == "boxed_degenerate":
            k = 4
        elif kind == "all_fixed":
            lb[i] = ub[i] = c  # every variable fixed: the box is a single point
            continue
        else:  # mixed
            k = int(rng.integers(0, 5))
        if k == 1:
            lb[i] = c
        elif k == 2:
            ub[i] = c
        elif k == 3:
            lb[i] = c - w
            ub[i] = c + w
        elif k == 4:
            if rng.random() < 0.35:
                lb[i] = ub[i] = c
            else:
                lb[i] = c - w
                ub[i] = c + w
    return lb, ub


def rand_x0(rng, lb, ub, mode):
    n = lb.size
    lo = np.where(np.isfinite(lb), lb, np.where(np.isfinite(ub), ub - 3, -3))
    hi = np.where(np.isfinite(ub), ub, np.where(np.isfinite(lb), lb + 3, 3))
    x = lo + rng.random(n) * (hi - lo)
    x = np.clip(x, lb, ub)
    if mode == "interior":
        return x
    p = 0.5 if mode == "face" else 1.0
    for i in range(n):
        if rng.random() < p:
            c = []
            if np.isfinite(lb[i]):
                c.append(lb[i])
            if np.isfinite(ub[i]):
                c.append(ub[i])
            if c:
                x[i] = c[int(rng.integers(len(c)))]
    return x


def softplus(z):
    return np.log1p(np.exp(-np.abs(z))) + np.maximum(z, 0.0)


def sigmoid(z):
    out = np.empty_like(z)
    pos = z >= 0
    out[pos] = 1.0 / (1.0 + np.exp(-z[pos]))
    ez = np.exp(z[~pos])
    out[~pos] = ez / (1.0 + ez)
    return out


# ---------------------------------------------------------------------------
# families
# ---------------------------------------------------------------------------
def _fam_qp(rng, n, spec):
    cond = float(spec.get("cond", 100.0))
    A = rand_spd(rng, n, cond)
    b = rng.standard_normal(n) * 3
    absA = np.abs(A)
    lam = float(np.linalg.eigvalsh(A)[-1])

    def f(x):
        return float(0.5 * (x @ (A @ x)) - b @ x)

    def g(x):
        return A @ x - b

    meta = dict(
        A=A,
        b=b,
        L=lambda x: lam,
        Fabs=lambda x: float(0.5 * np.abs(x) @ absA @ np.abs(x) + np.abs(b) @ np.abs(x)),
        hess=lambda x: A,
        convex=True,
        complex_safe=True,
        extra_grad=lambda x: np.zeros(n),
        cf=lambda x: 0.5 * (x @ (A @ x)) - b @ x,
    )
    return f, g, meta


def _fam_qp_quartic(rng, n, spec):
    cond = float(spec.get("cond", 100.0))
    A = rand_spd(rng, n, cond)
    b = rng.standard_normal(n) * 3
    w = rng.uniform(0.05, 1.0, n)
    absA = np.abs(A)
    lam = float(np.linalg.eigvalsh(A)[-1])

    def f(x):
        return float(0.5 * (x @ (A @ x)) - b @ x + 0.25 * np.sum(w * x**4))

    def g(x):
        return A @ x - b + w * x**3

    meta = dict(
        A=A,
        b=b,
        L=lambda x: lam + float(np.max(3 * w * x**2)),
        Fabs=lambda x: float(
            0.5 * np.abs(x) @ absA @ np.abs(x) + np.abs(b) @ np.abs(x) + 0.25 * np.sum(w * x**4)
        ),
        hess=lambda x: A + np.diag(3 * w * x**2),
        convex=True,
        complex_safe=True,
        extra_grad=lambda x: w * x**3,
        cf=lambda x: 0.5 * (x @ (A @ x)) - b @ x + 0.25 * np.sum(w * x**4),
    )
    return f, g, meta


def _fam_qp_softplus(rng, n, spec):
    cond = float(spec.get("cond", 100.0))
    A = rand_spd(rng, n, cond)
    b = rng.standard_normal(n) * 3
    C = rng.standard_normal((n, n))
    e = rng.standard_normal(n)
    absA = np.abs(A)
    lam = float(np.linalg.eigvalsh(A + 0.25 * C.T @ C)[-1])

    def f(x):
        return float(0.5 * (x @ (A @ x)) - b @ x + np.sum(softplus(C @ x + e)))

    def g(x):
        return A @ x - b + C.T @ sigmoid(C @ x + e)

    def hess(x):
        s = sigmoid(C @ x + e)
        return A + C.T @ np.diag(s * (1 - s)) @ C

    meta = dict(
        A=A,
        b=b,
        L=lambda x: lam,
        Fabs=lambda x: float(
            0.5 * np.abs(x) @ absA @ np.abs(x) + np.abs(b) @ np.abs(x) + np.sum(softplus(C @ x + e))
        ),
        hess=hess,
        convex=True,
        complex_safe=False,
        extra_grad=lambda x: C.T @ sigmoid(C @ x + e),
    )
    return f, g, meta


def _fam_rosenbrock(rng, n, spec):
    def f(x):
        return float(100.0 * np.sum((x[1:] - x[:-1] ** 2) ** 2) + np.sum((1 - x[:-1]) ** 2))

    def g(x):
        out = np.zeros(x.size)
        out[1:] += 200.0 * (x[1:] - x[:-1] ** 2)
        out[:-1] += -400.0 * x[:-1] * (x[1:] - x[:-1] ** 2) - 2 * (1 - x[:-1])
        return out

    return f, g, dict(convex=False, complex_safe=True, min_n=2)


def _fam_scaled_rosenbrock(rng, n, spec):
    """Chained Rosenbrock function whose variables live on very different length scales (1e-8 .. 1e16): z = x / S."""
    S = 10.0 ** rng.uniform(-8, 16, n)
    f0, g0, _ = _fam_rosenbrock(rng, n, spec)

    def f(x):
        return f0(x / S)

    def g(x):
        return g0(x / S) / S

    return f, g, dict(convex=False, complex_safe=False, min_n=2, var_scales=S)


def _fam_beale(rng, n, spec):
    def f(x):
        a, y = x[:-1], x[1:]
        return float(
            np.sum((1.5 - a + a * y) ** 2 + (2.25 - a + a * y**2) ** 2 + (2.625 - a + a * y**3) ** 2)
        )

    def g(x):
        a, y = x[:-1], x[1:]
        f1 = 1.5 - a + a * y
        f2 = 2.25 - a + a * y**2
        f3 = 2.625 - a + a * y**3
        out = np.zeros(x.size)
        out[:-1] += 2 * (y - 1) * f1 + 2 * (y**2 - 1) * f2 + 2 * (y**3 - 1) * f3
        out[1:] += 2 * a * f1 + 4 * a * y * f2 + 6 * a * y**2 * f3
        return out

    return f, g, dict(convex=False, complex_safe=True, min_n=2)


def _fam_rastrigin(rng, n, spec):
    def f(x):
        return float(10.0 * x.size + np.sum(x**2 - 10.0 * np.cos(2 * np.pi * x)))

    def g(x):
        return 2 * x + 20 * np.pi * np.sin(2 * np.pi * x)

    return f, g, dict(convex=False, complex_safe=True)


def _fam_styblinski(rng, n, spec):
    def f(x):
        return float(0.5 * np.sum(x**4 - 16 * x**2 + 5 * x))

    def g(x):
        return 2 * x**3 - 16 * x + 2.5

    return f, g, dict(convex=False, complex_safe=True, cf=lambda x: 0.5 * np.sum(x**4 - 16 * x**2 + 5 * x))


def _fam_griewank(rng, n, spec):
    den = np.sqrt(np.arange(1, n + 1))

    def f(x):
        return float(1.0 + np.sum(x**2) / 4000.0 - np.prod(np.cos(x / den)))

    def g(x):
        c = np.cos(x / den)
        s = np.sin(x / den)
        others = np.array([np.prod(np.delete(c, i)) for i in range(x.size)])
        return x / 2000.0 + s / den * others

    return f, g, dict(convex=False, complex_safe=False)


def _fam_ackley(rng, n, spec):
    def f(x):
        nn = x.size
        r = np.sqrt(np.sum(x**2) / nn)
        return float(20.0 + np.e - 20.0 * np.exp(-0.2 * r) - np.exp(np.sum(np.cos(2 * np.pi * x)) / nn))

    def g(x):
        nn = x.size
        r = np.sqrt(np.sum(x**2) / nn)
        t2 = np.exp(np.sum(np.cos(2 * np.pi * x)) / nn)
        if r == 0:
            first = np.zeros(nn)
        else:
            first = 4.0 * np.exp(-0.2 * r) * x / (nn * r)
        return first + t2 * 2 * np.pi / nn * np.sin(2 * np.pi * x)

    return f, g, dict(convex=False, complex_safe=False)


def _fam_oscillating(rng, n, spec):
    A = rand_spd(rng, n, float(spec.get("cond", 30.0)))
    b = rng.standard_normal(n) * 2
    w = float(np.exp(rng.uniform(-1, 2)))
    om = rng.uniform(1.0, 12.0, n)
    ph = rng.uniform(0, 2 * np.pi, n)

    def f(x):
        return float(0.5 * (x @ (A @ x)) - b @ x + w * np.sum(np.cos(om * x + ph)))

    def g(x):
        return A @ x - b - w * om * np.sin(om * x + ph)

    return f, g, dict(convex=False, complex_safe=True)


def _fam_exp_wall(rng, n, spec):
    a = rng.uniform(2.0, 12.0, n)

    def f(x):
        with np.errstate(over="ignore", invalid="ignore"):
            return float(np.sum(x + np.exp(-a * x)))

    def g(x):
        with np.errstate(over="ignore", invalid="ignore"):
            return 1.0 - a * np.exp(-a * x)

    return f, g, dict(convex=False, complex_safe=True, wild=True)


def _fam_exp_valley(rng, n, spec):
    """sum(exp(z) - z), z = K (x - C), K spread over 0.3..10: smooth, strictly convex, one or more steep exponential directions on which
    the first trial of a search overshoots by orders of magnitude. Not in ALL_FAMILIES (C03's budget sweep uses it)."""
    K = np.exp(rng.uniform(np.log(0.3), np.log(10.0), n))
    C = rng.uniform(-2.0, 2.0, n)

    def f(x):
        with np.errstate(over="ignore", invalid="ignore"):
            z = K * (x - C)
            return float(np.sum(np.exp(z) - z))

    def g(x):
        with np.errstate(over="ignore", invalid="ignore"):
            return K * (np.exp(K * (x - C)) - 1.0)

    return f, g, dict(convex=True, complex_safe=True, wild=True)


def _fam_log_barrier(rng, n, spec):
    """c.x - sum(log x): defined for x > 0 only; returns inf (gradient nan) outside its domain, as a user's
    domain-restricted objective does. Not in ALL_FAMILIES: only the checks that handle non-finite values use it."""
    c = rng.uniform(0.2, 5.0, n)

    def f(x):
        if np.any(x <= 0):
            return float("inf")
        return float(c @ x - np.sum(np.log(x)))

    def g(x):
        with np.errstate(divide="ignore", invalid="ignore"):
            return np.where(x > 0, c - 1.0 / x, np.nan)

    return f, g, dict(convex=True, wild=True, domain_positive=True)


def _fam_qp_inf_region(rng, n, spec):
    """A convex QP that returns +inf in the half-space a.x > thr (a failed simulation / a hard constraint signalled through the
    value) while its gradient stays finite everywhere; thr is placed a little beyond the start by make_problem."""
    A = rand_spd(rng, n, float(spec.get("cond", 30.0)))
    b = rng.standard_normal(n) * 3
    a = rng.standard_normal(n)
    st = {"thr": np.inf}
    bad = float("nan") if spec["family"] == "qp_nan_region" else float("inf")  # undefined (nan) or forbidden (+inf)

    def f(x):
        if float(a @ x) > st["thr"]:
            return bad
        return float(0.5 * (x @ (A @ x)) - b @ x)

    def g(x):
        return A @ x - b

    return f, g, dict(convex=False, wild=True, inf_region=dict(a=a, state=st, margin=float(np.exp(rng.uniform(np.log(0.05), np.log(2.0)))), A=A, b=b))


def _fam_edge_walk(rng, n, spec):
    """-x_0 + amp*sin(freq*x_0) + 0.5*|x_1..|^2, defined for x_0 <= L only (+inf and a nan gradient beyond): the descent walks towards the
    edge of the domain and line searches step over it after a first improving trial. Not in ALL_FAMILIES."""
    L = float(rng.uniform(5.0, 40.0))
    amp = float(rng.uniform(0.1, 0.9))
    freq = float(rng.uniform(0.8, 2.5))

    def f(x):
        if x[0] > L:
            return float("inf")
        return float(-x[0] + amp * np.sin(freq * x[0]) + 0.5 * np.sum(x[1:] ** 2))

    def g(x):
        if x[0] > L:
            return np.full(x.shape, np.nan)
        out = np.array(x, dtype=float, copy=True)
        out[0] = -1.0 + amp * freq * np.cos(freq * x[0])
        return out

    return f, g, dict(convex=False, wild=True, edge=L)


def _fam_sqrt_floor(rng, n, spec):
    """sum(w_i*sqrt(x_i)) + 0.5*|x - a|^2 on x >= 0 (make_problem puts the lower bounds at 0): the minimiser of the variables with
    a_i <= 0 is the bound itself, where the gradient is +inf. Not in ALL_FAMILIES."""
    w = rng.uniform(0.2, 3.0, n)
    a = rng.uniform(-1.0, 2.0, n)

    def f(x):
        with np.errstate(invalid="ignore"):
            return float(np.sum(w * np.sqrt(x)) + 0.5 * np.sum((x - a) ** 2))

    def g(x):
        with np.errstate(divide="ignore", invalid="ignore"):
            return w / (2.0 * np.sqrt(x)) + (x - a)

    return f, g, dict(convex=False, wild=True, floor_zero=True)


def _fam_badly_scaled(rng, n, spec):
    A = rand_spd(rng, n, float(spec.get("cond", 30.0)))
    b = rng.standard_normal(n)
    D = 10.0 ** rng.uniform(-3, 3, n)

    def f(x):
        z = D * x
        return float(0.5 * (z @ (A @ z)) - b @ z)

    def g(x):
        z = D * x
        return D * (A @ z - b)

    return f, g, dict(convex=False, complex_safe=True)


def _fam_quartic(rng, n, spec):
    k = np.arange(1, n + 1, dtype=float)

    def f(x):
        return float(np.sum(k * x**4))

    def g(x):
        return 4 * k * x**3

    return f, g, dict(convex=False, complex_safe=True, cf=lambda x: np.sum(k * x**4))


def _fam_sphere(rng, n, spec):
    def f(x):
        return float(np.sum(x**2))

    def g(x):
        return 2.0 * x

    return f, g, dict(convex=False, complex_safe=True, cf=lambda x: np.sum(x**2))


def _fam_qp_subnormal(rng, n, spec):
    """A strictly convex quadratic in the first n-1 variables plus a term c*x_n whose slope c is a subnormal number (3e-310): the
    last component of every gradient is non-zero and below the smallest normal double."""
    m = max(n - 1, 1)
    f0, g0, meta = _fam_qp(rng, m, spec)
    c = float(rng.choice([-1.0, 1.0])) * float(rng.uniform(1.0, 4.0)) * 1e-310

    def f(x):
        return f0(x[:m]) + (c * float(x[m]) if x.size > m else 0.0)

    def g(x):
        out = np.zeros(x.size)
        out[:m] = g0(x[:m])
        if x.size > m:
            out[m] = c
        return out

    return f, g, dict(convex=False, complex_safe=False, min_n=2)


def _fam_flat(rng, n, spec):
    """An objective that does not depend on some (or any) of its variables: constant, or a quadratic in the first variable only."""
    c0 = float(rng.normal())
    partial = bool(rng.random() < 0.5) and n >= 2

    def f(x):
        return c0 + (float((x[0] - 0.3) ** 2) if partial else 0.0)

    def g(x):
        out = np.zeros(x.size)
        if partial:
            out[0] = 2.0 * (x[0] - 0.3)
        return out

    return f, g, dict(convex=False, complex_safe=False)


def _fam_qp_indefinite(rng, n, spec):
    """A quadratic with eigenvalues of both signs: unbounded below wherever the box leaves a direction of negative curvature open. A run
    follows it to magnitudes at which products of gradients overflow."""
    Q, _ = np.linalg.qr(rng.standard_normal((n, n)))
    ev = rng.standard_normal(n) * np.exp(rng.uniform(0, 3, n))
    A = (Q * ev) @ Q.T
    A = (A + A.T) / 2
    b = rng.standard_normal(n)

    def f(x):
        return float(0.5 * (x @ (A @ x)) - b @ x)

    def g(x):
        return A @ x - b

    return f, g, dict(convex=False, complex_safe=False, unbounded_below=True)


def _fam_underflow_valley(rng, n, spec):
    """0.5 sum w_i x_i^2 + 0.25 sum w_i x_i^4 with weights from 1e8..1e16 down to 1e-8..1e-31: minimised at the origin, which a run with
    gtol = 0 approaches until objective, gradient and the squares of the gradient components underflow."""
    w = np.geomspace(float(10.0 ** rng.integers(8, 17)), float(10.0 ** -rng.integers(8, 32)), n)

    def f(x):
        return float(0.5 * np.sum(w * x * x) + 0.25 * np.sum(w * x ** 4))

    def g(x):
        return w * x + w * x ** 3

    return f, g, dict(convex=True, complex_safe=False)


def _fam_quantized(rng, n, spec):
    """A smooth QP reported with finite resolution (plateaus): trial values can tie with the start value exactly."""
    A = rand_spd(rng, n, float(spec.get("cond", 30.0)))
    b = rng.standard_normal(n)
    q = float(2.0 ** rng.integers(0, 10))

    def f(x):
        return float(np.round((0.5 * (x @ (A @ x)) - b @ x) * q) / q)

    def g(x):
        return A @ x - b

    return f, g, dict(convex=False, complex_safe=False)


_FAMILIES = {
    "qp": _fam_qp,
    "qp_quartic": _fam_qp_quartic,
    "qp_softplus": _fam_qp_softplus,
    "rosenbrock": _fam_rosenbrock,
    "scaled_rosenbrock": _fam_scaled_rosenbrock,
    "beale": _fam_beale,
    "rastrigin": _fam_rastrigin,
    "styblinski_tang": _fam_styblinski,
    "griewank": _fam_griewank,
    "ackley": _fam_ackley,
    "oscillating": _fam_oscillating,
    "exp_wall": _fam_exp_wall,
    "exp_valley": _fam_exp_valley,
    "log_barrier": _fam_log_barrier,
    "qp_inf_region": _fam_qp_inf_region,
    "qp_nan_region": _fam_qp_inf_region,
    "sqrt_floor": _fam_sqrt_floor,
    "edge_walk": _fam_edge_walk,
    "badly_scaled": _fam_badly_scaled,
    "quartic": _fam_quartic,
    "sphere": _fam_sphere,
    "flat": _fam_flat,
    "qp_indefinite": _fam_qp_indefinite,
    "underflow_valley": _fam_underflow_valley,
    "qp_subnormal": _fam_qp_subnormal,
    "quantized": _fam_quantized,
}


def make_problem(spec) -> Problem:
    """spec: family, n, seed, [cond], box, start, [pattern]."""
    fam = spec["family"]
    n = int(spec["n"])
    if fam in ("rosenbrock", "beale", "scaled_rosenbrock", "qp_subnormal"):
        n = max(n, 2)
    seed = int(spec["seed"])
    rng = np.random.default_rng(subseed("problem", fam, n, seed))
    f, g, meta = _FAMILIES[fam](rng, n, spec)
    brng = np.random.default_rng(subseed("box", fam, n, seed, spec.get("box", "mixed")))
    lb, ub = rand_box(brng, n, spec.get("box", "mixed"))
    mode = spec.get("start", "interior")
    x0 = rand_x0(brng, lb, ub, "vertex" if mode in ("outward", "pattern") else mode)

    if mode == "pattern" and "A" in meta:
        # structural start pattern: per variable position (0=lb,1=interior,2=ub) and
        # sign of the start gradient (-1,0,1); bounds made finite where a position needs it
        pos = spec["pattern"]["pos"]
        sgn = spec["pattern"]["sgn"]
        for i in range(n):
            if pos[i] == 0:
                if not np.isfinite(lb[i]):
                    lb[i] = (ub[i] - 1.5) if np.isfinite(ub[i]) else -1.0 + 0.3 * i
                x0[i] = lb[i]
            elif pos[i] == 2:
                if not np.isfinite(ub[i]):
                    ub[i] = (lb[i] + 1.5) if np.isfinite(lb[i]) else 1.0 + 0.3 * i
                x0[i] = ub[i]
            else:
                if lb[i] == ub[i]:
                    ub[i] = lb[i] + 1.0
                lo = lb[i] if np.isfinite(lb[i]) else (ub[i] - 2 if np.isfinite(ub[i]) else -1)
                hi = ub[i] if np.isfinite(ub[i]) else lo + 2
                x0[i] = lo + (0.3 + 0.4 * brng.random()) * (hi - lo)
        gdes = np.array([s * (0.5 + 2.0 * brng.random()) for s in sgn], dtype=float)
        A, extra = meta["A"], meta["extra_grad"]
        bnew = A @ x0 + extra(x0) - gdes
        meta["b"][:] = bnew  # closures read b by reference
    elif mode == "outward" and "A" in meta:
        # make the start gradient push outward on the variables resting on a bound
        gdes = brng.standard_normal(n) * 2
        for i in range(n):
            if brng.random() < 0.8:
                if x0[i] == lb[i] and np.isfinite(lb[i]):
                    gdes[i] = abs(gdes[i]) + 0.1
                elif x0[i] == ub[i] and np.isfinite(ub[i]):
                    gdes[i] = -abs(gdes[i]) - 0.1
        A, extra = meta["A"], meta["extra_grad"]
        meta["b"][:] = A @ x0 + extra(x0) - gdes
    if "geometry_from" in spec:
        # same box and start as another problem (different objective): two runs that visit identical points
        other = make_problem(spec["geometry_from"])
        if other.n == n:
            lb, ub, x0 = other.lb.copy(), other.ub.copy(), other.x0.copy()
    if spec.get("start_scale"):
        # a start so far out that the first (unit-length) step is below half an ulp of the iterate: the first trial point IS x0
        x0 = np.clip(np.where(x0 == 0, 1.0, x0) * float(spec["start_scale"]), lb, ub)
    if meta.get("inf_region"):
        # the forbidden half-space lies in the descent direction, a little beyond the start
        ir = meta["inf_region"]
        g0 = ir["A"] @ x0 - ir["b"]
        ir["a"][:] = -g0 / max(float(np.linalg.norm(g0)), 1e-300)
        ir["state"]["thr"] = float(ir["a"] @ x0) + ir["margin"]
    if meta.get("edge") is not None:
        lb = np.where(np.isfinite(lb), np.minimum(lb, -3.0), lb)
        ub = np.where(np.isfinite(ub), np.maximum(ub, meta["edge"] + 10.0), ub)  # the box does not protect the domain
        x0 = np.clip(np.clip(x0, -3.0, 3.0), lb, ub)
    if meta.get("floor_zero"):
        lb = np.zeros(n)
        ub = np.where(np.isfinite(ub) & (ub > 0.5), ub, np.inf)
        x0 = np.clip(np.abs(x0) * 0.3 + 0.05, lb, ub)
    if meta.get("domain_positive"):
        x0 = np.clip(np.abs(x0) + 0.3, lb, ub)  # start inside the objective's domain whenever the box allows it
    if meta.get("var_scales") is not None:
        # box and start expressed in the variables' own units
        lb, ub = lb * meta["var_scales"], ub * meta["var_scales"]
        x0 = np.clip(brng.uniform(-1.2, 1.2, n) * meta["var_scales"], lb, ub)
    return Problem(dict(spec), n, f, g, lb, ub, x0, meta)


def pick(rng, seq):
    return seq[int(rng.integers(len(seq)))]


def rand_spec(rng, families, nmax=8, nmin=1, boxes=None, starts=None, condmax=1e4):
    fam = pick(rng, families)
    boxes = boxes or ("none", "mixed", "mixed", "boxed", "narrow", "lower", "upper", "boxed_degenerate")
    starts = starts or ("interior", "face", "vertex", "outward")
    n = int(rng.integers(nmin, nmax + 1))
    return {
        "family": fam,
        "n": n,
        "seed": int(rng.integers(0, 2**31 - 1)),
        "cond": float(np.exp(rng.uniform(0, np.log(condmax)))),
        "box": pick(rng, boxes),
        "start": pick(rng, starts),
    }


def pg_inf(x, g, lb, ub):
    """Infinity norm of the projected gradient, independent re-implementation."""
    step = x - g
    proj = np.minimum(np.maximum(step, lb), ub)
    return float(np.max(np.abs(proj - x))) if x.size else 0.0
