"""Runtime-monitoring machinery for antoinecollet5/lbfgsb (see /verif/DESIGN.md)."""
