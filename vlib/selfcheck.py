"""Setup-time sanity: import every case module, run the monitors' liveness self-tests."""

import glob
import importlib
import os
import sys

from . import common


def main():
    common.bind_repo()
    bad = 0
    here = os.path.dirname(os.path.abspath(__file__))
    for path in sorted(glob.glob(os.path.join(here, "cases", "C*.py"))):
        name = os.path.basename(path)[:-3]
        mod = importlib.import_module(f"vlib.cases.{name}")
        for label, ok in mod.selftest():
            if not ok:
                bad += 1
                print(f"{name}: monitor self-test FAILED: {label}")
        print(f"{name}: monitors alive")
    return 1 if bad else 0


if __name__ == "__main__":
    sys.exit(main())
