"""Sharded execution of a property's cases, verdict, evidence, replay files,
known-findings classification.

Parent:   ./check Cxx --tier quick|thorough   (this module's ``main``)
Workers:  python -m vlib.runner --worker Cxx tier seed shard nshards outfile
"""

from __future__ import annotations

import importlib
import json
import os
import subprocess
import sys
import time
import traceback

from . import common
from .common import VERIF_DIR, Outcome, enc, dec, human

NSHARDS_DEFAULT = 16
MAX_VIOL_PER_WORKER = 3
SOFT_BUDGET = {"quick": 150.0, "thorough": 2400.0}
WATCHDOG = {"quick": 900.0, "thorough": 4 * 3600.0}


def load(prop):
    return importlib.import_module(f"vlib.cases.{prop}")


# ---------------------------------------------------------------------------
# worker
# ---------------------------------------------------------------------------
def worker_main(prop, tier, seed, shard, nshards, outfile):
    common.bind_repo()
    mod = load(prop)
    t0 = time.time()
    cov = None
    if os.environ.get("VERIF_COVERAGE", "1") == "1":
        from . import cover
        import lbfgsb

        cov = cover.LineCoverage(os.path.dirname(lbfgsb.__file__)).start()
    budget = float(os.environ.get("VERIF_BUDGET_S", SOFT_BUDGET[tier]))
    agg = dict(cases=0, nontrivial_keys=[], counters={}, maxima={}, skipped={}, samples=[], violations=[],
               crashed=[], truncated=False, generated=0)
    keys = set()
    nviol = 0
    findings = load_findings(prop)
    for idx, spec in enumerate(mod.cases(tier, seed)):
        agg["generated"] = idx + 1
        if idx % nshards != shard:
            continue
        if time.time() - t0 > budget:
            agg["truncated"] = True
            break
        try:
            out = mod.run(spec)
        except Exception as e:  # harness bug or unexpected crash: never silently "held"
            agg["crashed"].append(dict(spec=enc(spec), error=repr(e), tb=traceback.format_exc()[-1500:]))
            if len(agg["crashed"]) >= 3:
                break
            continue
        agg["cases"] += 1
        for k, v in out.counters.items():
            agg["counters"][k] = agg["counters"].get(k, 0) + v
        for k, v in out.maxima.items():
            if k not in agg["maxima"] or v > agg["maxima"][k]:
                agg["maxima"][k] = v
        if out.skipped:
            agg["skipped"][out.skipped] = agg["skipped"].get(out.skipped, 0) + 1
        if out.keys:
            keys.update(list(out.keys)[:500])
        elif out.nontrivial:
            keys.add(out.key if out.key is not None else common.digest(json.dumps(enc(spec), sort_keys=True)))
        if out.sample is not None and len(agg["samples"]) < 2:
            agg["samples"].append(human(out.sample))
        if out.violations:
            unknown = [v for v in out.violations if match_finding(findings, v) is None]
            if unknown:
                nviol += 1
            if unknown or len(agg["violations"]) < 200:
                agg["violations"].append(dict(spec=enc(spec), violations=out.violations))
            if nviol >= MAX_VIOL_PER_WORKER:
                agg["truncated"] = True
                break
    agg["nontrivial_keys"] = sorted(keys)
    if cov is not None:
        cov.stop()
        agg["lines"] = cov.result()
    agg["wall_s"] = time.time() - t0
    with open(outfile, "w") as fh:
        json.dump(agg, fh)


# ---------------------------------------------------------------------------
# known findings
# ---------------------------------------------------------------------------
def load_findings(prop):
    path = os.path.join(VERIF_DIR, "known_findings.json")
    if not os.path.exists(path):
        return []
    with open(path) as fh:
        data = json.load(fh)
    return [e for e in data.get("entries", []) if e.get("property") == prop and e.get("status") == "open"]


def match_finding(findings, viol):
    for f in findings:
        m = f.get("match", {})
        if m.get("mech") != viol["mech"]:
            continue
        tags = viol.get("tags", {})
        if all(tags.get(k) == v for k, v in m.get("tags", {}).items()):
            return f
    return None


# ---------------------------------------------------------------------------
# parent
# ---------------------------------------------------------------------------
def child_env():
    env = dict(os.environ)
    for k in ("OMP_NUM_THREADS", "OPENBLAS_NUM_THREADS", "MKL_NUM_THREADS", "NUMEXPR_NUM_THREADS"):
        env[k] = "1"
    env["PYTHONDONTWRITEBYTECODE"] = "1"
    env["PYTHONHASHSEED"] = "0"
    env["PYTHONPATH"] = common.REPO + os.pathsep + VERIF_DIR
    env[common.GUARD] = "1"
    env.pop("COVERAGE_PROCESS_START", None)
    return env


def write_evidence(prop, mod, tier, seed, cov, wall, nviol, extra_assumptions=()):
    ev = {
        "property_id": prop,
        "tier": tier,
        "seed": int(seed),
        "level": mod.LEVEL,
        "coverage": cov,
        "assumptions": list(getattr(mod, "ASSUMPTIONS", [])) + list(extra_assumptions),
        "wall_s": round(wall, 2),
        "violations": int(nviol),
    }
    evdir = os.environ.get("VERIF_EVIDENCE_DIR", os.path.join(VERIF_DIR, "evidence"))
    os.makedirs(evdir, exist_ok=True)
    path = os.path.join(evdir, f"{prop}.json")
    tmp = path + ".tmp"
    with open(tmp, "w") as fh:
        json.dump(ev, fh, indent=1, sort_keys=False)
        fh.write("\n")
    os.replace(tmp, path)
    return path


def run_check(prop, tier, seed, jobs):
    t0 = time.time()
    common.bind_repo()
    mod = load(prop)
    # 1. liveness self-test of the monitors
    dead = []
    try:
        for name, ok in mod.selftest():
            if not ok:
                dead.append(name)
    except Exception as e:
        dead.append(f"selftest crashed: {e!r}")
    workdir = os.path.join(VERIF_DIR, ".work", f"{prop}-{tier}-{seed}-{os.getpid()}")
    os.makedirs(workdir, exist_ok=True)
    procs = []
    env = child_env()
    for sh in range(jobs):
        out = os.path.join(workdir, f"shard{sh}.json")
        log = open(os.path.join(workdir, f"shard{sh}.log"), "w")
        p = subprocess.Popen(
            [sys.executable, "-m", "vlib.runner", "--worker", prop, tier, str(seed), str(sh), str(jobs), out],
            cwd=VERIF_DIR, env=env, stdout=log, stderr=subprocess.STDOUT,
        )
        procs.append((p, out, log))
    deadline = t0 + float(os.environ.get("VERIF_WATCHDOG_S", WATCHDOG[tier]))
    timed_out = 0
    for p, out, log in procs:
        left = max(1.0, deadline - time.time())
        try:
            p.wait(timeout=left)
        except subprocess.TimeoutExpired:
            p.kill()
            p.wait()
            timed_out += 1
        log.close()
    # aggregate
    total = dict(cases=0, counters={}, maxima={}, skipped={}, samples=[], violations=[], crashed=[], truncated=0)
    keys = set()
    failed_workers = 0
    lines_hit = {}
    for p, out, log in procs:
        if not os.path.exists(out):
            failed_workers += 1
            continue
        with open(out) as fh:
            a = json.load(fh)
        total["cases"] += a["cases"]
        for k, v in a["counters"].items():
            total["counters"][k] = total["counters"].get(k, 0) + v
        for k, v in a["maxima"].items():
            if k not in total["maxima"] or v > total["maxima"][k]:
                total["maxima"][k] = v
        for k, v in a["skipped"].items():
            total["skipped"][k] = total["skipped"].get(k, 0) + v
        keys.update(a["nontrivial_keys"])
        if len(total["samples"]) < 4:
            total["samples"].extend(a["samples"][: 4 - len(total["samples"])])
        total["violations"].extend(a["violations"])
        total["crashed"].extend(a["crashed"])
        total["truncated"] += 1 if a["truncated"] else 0
        for fn, ls in a.get("lines", {}).items():
            lines_hit.setdefault(fn, set()).update(ls)
    inconclusive = []
    if dead:
        inconclusive.append("monitor self-test failed: " + "; ".join(dead))
    if timed_out:
        inconclusive.append(f"{timed_out} worker(s) hit the wall-clock watchdog")
    if failed_workers:
        tail = ""
        try:
            with open(os.path.join(workdir, "shard0.log")) as fh:
                tail = fh.read()[-400:]
        except Exception:
            pass
        inconclusive.append(f"{failed_workers} worker(s) produced no result: {tail!r}")
    if total["crashed"]:
        inconclusive.append(f"{len(total['crashed'])} case(s) crashed the harness: {total['crashed'][0]['error']}")

    # global (cross-case) monitors
    fin = getattr(mod, "finalize", None)
    if fin is not None and not total["violations"]:
        try:
            for msg in fin(total, tier) or []:
                inconclusive.append(msg)
        except Exception as e:
            inconclusive.append(f"finalize crashed: {e!r}")

    # floors
    floors = mod.floors(tier) if hasattr(mod, "floors") else {}
    if not total["violations"]:
        for k, need in floors.items():
            have = len(keys) if k == "__nontrivial__" else (total["cases"] if k == "__cases__" else total["counters"].get(k, 0))
            if have < need:
                inconclusive.append(f"monitor floor not reached: {k}={have} < {need}")

    # violations vs known findings
    findings = load_findings(prop)
    new_viol = []
    known_hit = {}
    replay_dir = os.environ.get("VERIF_REPLAY_DIR", os.path.join(VERIF_DIR, "replay"))
    os.makedirs(replay_dir, exist_ok=True)
    for item in total["violations"]:
        unknown = []
        for v in item["violations"]:
            f = match_finding(findings, v)
            if f is None:
                unknown.append(v)
            else:
                known_hit.setdefault(f["id"], [f, 0])[1] += 1
        if unknown:
            payload = dict(property=prop, tier=tier, seed=seed, spec=item["spec"], violations=unknown)
            name = f"{prop}-{common.digest(json.dumps(item['spec'], sort_keys=True))}.json"
            path = os.path.join(replay_dir, name)
            with open(path, "w") as fh:
                json.dump(payload, fh, indent=1)
            new_viol.append((path, unknown))

    cov = {
        "evaluations": int(total["cases"]),
        "distinct_nontrivial": int(len(keys)),
        "rule": mod.RULE,
        "samples": total["samples"] or [],
        "counters": dict(sorted(total["counters"].items())),
        "maxima": {k: human(v) for k, v in sorted(total["maxima"].items())},
        "skipped": total["skipped"],
        "workers": jobs,
        "workers_stopped_early": total["truncated"],
        "known_findings_observed": {k: v[1] for k, v in known_hit.items()},
        "floors": floors,
        "tree": common.REPO,
    }
    if lines_hit:
        try:
            from . import cover
            import lbfgsb

            summ, named = cover.summarise({k: sorted(v) for k, v in lines_hit.items()}, os.path.dirname(lbfgsb.__file__))
            cov["line_coverage_of_package"] = summ
            cov["named_branches"] = named
        except Exception as e:  # evidence only
            cov["line_coverage_of_package"] = f"unavailable: {e!r}"
    if hasattr(mod, "exhaustive"):
        exh = mod.exhaustive(tier)
        if exh:
            cov["exhaustive"] = bool(exh.get("all", False))
            cov["exhaustive_subspaces"] = exh.get("subspaces", [])
    if inconclusive:
        cov["inconclusive"] = inconclusive
    wall = time.time() - t0
    write_evidence(prop, mod, tier, seed, cov, wall, len(new_viol))
    # tidy work dir
    try:
        import shutil

        shutil.rmtree(workdir, ignore_errors=True)
    except Exception:
        pass

    for fid, (f, cnt) in sorted(known_hit.items()):
        print(f"KNOWN-FINDING: property={prop} {f['what']} [observed {cnt}x in this run]")
    if new_viol:
        for path, vs in new_viol[:10]:
            print(f"VIOLATION property={prop} replay={path}")
            for v in vs[:3]:
                print(f"    {v['mech']}: {v['detail']}")
        print(f"{prop} {tier}: {len(new_viol)} violating case(s) out of {total['cases']} in {wall:.1f}s")
        return 1
    if inconclusive:
        for msg in inconclusive:
            print(f"INCONCLUSIVE property={prop} reason={msg}")
        return 2
    print(
        f"{prop} {tier}: held on {total['cases']} cases ({len(keys)} distinct non-trivial) in {wall:.1f}s; "
        + ", ".join(f"{k}={v}" for k, v in list(sorted(total['counters'].items()))[:12])
    )
    return 0


def replay(prop, path):
    common.bind_repo()
    mod = load(prop)
    with open(path) as fh:
        payload = json.load(fh)
    spec = dec(payload["spec"])
    out = mod.run(spec)
    print(json.dumps(dict(spec=human(spec), outcome=out.to_json()), indent=1, default=str))
    findings = load_findings(prop)
    unknown = [v for v in out.violations if match_finding(findings, v) is None]
    if unknown:
        print(f"VIOLATION property={prop} replay={path}")
        return 1
    return 0


def main(argv=None):
    argv = list(sys.argv[1:] if argv is None else argv)
    if argv and argv[0] == "--worker":
        prop, tier, seed, shard, nshards, outfile = argv[1:7]
        worker_main(prop, tier, int(seed), int(shard), int(nshards), outfile)
        return 0
    import argparse

    ap = argparse.ArgumentParser()
    ap.add_argument("prop")
    ap.add_argument("--tier", default=os.environ.get("VERIF_TIER", "quick"), choices=["quick", "thorough"])
    ap.add_argument("--seed", type=int, default=int(os.environ.get("VERIF_SEED", "0")))
    ap.add_argument("--jobs", type=int, default=int(os.environ.get("VERIF_JOBS", str(min(NSHARDS_DEFAULT, os.cpu_count() or 4)))))
    ap.add_argument("--replay", default=None)
    a = ap.parse_args(argv)
    if a.replay:
        return replay(a.prop, a.replay)
    return run_check(a.prop, a.tier, a.seed, a.jobs)


if __name__ == "__main__":
    sys.exit(main())
