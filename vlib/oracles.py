"""Small dense reference models, written from the papers; no code shared with lbfgsb
(except where explicitly stated: ``dense_from_compact`` asks the package for the
matrix *it* uses, which is the thing being compared)."""

from __future__ import annotations

import numpy as np

EPS = np.finfo(float).eps


# ---------------------------------------------------------------------------
# BFGS
# ---------------------------------------------------------------------------
def dense_bfgs(S, Y, theta, n):
    """B0 = theta I, then direct BFGS updates with pairs oldest -> newest."""
    # carried in extended precision: the recursion itself cancels badly when a pair has s nearly orthogonal to y (thorough sweep, seed 2:
    # cos(s, y) = 6e-4 made the double-precision recursion wrong by 1e-7 while the compact form was right to 1e-11 against exact
    # rational arithmetic) and the reference must not be the less accurate side of a comparison
    L = np.longdouble
    B = L(theta) * np.eye(n, dtype=L)
    for s, y in zip(S, Y):
        s, y = np.asarray(s, dtype=L), np.asarray(y, dtype=L)
        Bs = B @ s
        B = B - np.outer(Bs, Bs) / (s @ Bs) + np.outer(y, y) / (y @ s)
    return np.asarray(B, dtype=float)


def has_pairs(mats):
    """True when the compact representation carries at least one pair (decided from the stored factors themselves,
    not from the package's own convenience predicate)."""
    f0 = np.asarray(mats.invMfactors[0])
    return bool(f0.size != 1 or f0.ravel()[0] != 0)


def dense_from_compact(mats, n):
    """theta I - W M W^T with M obtained column by column from the package's own
    middle-matrix product: this *is* the matrix the solver works with."""
    from lbfgsb.bfgsmats import bmv

    if not has_pairs(mats):
        return mats.theta * np.eye(n)
    W = mats.W
    k = W.shape[1]
    M = np.column_stack([bmv(mats.invMfactors, e) for e in np.eye(k)])
    return mats.theta * np.eye(n) - W @ M @ W.T


def inv_hess_dense(sk, yk):
    """Dense inverse-BFGS recursion (Nocedal & Wright 7.4), gamma from the newest pair."""
    sk = np.atleast_2d(sk)
    yk = np.atleast_2d(yk)
    n = sk.shape[1]
    if sk.shape[0] == 0:
        return np.eye(n)
    H = np.eye(n)
    identity = np.eye(n)
    for s, y in zip(sk, yk):
        rho = 1.0 / (y @ s)
        A1 = identity - rho * np.outer(s, y)
        A2 = identity - rho * np.outer(y, s)
        H = A1 @ H @ A2 + rho * np.outer(s, s)
    return H


def middle_cond(mats):
    """Condition number of the inverse middle matrix [[-D, L^T], [L, theta S^T S]] rebuilt from mats.S / mats.Y.
    It governs the rounding error of every product with the compact representation, in particular when
    more pairs than variables are stored (the Gram matrices are then singular)."""
    if not has_pairs(mats):
        return 1.0
    S, Y = np.asarray(mats.S), np.asarray(mats.Y)
    SY = S.T @ Y
    Minv = np.block([[-np.diag(np.diag(SY)), np.tril(SY, -1).T], [np.tril(SY, -1), mats.theta * (S.T @ S)]])
    c = float(np.linalg.cond(Minv))
    c = max(c, schur_cond(S.T, Y.T, mats.theta))
    return c if np.isfinite(c) else np.inf


def schur_cond(S, Y, theta):
    """Condition number of theta*S^T S + L D^-1 L^T (rows of S, Y = pairs): the matrix whose Cholesky factor the
    algorithm (Algorithm 778, formt) uses for every product with the middle matrix. The rounding error of those
    products is eps times this number, which can exceed the condition number of the block matrix by orders of
    magnitude when the curvatures s_i.y_i span many decades."""
    S, Y = np.atleast_2d(np.asarray(S, dtype=float)), np.atleast_2d(np.asarray(Y, dtype=float))
    SY = S @ Y.T
    d = np.diag(SY)
    if not np.all(d > 0):
        return np.inf
    L = np.tril(SY, -1)
    J = theta * (S @ S.T) + (L / d) @ L.T
    c = float(np.linalg.cond(J))
    return c if np.isfinite(c) else np.inf


class ShadowMemory:
    """Obligations of the bounded curvature-filtered history (C10)."""

    def __init__(self, x0, g0, maxcor, eps):
        self.X = [np.array(x0, dtype=float)]
        self.G = [np.array(g0, dtype=float)]
        self.maxcor = maxcor
        self.eps = eps

    def margin(self, xk, gk):
        y = gk - self.G[-1]
        s = xk - self.X[-1]
        sy = float(s @ y)
        yy = float(y @ y)
        scale = float(np.linalg.norm(s) * np.linalg.norm(y))
        return sy, yy, scale

    def offer(self, xk, gk):
        sy, yy, scale = self.margin(xk, gk)
        accepted = sy > self.eps * yy
        degenerate = scale > 0 and abs(sy - self.eps * yy) <= 1e-10 * scale
        if accepted:
            self.X.append(np.array(xk, dtype=float))
            self.G.append(np.array(gk, dtype=float))
            if len(self.X) > self.maxcor + 1:
                self.X.pop(0)
                self.G.pop(0)
        return accepted, degenerate

    def pairs(self):
        S = [self.X[i + 1] - self.X[i] for i in range(len(self.X) - 1)]
        Y = [self.G[i + 1] - self.G[i] for i in range(len(self.G) - 1)]
        return S, Y


# ---------------------------------------------------------------------------
# generalized Cauchy point (Byrd, Lu, Nocedal 1995, section 4)
# ---------------------------------------------------------------------------
def model_value(B, g, x, z):
    d = z - x
    return float(g @ d + 0.5 * d @ (B @ d))


def model_tol(B, g, x, z, rel=1e-10):
    """Tolerance for comparing model values at z: relative part + the rounding floor of forming z - x."""
    d = np.abs(z - x)
    mscale = float(np.abs(g) @ d + 0.5 * d @ np.abs(B) @ d)
    floor = 8 * EPS * float((np.abs(g) + np.abs(B) @ d) @ (np.abs(x) + np.abs(z)))
    return rel * mscale + floor + 1e-300


def ref_gcp(x, g, lb, ub, B):
    """First local minimiser of the model along P(x - t g).

    Returns dict(xcp, tstar, t, pinned (bool mask: breakpoint strictly before tstar),
    near (bool mask: breakpoint within 1e-10 relative of tstar), crossed (#breakpoints
    passed)).
    """
    n = x.size
    t = np.full(n, np.inf)
    for i in range(n):
        if g[i] < 0 and np.isfinite(ub[i]):
            t[i] = (x[i] - ub[i]) / g[i]
        elif g[i] > 0 and np.isfinite(lb[i]):
            t[i] = (x[i] - lb[i]) / g[i]
    d = np.where(t > 0, -g, 0.0)
    bps = sorted(set(t[(t > 0) & np.isfinite(t)].tolist()))
    z = np.zeros(n)
    told = 0.0
    tstar = None
    crossed = 0
    fpp_first = None
    last = dict(fpp=None, dt=0.0, dmax=0.0)
    knife = False  # a stop-or-continue decision taken within 1e-9 (relative) of its threshold
    fp_hist = 0.0  # largest magnitude f' has had on the segments walked so far
    for tb in bps + [np.inf]:
        fp = float(g @ d + d @ (B @ z))
        fpp = float(d @ (B @ d))
        if fpp_first is None:
            fpp_first = fpp
        if np.any(d != 0) and crossed > 0 and abs(fp) <= 1e3 * EPS * fp_hist:
            # an implementation that updates f' from segment to segment (as Algorithm CP does) knows it to a few eps of the largest
            # value it has had: a slope below that is of undecidable sign, stop-or-continue is then decided by rounding
            knife = True
        fp_hist = max(fp_hist, abs(fp))
        if np.any(d != 0) and abs(fp) <= 1e-9 * (abs(float(g @ d)) + abs(float(d @ (B @ z)))):
            knife = True
        if fp >= 0 or not np.any(d != 0):
            tstar = told
            last = dict(fpp=fpp, dt=0.0, dmax=float(np.max(np.abs(d))) if d.size else 0.0)
            break
        dtmin = -fp / fpp if fpp > 0 else np.inf
        if np.isfinite(tb) and np.isfinite(dtmin) and abs(dtmin - (tb - told)) <= 1e-9 * max(dtmin, tb - told):
            knife = True
        if dtmin < tb - told:
            z = z + dtmin * d
            tstar = told + dtmin
            last = dict(fpp=fpp, dt=dtmin, dmax=float(np.max(np.abs(d))))
            break
        if not np.isfinite(tb):
            raise RuntimeError("model unbounded along the projected path")
        z = z + (tb - told) * d
        for i in range(n):
            if t[i] == tb:
                z[i] = (ub[i] if g[i] < 0 else lb[i]) - x[i]
                d[i] = 0.0
        told = tb
        crossed += 1
    xcp = x + z
    # variables whose breakpoint was crossed sit exactly on that bound (x + (bound - x) is only equal to it up to rounding)
    for i in range(n):
        if np.isfinite(t[i]) and 0 < t[i] <= told and d[i] == 0.0 and t[i] > 0:
            xcp[i] = ub[i] if g[i] < 0 else lb[i]
    xcp = np.minimum(np.maximum(xcp, lb), ub)
    fin = np.isfinite(t)
    scale = max(tstar, 1e-300)
    near = fin & (np.abs(t - tstar) <= 1e-10 * max(scale, 1.0) + 1e-10 * np.where(fin, np.abs(t), 0))
    pinned = fin & (t < tstar) & ~near
    # exact pin for the pinned ones (reference itself is exact there)
    for i in range(n):
        if pinned[i] or (t[i] == 0):
            pass
    # rounding amplification of an implementation that updates f' and f'' incrementally (as Algorithm CP does):
    # both start at the size of the full direction and end at the size of the last segment's direction
    accum = float(g @ g + np.abs(g) @ (np.abs(B) @ np.abs(z)))
    if last["fpp"] is not None and last["fpp"] > 0:
        amp = EPS * ((fpp_first or 0.0) / last["fpp"] * abs(last["dt"]) + accum / last["fpp"]) * last["dmax"]
    else:
        amp = 0.0
    return dict(xcp=xcp, z=z, tstar=tstar, t=t, pinned=pinned, near=near, crossed=crossed, cancellation=amp, knife=knife)


def ref_subspace(x, xc, g, lb, ub, B, r_full=None):
    """Direct primal method of section 5.1: reduced Newton step from xc on the
    variables strictly inside the box at xc, truncated to the box.
    r_full: the model gradient at xc when the caller has it from another source (the auxiliary vector handed over with xc)."""
    free = np.nonzero((xc != lb) & (xc != ub))[0]
    if free.size == 0:
        return dict(xbar=xc.copy(), alpha=1.0, free=free, cond=1.0, dhat=np.zeros(0))
    r = (g + B @ (xc - x))[free] if r_full is None else np.asarray(r_full, dtype=float)[free]
    Bff = B[np.ix_(free, free)]
    dhat = -np.linalg.solve(Bff, r)
    alpha = 1.0
    for k, i in enumerate(free):
        if dhat[k] > 0 and np.isfinite(ub[i]):
            alpha = min(alpha, (ub[i] - xc[i]) / dhat[k])
        elif dhat[k] < 0 and np.isfinite(lb[i]):
            alpha = min(alpha, (lb[i] - xc[i]) / dhat[k])
    xbar = xc.copy()
    xbar[free] = xc[free] + alpha * dhat
    return dict(xbar=xbar, alpha=alpha, free=free, cond=float(np.linalg.cond(Bff)), dhat=dhat)


# ---------------------------------------------------------------------------
# derivatives
# ---------------------------------------------------------------------------
def richardson_grad(f, x, h0=0.02, levels=5):
    """Richardson-extrapolated central differences (error O(h^(2*levels)))."""
    x = np.asarray(x, dtype=float)
    out = np.zeros(x.size)
    for i in range(x.size):
        T = np.zeros((levels, levels))
        for k in range(levels):
            h = h0 / (2**k)
            e = np.zeros(x.size)
            e[i] = h
            T[k, 0] = (f(x + e) - f(x - e)) / (2 * h)
            for j in range(1, k + 1):
                T[k, j] = T[k, j - 1] + (T[k, j - 1] - T[k - 1, j - 1]) / (4**j - 1)
        out[i] = T[levels - 1, levels - 1]
    return out


def max_feasible_step(x, d, lb, ub, cap):
    """Largest a in [0, cap] with lb <= x + a d <= ub (exact arithmetic idealisation,
    evaluated in floating point)."""
    a = cap
    for i in range(x.size):
        if d[i] > 0 and np.isfinite(ub[i]):
            a = min(a, (ub[i] - x[i]) / d[i])
        elif d[i] < 0 and np.isfinite(lb[i]):
            a = min(a, (lb[i] - x[i]) / d[i])
    return a
