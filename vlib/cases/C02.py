"""C02 - every evaluated, reported and returned point lies inside the box, exactly."""

from __future__ import annotations

import numpy as np

from .. import e2e, gen, probes
from ..common import Outcome, subseed

LEVEL = "exploration"
RULE = ("one case = one run of minimize_lbfgsb: family from all 14 (convex, non-convex, benchmark-like), n 1..8, boxes with emphasis on "
        "narrow / degenerate sides, feasible start (interior/face/vertex/outward), gradient mode in {callable, None, 2-point, 3-point, cs}, "
        "maxcor 1..10, maxls in {1..20}, maxiter 1..40, maxfun 2..15000, callback recording every iterate. Every argument received by the "
        "objective (stencil points included) and gradient, every callback xk / state.x and result.x is compared exactly with the box. "
        "Non-trivial = run with >=1 evaluation after the first whose point has a component exactly on a finite bound; distinct = distinct specs")
ASSUMPTIONS = ["exact comparisons lb <= Re(x) <= ub, NaN fails; complex arguments allowed only in 'cs' mode"]
MODES = ("callable", "callable", None, "2-point", "3-point", "cs")
BOXES = ("mixed", "mixed", "boxed", "narrow", "narrow", "lower", "upper", "boxed_degenerate", "boxed_degenerate", "nonneg", "unit", "zero_mixed", "nonpos")


def floors(tier):
    return {"runs": 500, "points_checked": 5000, "evaluations_with_component_on_bound": 1500, "fd_runs": 150, "runs_with_bounds_object_edited_in_place": 60, "runs_with_nested_run": 60, "nested_runs": 100,
            "runs_with_low_precision_start": 80, "restart_legs": 300, "runs_started_a_few_ulp_inside_bounds_with_an_extrapolating_search": 80, "runs_in_25_to_60_dimensions_with_memory_above_10": 100, "restart_legs_on_a_box_re-entered_with_last_digit_differences": 60, "runs_with_user_step_cap": 200, "runs_on_boxes_of_magnitude_1e20_and_more": 50, "runs_with_user_functions_working_in_place_on_their_argument": 80, "__nontrivial__": 200}


def cases(tier, seed):
    rng = np.random.default_rng(subseed("C02", seed))
    nrun = 3000 if tier == "quick" else 60000
    for i in range(nrun):
        ps = gen.rand_spec(rng, gen.ALL_FAMILIES + ("exp_wall", "exp_wall", "qp_inf_region", "flat"), nmax=8, boxes=BOXES + ("all_fixed",), starts=("interior", "face", "vertex", "outward"))
        cfg = e2e.rand_cfg(rng)
        cfg["jac"] = gen.pick(rng, list(MODES))
        if i % 12 == 11:
            # scale: dimensions and memories larger than the bulk of the cases
            ps["n"] = int(rng.integers(25, 61))
            cfg["maxcor"] = int(rng.integers(11, 31))
            cfg["maxiter"] = int(rng.integers(20, 80))
        cfg["eps"] = float(gen.pick(rng, [1e-8, 1e-6]))
        cfg["finite_diff_rel_step"] = gen.pick(rng, [None, None, 1e-7])
        cfg["cb"] = "never"
        e2e.vary_rare_parameters(rng, cfg)
        if i % 4 == 2:
            cfg["eps_SY"] = float(gen.pick(rng, [0.0, 1e-300, 1e-300, 1e-40]))  # a curvature threshold far below machine precision (no business of the box)
        if i % 8 == 3:
            cfg["x0_dtype"] = str(gen.pick(rng, ["float32", "float32", "float16"]))  # a start vector of lower precision
        if i % 5 == 1:
            cfg["max_steplength"] = float(gen.pick(rng, [0.3, 1.0, 1.0, 2.0]))  # the user's cap on the step length
        if i % 7 == 5 and cfg["jac"] != "cs":
            cfg["hostile_user"] = True  # the user's functions work in place on the array they are handed (and leave garbage in it)
        spec = {"problem": ps, "cfg": cfg, "edit_bounds": bool(i % 6 == 0)}
        if i % 2 == 0:
            # the run is continued from its result, with a gradient scaler and a demanding curvature test on the restart leg
            spec["restart"] = {"scaler": float(np.exp(rng.uniform(np.log(1e-3), np.log(1e3)))), "extra": int(rng.integers(1, 6)),
                               "eps_SY": float(gen.pick(rng, [2.2e-16, 0.3, 0.3, 0.5])), "shifted_box": bool(i % 6 == 2)}
        if i % 10 == 7:
            # another optimisation (same n, another box, finite differences) runs nested inside the objective
            spec["nested"] = {"problem": gen.rand_spec(rng, ("qp", "sphere", "quartic"), nmax=8, boxes=("none", "mixed", "lower", "upper", "boxed"),
                                                       starts=("interior", "face")),
                              "jac": gen.pick(rng, [None, "2-point", "3-point"]), "at": [0, int(rng.integers(1, 6)), int(rng.integers(6, 30))]}
            spec["nested"]["problem"]["n"] = ps["n"]
            if cfg["jac"] in ("callable", "cs"):
                cfg["jac"] = gen.pick(rng, [None, "2-point", "3-point"])
        yield spec
    for i in range(150 if tier == "quick" else 4000):
        cfg = e2e.rand_cfg(rng)
        cfg["jac"] = gen.pick(rng, ["callable", "callable", None, "2-point"])
        cfg["cb"] = "never"
        yield {"problem": {"n": int(rng.integers(1, 4)), "seed": int(rng.integers(0, 2**31 - 1))}, "cfg": cfg, "huge": True, "edit_bounds": False}
    for i in range(1800 if tier == "quick" else 30000):
        # long runs inside two-sided boxes from interior starts under a curvature threshold far below machine precision: many iterations
        # whose step is cut by a bound (the line search then works at the end of its feasible interval)
        ps = gen.rand_spec(rng, ("qp", "qp_quartic", "oscillating", "rastrigin", "styblinski_tang"), nmax=8, nmin=2, boxes=("boxed", "boxed", "narrow", "unit"), starts=("interior",))
        yield {"problem": ps, "edit_bounds": False,
               "cfg": {"jac": "callable", "maxcor": int(rng.integers(1, 11)), "maxls": 20, "maxiter": 100, "maxfun": 15000, "ftol": 0.0, "gtol": 1e-9, "cb": "never",
                       "eps_SY": float(gen.pick(rng, [0.0, 1e-300, 1e-300, 1e-40]))}}
    for i in range(1200 if tier == "quick" else 30000):
        # searches limited to two or three trials inside boxes: the last trial allowed is often neither the first nor a converged one
        ps = gen.rand_spec(rng, gen.ALL_FAMILIES, nmax=8, nmin=1, boxes=("boxed", "narrow", "mixed", "lower", "upper", "unit"), starts=("interior", "face", "vertex", "outward"))
        yield {"problem": ps, "edit_bounds": False,
               "cfg": {"jac": gen.pick(rng, ["callable", "callable", "callable", "2-point"]), "maxcor": int(rng.integers(1, 11)), "maxls": int(gen.pick(rng, [2, 2, 2, 3])),
                       "maxiter": int(rng.integers(5, 40)), "maxfun": 15000, "ftol": 0.0, "gtol": 1e-9, "cb": "never"}}
    for i in range(150 if tier == "quick" else 4000):
        cfg = e2e.rand_cfg(rng)
        cfg.update(jac="callable", cb="never", maxls=20, maxiter=int(rng.integers(3, 25)), maxfun=15000)
        yield {"problem": {"n": int(rng.integers(2, 6)), "seed": int(rng.integers(0, 2**31 - 1))}, "cfg": cfg, "ulp_pin": True, "edit_bounds": False}


def make_ulp_pin_problem(spec):
    """f(a, y) = -(w.a) y - y + exp(-y) on 0 <= a_i <= U_i, -100 <= y <= 100, started with every a_i a few units in the last place
    inside a bound and y = 0 (where df/da = 0): the a_i do not move in the first iteration; from the second on the Cauchy point pins
    them on their bound (a displacement of a few ulp) while y takes a step of several units along which the objective is almost
    linear, so the line search extrapolates beyond the unit step."""
    rng = np.random.default_rng(spec["seed"])
    n = spec["n"]
    U = np.round(rng.uniform(0.5, 3.0, n - 1), 2)
    w = rng.uniform(0.3, 2.0, n - 1)
    up = rng.random(n - 1) < 0.7  # pushed towards the upper bound (w_i > 0) or, mirrored, towards the lower one
    lb = np.append(np.where(up, 0.0, -U), -100.0)
    ub = np.append(np.where(up, U, 0.0), 100.0)
    sg = np.where(up, 1.0, -1.0)
    k = rng.integers(1, 4, n - 1)
    a0 = sg * U
    for _ in range(3):
        a0 = np.where(k > 0, np.nextafter(a0, 0.0), a0)
        k = k - 1
    x0 = np.append(a0, 0.0)

    def f(x):
        a, y = x[:-1], x[-1]
        return float(-(w @ (sg * a)) * y - y + np.exp(-y))

    def g(x):
        a, y = x[:-1], x[-1]
        return np.append(-w * sg * y, -(w @ (sg * a)) - 1.0 - np.exp(-y))

    return gen.Problem(dict(family="ulp_pin", n=n, seed=spec["seed"], box="boxed", start="ulp_inside"), n, f, g, lb, ub, x0, dict(convex=False))


def make_huge_box_problem(spec):
    """Nearly linear objective pushing the variables onto finite bounds of magnitude 1e20..1e22 from a start close to them (in relative
    terms): a finite bound is a bound whatever its size."""
    rng = np.random.default_rng(spec["seed"])
    n = spec["n"]
    U = rng.choice([1e20, 3e20, 1e21, 1e22], n)
    sgn = rng.choice([-1.0, 1.0], n)
    r = np.exp(rng.uniform(np.log(1e-6), np.log(0.3), n))
    lb = np.where(sgn > 0, 0.0, -U)
    ub = np.where(sgn > 0, U, 0.0)
    x0 = sgn * U * (1.0 - r)
    c = -sgn * U * r * np.exp(rng.uniform(0.5, 3.0, n))  # one unit step along -c goes beyond the bound
    if spec["seed"] % 2:
        # or covers a hundredth to a third of the way only: the bound is reached after several iterations whose line search extrapolates
        # along the (nearly linear) descent and is cut by the bound in the end
        c = -sgn * U * r * np.exp(rng.uniform(-5.0, -1.0, n))
    q = 1e-3 * np.abs(c) / U

    def f(x):
        return float(c @ x + 0.5 * np.sum(q * x * x))

    def g(x):
        return c + q * x

    return gen.Problem(dict(family="huge_box", n=n, seed=spec["seed"], box="huge", start="near_bound"), n, f, g, lb, ub, x0, dict(convex=True))


def run(spec):
    out = Outcome()
    if spec.get("ulp_pin"):
        P = make_ulp_pin_problem(spec["problem"])
        out.count("runs_started_a_few_ulp_inside_bounds_with_an_extrapolating_search")
    elif spec.get("huge"):
        P = make_huge_box_problem(spec["problem"])
        out.count("runs_on_boxes_of_magnitude_1e20_and_more")
    else:
        P = gen.make_problem(spec["problem"])
    cfg = dict(spec["cfg"])
    if cfg["jac"] == "cs" and not e2e.cs_capable(P):
        cfg["jac"] = "3-point"
    hooks = {}
    tags = dict(family=P.spec["family"], mode=str(cfg["jac"]))
    if spec.get("nested"):
        Q = gen.make_problem(spec["nested"]["problem"])
        qcfg = dict(jac=spec["nested"]["jac"], maxcor=3, maxiter=3, maxfun=200, cb="never")

        def on_f(i, x):
            if i in spec["nested"]["at"] and not out.violations:
                inner = probes.run_min(Q, qcfg)
                out.count("nested_runs")
                e2e.mon_box(out, Q, inner, qcfg["jac"], dict(tags, phase="run_nested_inside_the_objective"))

        hooks["on_f"] = on_f
    tr = probes.run_min(P, cfg, hooks=hooks)
    if spec.get("nested"):
        tags = dict(tags, phase="outer_run_with_a_nested_run_inside_its_objective")
        out.count("runs_with_nested_run")
    if cfg.get("x0_dtype"):
        out.count("runs_with_low_precision_start")
    nb = e2e.mon_box(out, P, tr, cfg["jac"], tags)
    out.count("runs")
    if P.n >= 25:
        out.count("runs_in_25_to_60_dimensions_with_memory_above_10")
    if cfg["jac"] != "callable":
        out.count("fd_runs")
    if tr.exc is not None:
        out.count("runs_raised")
        out.count("raised:" + type(tr.exc).__name__)
    if cfg.get("max_steplength") is not None:
        out.count("runs_with_user_step_cap")
    if cfg.get("hostile_user"):
        out.count("runs_with_user_functions_working_in_place_on_their_argument")
    if spec.get("restart") and tr.result is not None and not out.violations:
        rs = spec["restart"]
        c2 = dict(cfg, maxiter=int(tr.result.nit) + rs["extra"], scaler=rs["scaler"], eps_SY=rs["eps_SY"], cb="never")
        c2.pop("x0_dtype", None)
        leg = probes.run_min(P, c2, checkpoint=tr.result, x0=np.array(tr.result.x, dtype=float, copy=True))
        out.count("restart_legs")
        e2e.mon_box(out, P, leg, cfg["jac"], dict(tags, phase="restart_leg_with_gradient_scaler"))
    if spec.get("restart", {}).get("shifted_box") and tr.result is not None and not out.violations:
        # the continuation is asked for on a box whose active sides were re-entered with a last-digit difference (bounds computed another
        # way: 0.3 vs 3*0.1), from the checkpoint's point projected on it. The call may be refused; whatever it evaluates, reports or
        # returns must lie in the box it was given
        xs = np.array(tr.result.x, dtype=float)
        P2 = make_ulp_pin_problem(spec["problem"]) if spec.get("ulp_pin") else (gen.make_problem(spec["problem"]) if not spec.get("huge") else make_huge_box_problem(spec["problem"]))
        two = P.lb < P.ub
        P2.lb = np.where(two & (xs == P.lb) & np.isfinite(P.lb), np.nextafter(P.lb, np.inf), P.lb)
        P2.ub = np.where(two & (xs == P.ub) & np.isfinite(P.ub), np.nextafter(P.ub, -np.inf), P.ub)
        P2.bounds = np.column_stack([P2.lb, P2.ub])
        if np.all(P2.lb <= P2.ub) and (np.any(P2.lb != P.lb) or np.any(P2.ub != P.ub)):
            x2 = np.clip(xs, P2.lb, P2.ub)
            for extra in (0, spec["restart"]["extra"]):
                c3 = dict(cfg, maxiter=int(tr.result.nit) + extra, cb="never")
                c3.pop("x0_dtype", None)
                c3.pop("hostile_user", None)
                leg = probes.run_min(P2, c3, checkpoint=tr.result, x0=x2.copy())
                out.count("restart_legs_on_a_box_re-entered_with_last_digit_differences")
                if leg.exc is not None:
                    out.count("restart_legs_refused:" + type(leg.exc).__name__)
                e2e.mon_box(out, P2, leg, cfg["jac"], dict(tags, phase="restart_leg_on_a_box_differing_in_the_last_digit"))
                if out.violations:
                    break
    # second call with the SAME bounds array, tightened in place by the user (freeze a variable at its current value,
    # shrink the others around the solution): every point of the second run must respect the box as it is now
    if spec.get("edit_bounds") and tr.result is not None and not out.violations:
        barr = P.bounds.copy()
        first = probes.run_min(P, cfg, hooks={"bounds_obj": barr})
        if first.result is not None:
            xs = np.array(first.result.x, dtype=float)
            lo = np.where(np.isfinite(P.lb), P.lb, xs - 2.0)
            hi = np.where(np.isfinite(P.ub), P.ub, xs + 2.0)
            barr[:, 0] = np.maximum(lo, xs - 0.25 * (hi - lo))
            barr[:, 1] = np.minimum(hi, xs + 0.25 * (hi - lo))
            barr[0, :] = xs[0]  # one variable frozen where it is
            P2 = gen.make_problem(spec["problem"])
            P2.lb, P2.ub = barr[:, 0].copy(), barr[:, 1].copy()
            P2.bounds = np.column_stack([P2.lb, P2.ub])
            P2.x0 = np.clip(xs + 0.1 * (P2.ub - P2.lb), P2.lb, P2.ub)
            second = probes.run_min(P2, cfg, hooks={"bounds_obj": barr}, x0=P2.x0)
            out.count("runs_with_bounds_object_edited_in_place")
            e2e.mon_box(out, P2, second, cfg["jac"], dict(tags, phase="after_in_place_edit_of_the_bounds_array"))
    out.nontrivial = bool(nb)
    out.key = f"{P.spec['family']}/{P.n}/{P.spec['seed']}/{cfg['jac']}/{cfg['maxcor']}/{cfg['maxls']}"
    out.sample = dict(spec=spec, lb=P.lb, ub=P.ub, x0=P.x0, evaluations=len(tr.evals), on_bound=nb,
                      message=None if tr.result is None else tr.result.message, raised=repr(tr.exc) if tr.exc else None)
    return out


def selftest():
    from scipy.optimize import OptimizeResult

    res = []
    P = gen.make_problem({"family": "qp", "n": 2, "seed": 1, "cond": 10.0, "box": "boxed", "start": "interior"})
    tr = probes.Trace()
    p = P.x0.copy()
    p[0] = np.nextafter(P.ub[0], np.inf)
    tr.evals = [("f", P.x0.copy(), 0.0), ("f", p, 0.0)]
    tr.result = OptimizeResult(x=P.x0.copy())
    o = Outcome()
    e2e.mon_box(o, P, tr, "callable", {})
    res.append(("flags a point one ulp outside the box", any(v["mech"] == "point_outside_box" for v in o.violations)))
    tr.evals = [("f", P.x0.copy(), 0.0), ("f", np.array([np.nan, P.x0[1]]), 0.0)]
    o = Outcome()
    e2e.mon_box(o, P, tr, "callable", {})
    res.append(("flags NaN", bool(o.violations)))
    tr.evals = [("f", P.x0.copy(), 0.0), ("f", P.ub.copy(), 0.0)]
    o = Outcome()
    e2e.mon_box(o, P, tr, "callable", {})
    res.append(("silent on points on the bounds", not o.violations))
    return res
