"""C09 - subspace minimisation returns the box-truncated Newton point of the model.

Synthetic inputs isolate the routine from C08: the Cauchy point and the auxiliary
vector fed to it come from the *reference* GCP.  Intercepted calls inside real runs
are judged too (events whose inputs are already inconsistent are attributed upstream
and skipped, counted).
"""

from __future__ import annotations

import numpy as np

from .. import gen, probes
from ..common import Outcome, digest, subseed
from ..oracles import has_pairs, EPS, dense_from_compact, middle_cond, model_tol, model_value, ref_gcp, ref_subspace
from .C08 import VARP, build_pattern_input, make_memory

LEVEL = "exploration"
RULE = ("synthetic: structural patterns (n<=2 quick, n<=3 thorough sampled) and random inputs n 1..10, memory 0..maxcor pairs, "
        "x_cp and c taken from the reference Cauchy point; plus every subspace_minimization call intercepted in real runs. "
        "Oracle: dense reduced Newton step on the variables strictly inside the box at x_cp, largest alpha<=1 keeping the box. "
        "Non-trivial = some-free partition with a binding truncation (alpha*<1); distinct = distinct inputs (hash)")
ASSUMPTIONS = [
    "point tolerance scale*max(1e-9, 5e4*(cond(Z'BZ)+cond(middle matrix))*eps; 1e-4*scale when more pairs than free variables are stored (singular compact system)) (largest observed ratio reported in maxima); inputs with cond(B) > 1e8 or cond(middle matrix) > 1e12 skipped and counted",
    "feasibility of the returned point is exact (it was tolerated to 8 ulp until the repository projected the point, fix b3344a3)",
    "intercepted events whose auxiliary vector disagrees with W^T(x_cp-x) or whose x is infeasible are attributed upstream and skipped",
]
KMAX = 1e8
PT_TOL = 1e-9


def floors(tier):
    return {"judged": 3000, "partition_none_free": 50, "partition_some_free": 1000, "partition_all_free": 300,
            "binding_truncation": 300, "intercepted_calls": 300, "inputs_with_idle_free_variables": 300, "inputs_in_tiny_length_units_with_memory": 150, "restarted_runs": 20, "restarted_runs_with_gradient_scaler": 8, "restarted_runs_from_a_checkpoint_whose_iteration_counter_was_reset": 6, "runs_with_single_precision_gradient": 10, "inputs_with_single_precision_gradient_array": 300, "inputs_served_by_the_matrices_object_of_the_previous_call": 600, "inputs_whose_memory_was_built_under_a_curvature_threshold_of_one_half_and_more": 150, "inputs_with_a_tiny_step_component_limiting_the_truncation": 150, "runs_with_callback_editing_the_state_pairs": 20, "runs_with_optimisation_nested_in_the_callback": 20, "descent_checked": 2000, "__nontrivial__": 250}


def judge_subspace(out, x, xc, g, lb, ub, B, xbar, where, tags, mats=None, c=None):
    n = x.size
    kappa = float(np.linalg.cond(B))
    if not np.isfinite(kappa) or kappa > KMAX:
        out.count("skipped_ill_conditioned")
        return None
    kmid = middle_cond(mats) if mats is not None else 1.0
    if kmid > 1e12:
        out.count("skipped_ill_conditioned_memory")  # more (or dependent) pairs than variables
        return None
    r_full = None
    if c is not None and mats is not None and has_pairs(mats):
        # "given the Cauchy point": the model gradient there as the auxiliary vector handed over with it defines it,
        # g + theta (xc - x) - W M c (identical to g + B (xc - x) when c = W^T (xc - x); in a run c carries the rounding of the
        # Cauchy search, which works in the precision of the gradient array the user returned)
        from lbfgsb.bfgsmats import bmv

        r_full = g + mats.theta * (xc - x) - mats.W @ bmv(mats.invMfactors, np.asarray(c, dtype=float))
    ref = ref_subspace(x, xc, g, lb, ub, B, r_full=r_full)
    out.count("judged")
    free = ref["free"]
    if free.size == 0:
        out.count("partition_none_free")
    elif free.size == n:
        out.count("partition_all_free")
    else:
        out.count("partition_some_free")
    xbar = np.asarray(xbar, dtype=float)
    if xbar.shape != x.shape or not np.all(np.isfinite(xbar)):
        out.violate("subspace_point_not_finite", f"{where}: {xbar!r}", **tags)
        return ref
    active = np.ones(n, dtype=bool)
    active[free] = False
    if not np.array_equal(xbar[active], xc[active]):
        i = int(np.nonzero(active & (xbar != xc))[0][0])
        out.violate("active_variable_moved", f"{where}: variable {i} is on a bound at x_cp ({xc[i]!r}) but xbar[{i}]={xbar[i]!r}", **tags)
        return ref
    # exact: "truncated by the largest factor <= 1 that keeps the point in the box" (one ulp outside a bound on which a variable rests
    # gives the line search a zero maximum step; repository fix b3344a3)
    slack = 0.0
    if np.any(xbar < lb - slack) or np.any(xbar > ub + slack):
        i = int(np.argmax((xbar < lb - slack) | (xbar > ub + slack)))
        out.violate("subspace_point_outside_box", f"{where}: xbar[{i}]={xbar[i]!r} outside [{lb[i]!r},{ub[i]!r}]", **tags)
        return ref
    if ref["alpha"] < 1.0:
        out.count("binding_truncation")
    scale = max(1.0, float(np.max(np.abs(x))), float(np.max(np.abs(ref["xbar"] - x))))
    err = float(np.max(np.abs(xbar - ref["xbar"])))
    npairs = int(mats.S.shape[1]) if (mats is not None and has_pairs(mats)) else 0
    if npairs > free.size > 0:
        # more pairs than free variables: the 2m x 2m system the routine factorises is singular in exact arithmetic
        # (S^T Y restricted to the free variables has rank <= #free); only rounding-level accuracy relative to that
        # singular system can be expected. Judged with a loose tolerance and reported separately.
        out.count("rank_deficient_memory_inputs")
        out.maxi("max_point_err_over_scale_rank_deficient", err / scale)
        tol = scale * max(1e-4, 5e4 * (ref["cond"] + kmid) * EPS)  # never tighter than the conditioning-based tolerance of the regular case
    else:
        tol = scale * max(PT_TOL, 5e4 * (ref["cond"] + kmid) * EPS)
        out.maxi("max_point_err_over_scale_kappa_eps", err / (scale * (max(ref["cond"], 1.0) + kmid) * EPS))
    if not (err <= tol):
        out.violate("subspace_point_differs", f"{where}: xbar={xbar.tolist()} but truncated reduced Newton point is {ref['xbar'].tolist()} "
                    f"(alpha*={ref['alpha']!r}, free={free.tolist()}, err {err:.3e}); x={x.tolist()} xc={xc.tolist()} g={g.tolist()} "
                    f"lb={lb.tolist()} ub={ub.tolist()}", **tags)
        return ref
    m_c = model_value(B, g, x, xc)
    m_b = model_value(B, g, x, xbar)
    if not (m_b <= m_c + model_tol(B, g, x, xbar) + model_tol(B, g, x, xc)):
        out.violate("model_increase", f"{where}: m(xbar)={m_b!r} > m(x_cp)={m_c!r}", **tags)
        return ref
    return ref


def check_descent(out, x, g, lb, ub, xbar, where, tags, consistent_cp):
    """g^T (xbar - x) < 0 whenever the projected gradient is non-zero (and the Cauchy point is the true one)."""
    if not consistent_cp:
        return
    if gen.pg_inf(x, g, lb, ub) > 0:
        out.count("descent_checked")
        sl = float(g @ (xbar - x))
        # the slope is a sum of products g_i*(xbar_i - x_i) whose terms are known to eps*|g_i|*(|x_i| + |xbar_i|) each: a
        # non-negative value below that resolution (an iterate converged to rounding in the free variables, a huge gradient on
        # the fixed ones) is not a sign
        floor = 64 * EPS * float(np.abs(g) @ (np.abs(x) + np.abs(xbar)))
        if not (sl < 0) and sl <= floor:
            out.count("slope_within_rounding_of_zero")
            return
        if not (sl < 0):
            out.violate("not_a_descent_direction", f"{where}: g.(xbar-x)={sl!r} with non-zero projected gradient; x={x.tolist()} g={g.tolist()} xbar={np.asarray(xbar).tolist()}", **tags)


def call_subspace(x, xc, c, g, lb, ub, mats):
    from lbfgsb.subspacemin import get_freev, subspace_minimization

    free_vars, Z, A = get_freev(xc.copy(), lb, ub, 1, None, -1, None)
    return subspace_minimization(x.copy(), xc.copy(), free_vars, Z, A, np.array(c, copy=True), g.copy(), lb.copy(), ub.copy(), mats)


def synthetic_input(out, keys, x, g, lb, ub, mats, B, where, tags):
    g_given, g = g, np.asarray(g, dtype=float)  # the reference works in double precision on the values it was given
    if not (gen.pg_inf(x, g, lb, ub) > 0):
        out.count("skipped_zero_projection")
        return
    try:
        r = ref_gcp(x, g, lb, ub, B)
    except RuntimeError:
        out.count("skipped_unbounded_model")
        return
    xc = r["xcp"].copy()
    # snap variables the reference pinned exactly (x + z may be off by an ulp)
    for i in range(x.size):
        if np.isfinite(r["t"][i]) and r["t"][i] <= r["tstar"] and r["t"][i] > 0:
            xc[i] = ub[i] if g[i] < 0 else lb[i]
    xc = np.clip(xc, lb, ub)
    c = mats.W.T @ r["z"] if has_pairs(mats) else np.zeros(mats.W.shape[1])
    try:
        xbar = call_subspace(x, xc, c, g_given, lb, ub, mats)
    except Exception as e:
        out.violate("subspace_raised", f"{where}: {e!r}; x={x.tolist()} xc={xc.tolist()} g={g.tolist()} lb={lb.tolist()} ub={ub.tolist()}", **tags)
        return
    ref = judge_subspace(out, x, xc, g, lb, ub, B, xbar, where, tags, mats=mats)
    if ref is not None and not out.violations:
        check_descent(out, x, g, lb, ub, xbar, where, tags, True)
        if 0 < ref["free"].size < x.size and ref["alpha"] < 1.0:
            keys.add(digest(x, g, lb, ub, B))


def hair_input(out, keys, rng, n, mats, B, idle, where, tags):
    """Mixed scales in the step: a free variable the memory does not couple to the others (zero rows in S, Y) sits a few units in the
    last place inside a small bound and its exact Newton component - tiny next to the steps of the other variables - points at that
    bound and is `c` times the gap: the truncation factor is 1/c, whatever the size of the other components. The routine is given an
    arbitrary feasible Cauchy point with its auxiliary vector (the statement starts from "given the Cauchy point")."""
    i = int(idle[0])
    lb, ub = gen.rand_box(rng, n, gen.pick(rng, ["none", "mixed", "boxed", "lower", "upper"]))
    x = gen.rand_x0(rng, lb, ub, "interior")
    xc = np.clip(x + 0.3 * rng.standard_normal(n), lb, ub)
    for j in range(n):
        if j != i and rng.random() < 0.25 and np.isfinite(lb[j]):
            xc[j] = lb[j]
    b = float(np.exp(rng.uniform(np.log(1e-6), np.log(1e-2)))) * float(rng.choice([-1.0, 1.0]))
    up = bool(rng.random() < 0.5)
    k = int(rng.integers(1, 6))
    inside = b
    for _ in range(k):
        inside = np.nextafter(inside, -np.inf if up else np.inf)
    lb[i], ub[i] = (b - 1.0, b) if up else (b, b + 1.0)
    x[i] = xc[i] = inside
    gap = abs(b - inside)
    c = float(rng.uniform(2.0, 12.0))
    theta = float(mats.theta)
    free = np.nonzero((xc != lb) & (xc != ub))[0]
    # choose the model gradient at xc on the free variables through the step wanted there: O(1) on the others, c*gap towards the bound on i
    dhat = rng.standard_normal(free.size) * np.exp(rng.uniform(-1, 1))
    r = np.zeros(n)
    r[free] = -B[np.ix_(free, free)] @ dhat
    g = r - B @ (xc - x)
    g[i] = -theta * (c * gap) * (1.0 if up else -1.0)  # row i of B is theta e_i: dhat_i = -g_i / theta exactly (xc_i == x_i)
    cvec = mats.W.T @ (xc - x) if has_pairs(mats) else np.zeros(mats.W.shape[1])
    try:
        xbar = call_subspace(x, xc, cvec, g, lb, ub, mats)
    except Exception as e:
        out.violate("subspace_raised", f"{where}: {e!r}", **tags)
        return
    out.count("inputs_with_a_tiny_step_component_limiting_the_truncation")
    ref = judge_subspace(out, x, xc, g, lb, ub, B, xbar, where, tags, mats=mats, c=cvec)
    if ref is not None and ref["alpha"] < 1.0:
        out.count("inputs_whose_truncation_is_set_by_a_component_below_eps_times_the_largest")
        keys.add(digest(x, g, lb, ub, B))


def cases(tier, seed):
    import itertools

    nmax = 2
    for n in range(1, nmax + 1):
        total = len(VARP) ** n
        chunk = 48
        for off in range(0, total, chunk):
            yield {"kind": "patterns", "n": n, "offset": off, "count": chunk, "seed": subseed("C09p", seed, n, off) % (2**31)}
    if tier == "thorough":
        total = len(VARP) ** 3
        for off in range(0, total, 48):
            yield {"kind": "patterns", "n": 3, "offset": off, "count": 48, "seed": subseed("C09p", seed, 3, off) % (2**31)}
    nr = 250 if tier == "quick" else 8000
    for i in range(nr):
        yield {"kind": "random", "seed": subseed("C09r", seed, i) % (2**31), "count": 20}
    nruns = 400 if tier == "quick" else 8000
    rng = np.random.default_rng(subseed("C09runs", seed))
    fams = ("qp", "qp_quartic", "qp_softplus", "rosenbrock", "styblinski_tang", "rastrigin", "oscillating")  # (badly_scaled was tried: K-matrix conditioning of 1e10 and more, the step is rounding noise in Algorithm 778 as well)
    for i in range(nruns):
        ps = gen.rand_spec(rng, fams, nmax=10, boxes=("mixed", "boxed", "narrow", "lower", "upper", "boxed_degenerate", "none"),
                           starts=("face", "vertex", "outward", "interior"))
        yield {"kind": "run", "problem": ps, "maxcor": int(rng.integers(1, 8)), "maxiter": int(rng.integers(5, 30)),
               "eps_SY": float(gen.pick(rng, [2.2e-16, 2.2e-16, 1e-3, 1e-2, 0.1, 0.5, 0.5, 0.9])), "maxls": int(gen.pick(rng, [20, 2, 2, 3])),
               "restart_after": int(rng.integers(2, 8)) if i % 3 == 1 else 0,
               "restart_scaler": float(np.exp(rng.uniform(np.log(1e-3), np.log(1e2)))) if i % 2 == 1 else None,
               "cb_edits_pairs": bool(i % 4 == 2), "cb_nested": bool(i % 4 == 0),
               "restart_reset_nit": bool(i % 6 == 1), "grad_dtype": "float32" if i % 5 == 3 else None}
    del itertools


def run(spec):
    import itertools

    out = Outcome()
    keys = set()
    old = np.seterr(all="ignore")
    try:
        if spec["kind"] == "patterns":
            n = spec["n"]
            rng = np.random.default_rng(spec["seed"])
            allp = list(itertools.islice(itertools.product(range(len(VARP)), repeat=n), spec["offset"], spec["offset"] + spec["count"]))
            mems = {}
            for npairs in (0, 1, 3):
                mm = make_memory(rng, n, npairs)
                if mm is not None:
                    mems[npairs] = mm
            last = None
            # (the memory is the outer loop: consecutive calls are made with the SAME matrices object on boxes whose free sets differ,
            #  often in their members only, not in their size - as in a run after a rejected pair)
            for npairs, (mats, B), idxs in [(k_, v_, i_) for k_, v_ in mems.items() for i_ in allp]:
                pats = [VARP[i] for i in idxs]
                for variant in ("random", "tie"):
                    for _once in (0,):
                        x, g, lb, ub = build_pattern_input(rng, pats, variant)
                        out.count("pattern_inputs")
                        synthetic_input(out, keys, x, g, lb, ub, mats, B, f"pattern {pats} variant={variant} pairs={npairs}",
                                        dict(source="pattern"))
                        last = dict(pattern=pats, variant=variant, pairs=npairs, x=x, g=g, lb=lb, ub=ub)
                        if out.violations:
                            break
                    if out.violations:
                        break
                if out.violations:
                    break
            out.sample = dict(spec=spec, last_input=last)
        elif spec["kind"] == "random":
            rng = np.random.default_rng(spec["seed"])
            last = None
            for j in range(spec["count"]):
                n = int(rng.integers(1, 11))
                maxcor = int(rng.integers(1, 8))
                if j % 6 == 5:
                    # scale: dimensions and memories larger than the bulk of the inputs
                    n = int(rng.integers(20, 61))
                    maxcor = int(rng.integers(8, 21))
                    out.count("inputs_in_20_to_60_dimensions_with_memory_up_to_20")
                npairs = int(rng.integers(0, maxcor + 1))
                idle = None
                if n >= 3 and j % 4 == 1:
                    # some variables do not enter the objective at all (zero rows in the memory, zero gradient): their Newton
                    # component is exactly zero while other variables move and may hit their bounds
                    idle = np.sort(rng.choice(n, size=int(rng.integers(1, max(2, n // 2))), replace=False))
                    if rng.random() < 0.6:
                        idle[0] = 0
                        idle = np.unique(idle)
                xunit = float(gen.pick(rng, [1e-10, 1e-12, 1e-9])) if (j % 7 == 3 and idle is None) else 1.0
                eps_upd = float(gen.pick(rng, [0.5, 0.7])) if (j % 9 == 4 and idle is None and xunit == 1.0 and npairs >= 1) else None
                if eps_upd is not None:
                    out.count("inputs_whose_memory_was_built_under_a_curvature_threshold_of_one_half_and_more")
                mm = make_memory(rng, n, npairs, convex=bool(rng.random() < 0.7), idle=idle, xunit=xunit, eps_update=eps_upd)
                if mm is None:
                    out.count("skipped_memory_inconsistent")
                    continue
                mats, B = mm
                if idle is not None and xunit == 1.0 and j % 8 == 1 and n <= 12:
                    hair_input(out, keys, rng, n, mats, B, idle, f"hair n={n} pairs={npairs}", dict(source="hair"))
                    if out.violations:
                        break
                    continue
                lb, ub = gen.rand_box(rng, n, gen.pick(rng, ["mixed", "boxed", "narrow", "lower", "upper", "none", "boxed_degenerate"]))
                x = gen.rand_x0(rng, lb, ub, gen.pick(rng, ["interior", "face", "vertex"]))
                g = rng.standard_normal(n) * np.exp(rng.uniform(-2, 3))
                g[rng.random(n) < 0.1] = 0.0
                if xunit != 1.0:
                    # the whole geometry in those units: box, point and a gradient that moves the point by about one unit per unit step
                    lb, ub, x, g = lb * xunit, ub * xunit, x * xunit, g * xunit
                    if npairs > 0:
                        out.count("inputs_in_tiny_length_units_with_memory")
                if j % 5 == 2:
                    g = g.astype(np.float32)  # a gradient array in single precision (its values are what they are)
                    out.count("inputs_with_single_precision_gradient_array")
                if idle is not None:
                    g[idle] = 0.0
                    for i in idle:  # strictly inside a finite interval
                        lb[i], ub[i] = x[i] - float(rng.uniform(0.5, 3.0)) if np.isfinite(x[i]) else -1.0, x[i] + float(rng.uniform(0.5, 3.0))
                    out.count("inputs_with_idle_free_variables")
                out.count("random_inputs")
                synthetic_input(out, keys, x, g, lb, ub, mats, B, f"random n={n} pairs={npairs}", dict(source="random"))
                if j % 4 == 0 and xunit == 1.0 and idle is None and n >= 3 and not out.violations:
                    # the SAME matrices object serves further calls on other boxes and points (as in a run after a rejected pair): the free
                    # set changes, often in its members only
                    for _rep in range(3):
                        lb2, ub2 = gen.rand_box(rng, n, gen.pick(rng, ["mixed", "boxed", "lower", "upper"]))
                        x2 = gen.rand_x0(rng, lb2, ub2, gen.pick(rng, ["face", "vertex", "interior"]))
                        g2 = rng.standard_normal(n) * np.exp(rng.uniform(-2, 3))
                        out.count("inputs_served_by_the_matrices_object_of_the_previous_call")
                        synthetic_input(out, keys, x2, g2, lb2, ub2, mats, B, f"random n={n} pairs={npairs} (same matrices object as the previous call)", dict(source="random"))
                        if out.violations:
                            break
                last = dict(n=n, pairs=npairs, x=x, g=g, lb=lb, ub=ub)
                if out.violations:
                    break
            out.sample = dict(spec=spec, last_input=last)
        else:
            import lbfgsb.main as M

            P = gen.make_problem(spec["problem"])
            nest = {"on": False}  # True while the optimisation nested in the callback runs (its calls are another problem's)

            def on_event(ev):
                a = ev["args"]
                if a is None:
                    out.count("probe_args_unavailable")
                    return
                out.count("intercepted_calls")
                x, xc, g, lbv, ubv, mats = a["x"], a["xc"], np.asarray(a["grad"], dtype=float), a["lb"], a["ub"], a["mats"]
                if not probes.in_box(x, lbv, ubv) or not probes.in_box(xc, lbv, ubv):
                    out.count("skipped_infeasible_input")
                    return
                B = dense_from_compact(mats, P.n)
                consistent = True
                if has_pairs(mats):
                    want = mats.W.T @ (xc - x)
                    floor = 64 * EPS * float(np.max(np.abs(mats.W).T @ (np.abs(x) + np.abs(xc))))
                    if not np.max(np.abs(a["c"] - want)) <= 1e-6 * float(np.max(np.abs(mats.W).T @ np.abs(xc - x))) + floor:
                        out.count("skipped_inconsistent_aux_vector")
                        return
                kappa = float(np.linalg.cond(B))
                if np.isfinite(kappa) and kappa <= KMAX:
                    try:
                        r = ref_gcp(x, g, lbv, ubv, B)
                        sc = max(1.0, float(np.max(np.abs(x))), float(np.max(np.abs(r["xcp"] - x))))
                        consistent = bool(np.max(np.abs(r["xcp"] - xc)) <= 1e-9 * sc * max(1.0, kappa / 1e4))
                    except RuntimeError:
                        consistent = False
                ref = judge_subspace(out, x, xc, g, lbv, ubv, B, ev["ret"],
                                     f"run {spec['problem']['family']} call #{ic.calls['subspace_minimization']}", dict(source="run"), mats=mats, c=a["c"])
                if ref is not None and not out.violations:
                    check_descent(out, x, g, lbv, ubv, ev["ret"], "run", dict(source="run"), consistent)
                    # "a descent direction for the objective": the gradient the routine was handed must be the objective's gradient at x
                    # (times the scaling factor in force), recomputed here from the user's function
                    if not spec.get("restart_scaler") and not spec.get("grad_dtype") and not spec.get("cb_edits_pairs") and not nest["on"]:
                        olde = np.seterr(all="ignore")
                        gt = np.asarray(P.g(np.array(x, dtype=float, copy=True)), dtype=float)
                        np.seterr(**olde)
                        out.count("gradients_handed_to_the_routine_compared_with_the_objective's")
                        if np.all(np.isfinite(gt)) and not np.array_equal(gt, g) and not out.violations:
                            out.violate("not_a_descent_direction", f"run {spec['problem']['family']}: the gradient handed to the subspace step at x={np.asarray(x).tolist()} is "
                                        f"{np.asarray(g).tolist()} but the objective's gradient there is {gt.tolist()}: the direction is built for another point", source="run")
                    if 0 < ref["free"].size < x.size and ref["alpha"] < 1.0:
                        keys.add(digest(x, g, B))
                if not np.array_equal(ev["live"]["x"], x) or not np.array_equal(ev["live"]["grad"], g):
                    out.violate("subspace_mutated_inputs", "subspace_minimization modified x or grad in place", source="run")

            cfg = dict(jac="callable", maxcor=spec["maxcor"], maxiter=spec["maxiter"], ftol=0.0, gtol=1e-10, maxfun=3000, eps_SY=spec.get("eps_SY", 2.2e-16),
                       maxls=int(spec.get("maxls", 20)))
            hooks = {}
            if int(P.spec["seed"]) % 3 == 0:
                # a user logger at a verbosity at which the routines report their own steps (diagnostics must not touch what they report on)
                cfg["logger"] = True
                cfg["iprint"] = int([99, 100, 101, 1000, 1][int(P.spec["seed"]) // 3 % 5])
                out.count("runs_traced_through_a_logger")
            if spec.get("grad_dtype"):
                cfg["grad_dtype"] = spec["grad_dtype"]  # the user's gradient code works in single precision
                out.count("runs_with_single_precision_gradient")
            if spec.get("cb_nested"):
                # the callback runs another optimisation of the same dimension on another box before returning False
                cfg["cb"] = "never"
                Q = gen.make_problem({"family": "qp", "n": P.n, "seed": int(P.spec["seed"]) + 5, "cond": 20.0, "box": "boxed", "start": "face"})
                out.count("runs_with_optimisation_nested_in_the_callback")

                def on_cb_nested(i, xk, state):
                    nest["on"] = True
                    try:
                        probes.run_min(Q, dict(jac="callable", maxcor=3, maxiter=3, maxfun=200))
                    finally:
                        nest["on"] = False
                    return False

                hooks["on_cb"] = on_cb_nested
            if spec.get("cb_edits_pairs"):
                # a callback that converts the correction pairs of the state it is handed to other units, in place (the state is the
                # user's to keep: whatever it holds must not be the solver's working storage)
                cfg["cb"] = "never"
                out.count("runs_with_callback_editing_the_state_pairs")

                def on_cb(i, xk, state):
                    state.hess_inv.sk *= 1e3
                    state.hess_inv.yk *= 1e-3
                    return False

                hooks["on_cb"] = on_cb
            with probes.Intercept(M, ["subspace_minimization"]) as ic:
                ic.on_event = on_event
                if spec.get("restart_after"):
                    first = probes.run_min(P, dict(cfg, maxiter=spec["restart_after"]), hooks=hooks)
                    if first.exc is None and first.result.nit == spec["restart_after"]:
                        out.count("restarted_runs")
                        c2 = dict(cfg)
                        if spec.get("restart_scaler"):
                            c2["scaler"] = spec["restart_scaler"]  # a gradient scaler introduced on the restart leg
                            out.count("restarted_runs_with_gradient_scaler")
                        ck = first.result
                        if spec.get("restart_reset_nit"):
                            # the user grants the continuation a fresh iteration budget by resetting the counter of the checkpoint
                            # (the curvature memory it carries is not empty)
                            import copy as _copy

                            ck = _copy.deepcopy(first.result)
                            ck.nit = 0
                            out.count("restarted_runs_from_a_checkpoint_whose_iteration_counter_was_reset")
                        tr = probes.run_min(P, c2, hooks=hooks, checkpoint=ck, x0=np.array(first.result.x, dtype=float, copy=True))
                    else:
                        tr = first
                else:
                    tr = probes.run_min(P, cfg, hooks=hooks)
            for ev in ic.events:
                if "exc" in ev:
                    out.violate("subspace_raised", f"run: subspace_minimization raised {ev['exc']!r}", source="run")
            out.count("runs")
            out.sample = dict(spec=spec, calls=ic.calls.get("subspace_minimization", 0),
                              message=None if tr.result is None else tr.result.message)
    finally:
        np.seterr(**old)
    out.nontrivial = len(keys) > 0
    out.keys = keys
    out.count("nontrivial_inputs", len(keys))
    return out


def selftest():
    res = []
    rng = np.random.default_rng(3)
    mats, B = make_memory(rng, 3, 2)
    x = np.array([0.2, 0.5, 0.5])
    lb = np.zeros(3)
    ub = np.ones(3)
    g = np.array([3.0, -0.4, 0.3])
    r = ref_gcp(x, g, lb, ub, B)
    xc = np.clip(r["xcp"], lb, ub)
    ref = ref_subspace(x, xc, g, lb, ub, B)
    o = Outcome()
    judge_subspace(o, x, xc, g, lb, ub, B, ref["xbar"], "selftest", {})
    res.append(("silent on the reference point", not o.violations))
    o = Outcome()
    bad = xc - (ref["xbar"] - xc)  # sign of the subspace direction flipped
    judge_subspace(o, x, xc, g, lb, ub, B, np.clip(bad, lb, ub), "selftest", {})
    res.append(("flags a flipped direction", bool(o.violations)))
    o = Outcome()
    check_descent(o, x, g, lb, ub, x + g, "selftest", {}, True)
    res.append(("flags an ascent direction", any(v["mech"] == "not_a_descent_direction" for v in o.violations)))
    return res
