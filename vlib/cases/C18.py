"""C18 - the returned inverse-Hessian operator is built from genuine curvature pairs."""

from __future__ import annotations

import numpy as np

from .. import gen, probes
from ..common import Outcome, subseed
from ..oracles import EPS, inv_hess_dense

LEVEL = "exploration"
RULE = ("kinds: (run) one run with a callback recording every state, all families, n 1..8, maxcor 1..10, small maxls (rejected updates and "
        "failed line searches), scaler on a third, optionally continued by restarts; every callback state and result is one observation: "
        "#pairs <= maxcor, a chain a0<a1<... of visited iterates exists with sk[j] == X[a_j+1]-X[a_j] and yk[j] == G[a_j+1]-G[a_j] bit for "
        "bit (G = gradients the user returned there, times the scaling factor), inherited pairs after a restart equal the checkpoint's most "
        "recent ones to rounding, s.y > 0, dense operator symmetric positive definite; (diag) synthetic positive-curvature pair sets of size "
        "1..12 in dimension 1..30: extract_hess_inv_diag == diagonal of a dense inverse-BFGS recursion and of op.todense(). Non-trivial = "
        "state with >=2 pairs whose chain skips an iterate (a rejected update happened) or a restart state; distinct = distinct (spec, state index)")
ASSUMPTIONS = [
    "visited iterates = x0, every callback xk, the returned x; gradients there recomputed with the pure closure times the scaling factor (C05 checks that jac is that value)",
    "for objective redefinitions this check judges count, curvature and positive definiteness of the pairs of every state; that they are differences of the rewritten gradients is judged by C13's monitor (ii)",
    "diagonal tolerance 1e3*cond(H)*eps relative to max|diag|",
]


def floors(tier):
    return {"states_checked": 3000, "pairs_matched_bit_exact": 8000, "chains_skipping_an_iterate": 60, "restart_states_checked": 150, "chains_continued_with_a_memory_of_one_or_two_pairs": 100,
            "inherited_pairs_checked": 300, "operators_spd_checked": 2500, "diag_operators": 800, "diag_operators_with_zero_columns": 200, "diag_operators_with_columns_of_order_1e-170_and_below": 150, "diag_operators_on_a_length_scale_of_1e-165_and_below": 100, "diag_requested_again_after_in_place_edit": 300, "rejected_pair_then_failed_search_then_progress": 20, "second_continuations_from_one_checkpoint_object": 40, "switch_states_checked": 300, "continuations_whose_update_function_rewrites_the_restored_gradients_in_place": 200, "switch_runs_traced_through_a_logger": 60, "diagonals_held_by_the_caller_re-read_after_later_extractions": 3000, "runs_with_the_factorisation_checking_switch": 2000, "check_switch_states_checked": 5000, "__nontrivial__": 150}


def cases(tier, seed):
    rng = np.random.default_rng(subseed("C18", seed))
    nrun = 700 if tier == "quick" else 20000
    for i in range(nrun):
        hard = rng.random() < 0.5
        fams = ("rastrigin", "ackley", "rosenbrock", "oscillating", "styblinski_tang", "griewank") if hard else gen.ALL_FAMILIES
        ps = gen.rand_spec(rng, fams, nmax=8)
        cfg = {
            "jac": "callable",
            "maxcor": int(rng.integers(1, 11)),
            "maxls": int(gen.pick(rng, [1, 2, 2, 3, 4] if hard else [3, 5, 20])),
            "eps_SY": float(gen.pick(rng, [2.2e-16, 1e-2, 0.1, 0.3, 0.5])) if hard else 2.2e-16,
            "maxiter": int(gen.pick(rng, [4, 8, 15, 30])),
            "maxfun": int(gen.pick(rng, [40, 200, 15000])),
            "ftol": float(gen.pick(rng, [0.0, 1e-12])),
            "gtol": 1e-9,
            "cb": "never",
        }
        if i % 13 == 12:
            # scale: dimensions and memories larger than the bulk of the cases
            ps["n"] = int(rng.integers(25, 61))
            cfg["maxcor"] = int(rng.integers(11, 31))
            cfg["maxiter"] = int(gen.pick(rng, [30, 60]))
        chain = [int(rng.integers(1, 6)) for _ in range(int(rng.integers(0, 3)))] if rng.random() < 0.4 else []
        if not chain and rng.random() < 0.35:
            cfg["scaler"] = float(np.exp(rng.uniform(np.log(1e-2), np.log(1e2))))
        if chain and rng.random() < 0.3:
            cfg["restart_maxcor"] = int(rng.integers(1, cfg["maxcor"] + 1))
        if i % 5 == 2:
            cfg["reuse_grad_buffer"] = True  # the user's gradient code fills one preallocated array and returns it at every call
        yield {"kind": "run", "problem": ps, "cfg": cfg, "chain": chain}
    # memory reboots: starved line searches with a demanding curvature test on small non-convex problems, so that a rejected pair is
    # often followed at once by a failed line search (the history is then rebuilt from one point) and by further iterations
    nst = 1500 if tier == "quick" else 30000
    for i in range(nst):
        ps = gen.rand_spec(rng, ("rastrigin", "ackley", "griewank", "styblinski_tang", "rosenbrock", "oscillating"), nmax=5, nmin=1)
        cfg = {"jac": "callable", "maxcor": int(rng.integers(1, 7)), "maxls": int(gen.pick(rng, [1, 1, 2])), "eps_SY": float(gen.pick(rng, [0.05, 0.1, 0.3, 0.5])),
               "maxiter": int(gen.pick(rng, [20, 40])), "maxfun": 15000, "ftol": 0.0, "gtol": 1e-9, "cb": "never"}
        yield {"kind": "run", "problem": ps, "cfg": cfg, "chain": []}
    for i in range(300 if tier == "quick" else 8000):
        # continuations with a much smaller memory than the checkpoint holds, under a demanding curvature test (the pair formed with the
        # checkpoint's point is often rejected): never more than the new maxcor pairs, whatever was restored
        ps = gen.rand_spec(rng, ("rastrigin", "ackley", "griewank", "styblinski_tang", "rosenbrock", "oscillating", "qp_quartic"), nmax=6, nmin=2)
        cfg = {"jac": "callable", "maxcor": int(rng.integers(5, 10)), "maxls": int(gen.pick(rng, [3, 20])), "eps_SY": float(gen.pick(rng, [0.1, 0.3, 0.5])),
               "maxiter": int(rng.integers(8, 16)), "maxfun": 15000, "ftol": 0.0, "gtol": 1e-9, "cb": "never", "restart_maxcor": int(rng.integers(1, 3))}
        yield {"kind": "run", "problem": ps, "cfg": cfg, "chain": [int(rng.integers(0, 4)), int(rng.integers(1, 4))], "small_restart_memory": True,
               "restart_eps_SY": float(gen.pick(rng, [0.9, 1.0, 3.0])) if i % 2 == 0 else None}
    nsw = 500 if tier == "quick" else 8000
    for i in range(nsw):
        ps = gen.rand_spec(rng, ("qp", "qp_quartic"), nmax=7, nmin=2, boxes=("none", "mixed", "boxed"), starts=("interior", "face"), condmax=1e3)
        yield {"kind": "switch", "switch": {"problem": ps, "maxcor": int(rng.integers(3, 8)), "maxiter": int(rng.integers(8, 13)),
                                            "switch_at": int(rng.integers(3, 8)), "variant": gen.pick(rng, ["indefinite", "indefinite", "indefinite", "reg", "rescale"]),
                                            "vseed": int(rng.integers(0, 2**31 - 1)), "strength": float(rng.uniform(0.5, 4.0)),
                                            "eps_SY": float(gen.pick(rng, [2.2e-16, 2.2e-16, 1e-2]))}, "ftarget_stop": bool(i % 4 == 0),
               "iprint": int(gen.pick(rng, [-1, 0, 50, 99, 100, 101, 1000])) if i % 3 == 1 else None}
    for i in range(250 if tier == "quick" else 6000):
        ps = gen.rand_spec(rng, ("qp", "qp_quartic"), nmax=7, nmin=2, boxes=("none", "mixed", "boxed"), starts=("interior", "face"), condmax=1e3)
        yield {"kind": "switch_on_restart", "switch": {"problem": ps, "maxcor": int(rng.integers(3, 8)), "switch_at": int(rng.integers(3, 8)),
                                                         "variant": gen.pick(rng, ["indefinite", "indefinite", "reg"]), "vseed": int(rng.integers(0, 2**31 - 1)),
                                                         "strength": float(rng.uniform(0.5, 4.0)), "eps_SY": float(gen.pick(rng, [2.2e-16, 2.2e-16, 1e-2]))}}
    for i in range(48 if tier == "quick" else 1600):
        yield {"kind": "check_switch", "seed": subseed("C18c", seed, i) % (2**31), "count": 150}
    nd = 60 if tier == "quick" else 1500
    for i in range(nd):
        yield {"kind": "diag", "seed": subseed("C18d", seed, i) % (2**31), "count": 40}


# ---------------------------------------------------------------------------
def find_chain(sk, yk, X, G):
    """Longest suffix of the pairs that is an exact chain over the visited points.

    Returns (start_index_of_suffix, [a_0..a_m]) ; pairs[start:] are matched bit for bit.
    """
    m = sk.shape[0]
    N = len(X)
    best = (m, [])

    def matches(j, a, b):
        return np.array_equal(sk[j], X[b] - X[a]) and np.array_equal(yk[j], G[b] - G[a])

    # try to match the newest pair ending at any visited point, then walk backwards
    for end in range(N - 1, 0, -1):
        j = m - 1
        b = end
        idx = [b]
        while j >= 0:
            found = None
            for a in range(b - 1, -1, -1):
                if matches(j, a, b):
                    found = a
                    break
            if found is None:
                break
            idx.append(found)
            b = found
            j -= 1
        start = j + 1
        if start < best[0]:
            best = (start, idx[::-1])
        if start == 0:
            break
    return best


def judge_state(out, snap, X, G, maxcor, inherited, where, tags):
    """inherited: None or dict(sk, yk) of the checkpoint the run was restarted from."""
    sk, yk = snap["sk"], snap["yk"]
    if sk is None:
        out.violate("no_operator", f"{where}: state carries no hess_inv pairs", **tags)
        return None
    out.count("states_checked")
    m = sk.shape[0]
    if sk.shape != yk.shape:
        out.violate("pair_shapes", f"{where}: sk{sk.shape} yk{yk.shape}", **tags)
        return None
    if m > maxcor:
        out.violate("too_many_pairs", f"{where}: {m} pairs with maxcor={maxcor}", **tags)
        return None
    if m == 0:
        return dict(skipped=False)
    curv = np.einsum("ij,ij->i", sk, yk)
    if not np.all(curv > 0):
        j = int(np.argmin(curv))
        out.violate("pair_without_curvature", f"{where}: pair {j} has s.y = {curv[j]!r}", **tags)
        return None
    if inherited is not None and inherited.get("relaxed"):
        # continuation under a stricter curvature threshold than the checkpoint was built with: the newest restored pair may be rejected
        # again, after which the history does not end at the checkpoint's x (the run keeps an older base point, see the open finding about
        # skipped updates): only the count and the curvature of the pairs are judged on this leg
        out.count("states_of_continuations_under_a_stricter_threshold_checked")
        return dict(skipped=False)
    start, idx = find_chain(sk, yk, X, G)
    out.count("pairs_matched_bit_exact", m - start)
    skipped = any(b - a > 1 for a, b in zip(idx[:-1], idx[1:]))
    if start > 0:
        if inherited is None:
            out.violate("pair_not_a_difference_of_visited_iterates", f"{where}: pair {start - 1} of {m} is not the bit-exact difference of two visited iterates "
                        f"and of the gradients returned there (pairs {start}..{m - 1} match iterates {idx})", **tags)
            return None
        # pairs inherited from the checkpoint: its most recent `start` ones, equal to rounding
        ck_s, ck_y = inherited["sk"], inherited["yk"]
        if start > ck_s.shape[0]:
            out.violate("pair_not_a_difference_of_visited_iterates", f"{where}: {start} pairs are neither differences of visited iterates nor inherited "
                        f"(the checkpoint has {ck_s.shape[0]})", **tags)
            return None
        # the first new pair starts at the checkpoint's x, so the inherited block is the tail of the checkpoint's pairs
        tail_s, tail_y = ck_s[ck_s.shape[0] - start:], ck_y[ck_y.shape[0] - start:]
        hx = max(float(np.max(np.abs(inherited["x"]))), float(np.max(np.abs(np.cumsum(ck_s[::-1], axis=0)))), 1e-300)
        hg = max(float(np.max(np.abs(inherited["jac"]))), float(np.max(np.abs(np.cumsum(ck_y[::-1], axis=0)))), 1e-300)
        tol_s = 8 * EPS * hx * (ck_s.shape[0] + 1)
        tol_y = 8 * EPS * hg * (ck_s.shape[0] + 1)
        out.count("inherited_pairs_checked", start)
        if not (np.max(np.abs(sk[:start] - tail_s)) <= tol_s and np.max(np.abs(yk[:start] - tail_y)) <= tol_y):
            out.violate("inherited_pairs_differ_from_checkpoint", f"{where}: the {start} oldest pairs are not the checkpoint's most recent ones "
                        f"(max |ds|={np.max(np.abs(sk[:start] - tail_s)):.3e}, max |dy|={np.max(np.abs(yk[:start] - tail_y)):.3e})", **tags)
            return None
        if idx and idx[0] != 0:
            out.violate("new_pairs_do_not_start_at_checkpoint", f"{where}: the first pair created after the restart does not start at the checkpoint's x", **tags)
            return None
    # symmetric positive definite operator
    H = inv_hess_dense(sk, yk)
    kap = float(np.linalg.cond(H))
    if np.isfinite(kap) and kap < 1e12:
        ev = np.linalg.eigvalsh((H + H.T) / 2)
        out.count("operators_spd_checked")
        if not ev[0] > 0:
            out.violate("operator_not_positive_definite", f"{where}: smallest eigenvalue of the dense inverse-Hessian {ev[0]!r}", **tags)
            return None
    return dict(skipped=skipped)


def run_case(spec, out, keys):
    P = gen.make_problem(spec["problem"])
    cfg = dict(spec["cfg"])
    rmaxcor = cfg.pop("restart_maxcor", None)
    if spec.get("small_restart_memory"):
        out.count("chains_continued_with_a_memory_of_one_or_two_pairs")
    s = 1.0
    ck = None
    x0 = None
    inherited = None
    maxiter = cfg["maxiter"]
    name = f"{P.spec['family']} n={P.n} maxcor={cfg['maxcor']} maxls={cfg['maxls']}"
    for step in range(1 + len(spec["chain"])):
        c = dict(cfg, maxiter=maxiter)
        if step > 0 and rmaxcor is not None:
            c["maxcor"] = rmaxcor
        if step > 0 and spec.get("restart_eps_SY") is not None:
            c["eps_SY"] = spec["restart_eps_SY"]  # ... and a stricter curvature threshold than the checkpoint was built with
        tr = probes.run_min(P, c, checkpoint=ck, x0=x0)
        if tr.exc is not None:
            out.count("runs_raised")
            return
        if ck is not None and step % 2 == 1:
            # a second continuation from the very same checkpoint object (a user trying other settings from one saved state): it is this
            # one that is judged - its pairs must come from its own lineage, not from the first continuation's
            tr = probes.run_min(P, c, checkpoint=ck, x0=np.array(ck.x, dtype=float, copy=True))
            out.count("second_continuations_from_one_checkpoint_object")
            if tr.exc is not None:
                out.count("runs_raised")
                return
        if "scaler" in c and tr.scaler_calls:
            s = float(c["scaler"])
        start_x = np.clip(P.x0, P.lb, P.ub) if ck is None else np.array(ck.x, dtype=float)
        X = [start_x]
        old = np.seterr(all="ignore")
        G = [P.g(start_x.copy()) * s]
        tags = dict(family=P.spec["family"], restart=step > 0)
        prev_rejected, prev_nit = False, None
        for i, rec in enumerate(tr.cb):
            X.append(np.array(rec["xk"], dtype=float))
            G.append(P.g(X[-1].copy()) * s)
            nit_i = int(rec["snap"]["nit"])
            if prev_rejected and prev_nit is not None and nit_i > prev_nit + 1:
                out.count("rejected_pair_then_failed_search_then_progress")
            sk_i = rec["snap"]["sk"]
            prev_rejected = not (sk_i is not None and sk_i.shape[0] >= 1 and np.array_equal(sk_i[-1], X[-1] - X[-2]))
            prev_nit = nit_i
            r = judge_state(out, rec["snap"], X, G, c["maxcor"], inherited, f"{name} step={step} callback#{i}", dict(tags, where="callback"))
            if r is None:
                np.seterr(**old)
                return
            if step > 0:
                out.count("restart_states_checked")
            if r.get("skipped"):
                out.count("chains_skipping_an_iterate")
            if (r.get("skipped") and rec["snap"]["sk"].shape[0] >= 2) or step > 0:
                keys.add(f"{P.spec['family']}/{P.spec['seed']}/{cfg['maxcor']}/{step}/{i}")
        xr = np.array(tr.snap["x"], dtype=float)
        if not np.array_equal(xr, X[-1]):
            X.append(xr)
            G.append(P.g(xr.copy()) * s)
        np.seterr(**old)
        r = judge_state(out, tr.snap, X, G, c["maxcor"], inherited, f"{name} step={step} result", dict(tags, where="result"))
        if r is None:
            return
        if step > 0:
            out.count("restart_states_checked")
        if step < len(spec["chain"]):
            ck = tr.result
            x0 = np.array(ck.x, dtype=float, copy=True)
            inherited = dict(sk=np.array(ck.hess_inv.sk, copy=True), yk=np.array(ck.hess_inv.yk, copy=True),
                             x=np.array(ck.x, copy=True), jac=np.array(ck.jac, copy=True), relaxed=spec.get("restart_eps_SY") is not None)
            maxiter = int(ck.nit) + spec["chain"][step]
    out.sample = dict(spec=spec, visited=len(X))


def diag_case(spec, out, keys):
    from lbfgsb import extract_hess_inv_diag
    from scipy.optimize import LbfgsInvHessProduct

    rng = np.random.default_rng(spec["seed"])
    last = None
    kept = []  # (the array handed to the caller, a copy of its values, description): diagonals a caller collected and still holds
    for j in range(spec["count"]):
        for arr, val, desc in kept:
            out.count("diagonals_held_by_the_caller_re-read_after_later_extractions")
            if not np.array_equal(arr, val):
                out.violate("diag_differs_from_dense", f"{desc}: the diagonal handed to the caller changed after later extractions (for other "
                            f"operators) were made: max dev {float(np.max(np.abs(arr - val))):.3e}", what="diag_kept")
                return
        n = int(rng.integers(1, 31)) if j % 4 else int(gen.pick(rng, [3, 5, 8]))
        m = int(rng.integers(1, 13))
        if j % 10 == 7:
            n = int(rng.integers(1, 5))
            m = n
        A = gen.rand_spd(rng, n, float(np.exp(rng.uniform(0, np.log(1e3)))))
        sk = rng.standard_normal((m, n)) * np.exp(rng.uniform(-2, 1, (m, 1)))
        yk = sk @ A + 0.05 * rng.standard_normal((m, n)) * np.linalg.norm(sk @ A, axis=1, keepdims=True) / np.sqrt(n)
        if n >= 2 and j % 3 == 1:
            # structured operators: variables that never moved (zero column in sk: stuck on a bound), variables the objective is
            # linear in (zero column in yk while the variable moved), or both
            for i in rng.choice(n, size=int(rng.integers(1, max(2, n // 2))), replace=False):
                r = rng.random()
                if r < 0.4:
                    yk[:, i] = 0.0
                elif r < 0.8:
                    sk[:, i] = 0.0
                else:
                    sk[:, i] = 0.0
                    yk[:, i] = 0.0
            out.count("diag_operators_with_zero_columns")
        if n >= 2 and j % 5 == 4:
            # magnitudes: a variable whose steps are of order 1e-170..1e-200 (not zero) while its gradient differences are not small
            for i in rng.choice(n, size=int(rng.integers(1, max(2, n // 3))), replace=False):
                f = float(10.0 ** -rng.uniform(165, 200))
                sk[:, i] *= f
            out.count("diag_operators_with_columns_of_order_1e-170_and_below")
        keep = np.einsum("ij,ij->i", sk, yk) > 1e-8 * np.linalg.norm(sk, axis=1) * np.linalg.norm(yk, axis=1)
        if j % 10 == 7:
            # a separable problem living on the 1e-165..1e-180 length scale with curvatures of order 1e40..1e70, explored one coordinate
            # at a time: a well-conditioned (diagonal) operator whose every entry is tiny
            sk = np.diag(rng.uniform(0.5, 2.0, n) * rng.choice([-1.0, 1.0], n)) * float(10.0 ** -rng.uniform(165, 180))
            yk = sk * np.exp(rng.uniform(0, 3, n)) * float(10.0 ** rng.uniform(40, 70))
            out.count("diag_operators_on_a_length_scale_of_1e-165_and_below")
        sk, yk = sk[keep], yk[keep]
        if sk.shape[0] == 0:
            continue
        op = LbfgsInvHessProduct(sk.copy(), yk.copy())
        H = inv_hess_dense(sk, yk)
        with np.errstate(all="ignore"):
            kap = float(np.linalg.cond(H)) if np.all(np.isfinite(H)) else np.inf
        if not np.isfinite(kap) or kap > 1e10:
            # (agreement with op.todense() entry by entry was tried for these and is not sound: SciPy's dense product and its
            #  matrix-vector product order their operations differently, and with cancellation of intermediate values of order 1e140
            #  the two agree to no digit on the unchanged tree)
            out.count("skipped_ill_conditioned")
            continue
        got = np.asarray(extract_hess_inv_diag(op))
        if j % 2 == 0:
            # the caller turns the array it received into standard deviations in place, then asks again
            first = np.array(got, copy=True)
            try:
                np.sqrt(np.abs(got), out=got)
            except (ValueError, TypeError):
                pass
            got = np.asarray(extract_hess_inv_diag(op))
            out.count("diag_requested_again_after_in_place_edit")
            if not np.array_equal(got, first):
                out.violate("diag_differs_from_dense", f"diag n={n} m={sk.shape[0]}: a second extraction from the same operator, after the caller edited the first "
                            f"result in place, returns other values (max dev {float(np.max(np.abs(got - first))):.3e})", what="diag_again")
                return
        out.count("diag_operators")
        scale = float(np.max(np.abs(np.diag(H))))
        # (... plus the residue the projections I - rho s y^T leave of the initial identity when they annihilate it: (a few eps)^2 per pair)
        tol = 1e3 * kap * EPS * scale + 1e3 * sk.shape[0] * EPS * EPS
        if got.shape != (n,):
            out.violate("diag_shape", f"diag n={n} m={sk.shape[0]}: shape {got.shape}", what="diag")
            return
        e1 = float(np.max(np.abs(got - np.diag(H))))
        e2 = float(np.max(np.abs(got - np.diag(op.todense()))))
        out.maxi("max_diag_err_over_kappa_eps_scale", max(e1, e2) / (kap * EPS * scale))
        if not (e1 <= tol and e2 <= tol):
            out.violate("diag_differs_from_dense", f"diag n={n} m={sk.shape[0]}: extract_hess_inv_diag differs from the dense diagonal by "
                        f"{e1:.3e} (own recursion) / {e2:.3e} (todense), tol {tol:.3e}", what="diag")
            return
        keys.add(f"diag/{spec['seed']}/{j}")
        if j % 2 == 1 and len(kept) < 12:
            kept.append((got, np.array(got, copy=True), f"diag n={n} m={sk.shape[0]} (extraction #{j})"))
        last = dict(n=n, pairs=int(sk.shape[0]))
    out.sample = dict(spec=spec, last=last)


def switch_on_restart_case(spec, out, keys):
    """The objective is redefined between a run and its continuation: the update function of the continuation rewrites, at its initial
    call, the restored stored gradients IN PLACE (same container, same arrays) with those of the new objective. Every state and the
    result of the continuation still carry at most maxcor pairs, each with positive curvature."""
    from .C13 import Switched, make_fB

    sw = spec["switch"]
    P0 = gen.make_problem(sw["problem"])
    fB, gB, desc = make_fB(P0, sw)
    cfg = dict(jac="callable", maxcor=sw["maxcor"], maxls=20, ftol=0.0, gtol=1e-10, maxfun=10000, eps_SY=float(sw.get("eps_SY", 2.2e-16)))
    first = probes.run_min(P0, dict(cfg, maxiter=sw["switch_at"] + 1))
    if first.exc is not None or first.result.hess_inv.sk.shape[0] < 2:
        out.count("switch_never_reached")
        return
    S = Switched(P0, fB, gB)
    S.on = True
    calls = {"n": 0}

    def ufd(x, f0, f0_old, grad, X, G):
        calls["n"] += 1
        if calls["n"] > 1:
            return f0, f0_old, grad, G
        for xi, gi in zip(X, G):
            gi[:] = gB(np.array(xi, copy=True))
        xo = np.array(X[-1], copy=True) if len(X) else np.array(x, copy=True)
        return fB(np.array(x, copy=True)), fB(xo), gB(np.array(x, copy=True)), G

    for extra in (0, 2):
        calls["n"] = 0
        tr = probes.run_min(S, dict(cfg, maxiter=int(first.result.nit) + extra, cb="never"), hooks={"ufd": ufd}, checkpoint=probes.deep(first.result),
                            x0=np.array(first.result.x, dtype=float, copy=True))
        out.count("continuations_whose_update_function_rewrites_the_restored_gradients_in_place")
        if tr.exc is not None:
            out.violate("run_raised_after_objective_switch", f"switch on restart ({desc}, +{extra} iterations): {tr.exc!r}", kind="switch_on_restart", exc=type(tr.exc).__name__)
            return
        for name, snap in [(f"callback#{i}", r["snap"]) for i, r in enumerate(tr.cb)] + [("result", tr.snap)]:
            sk, yk = snap["sk"], snap["yk"]
            out.count("switch_states_checked")
            if sk.shape[0] > sw["maxcor"]:
                out.violate("too_many_pairs", f"switch on restart {name}: {sk.shape[0]} pairs with maxcor={sw['maxcor']}", kind="switch_on_restart")
                return
            curv = np.einsum("ij,ij->i", sk, yk)
            if sk.shape[0] and not np.all(curv > 0):
                j = int(np.argmin(curv))
                out.violate("pair_without_curvature", f"switch on restart ({desc}, gradients rewritten in place at the initial call, +{extra} iterations) {name}: pair {j} of "
                            f"{sk.shape[0]} has s.y = {curv[j]!r}: the operator is not positive definite", kind="switch_on_restart")
                return
    keys.add(f"switch_on_restart/{sw['problem']['seed']}/{sw['vseed']}")
    out.sample = dict(spec=spec)


def switch_case(spec, out, keys):
    """Objective redefinition on the fly: every state and the result must still carry at most maxcor pairs, all with positive
    curvature, and a symmetric positive definite operator (that the pairs are differences of the rewritten gradients is judged by C13)."""
    from .C13 import switch_trace

    sw = spec["switch"]
    extra = dict(cb="never")
    if spec.get("ftarget_stop"):
        extra["maxiter"] = max(1, sw["switch_at"])  # stop right after the iteration of the switch
    if spec.get("iprint") is not None:
        extra.update(logger=True, iprint=int(spec["iprint"]))  # tracing through the user's logger, at every verbosity
        out.count("switch_runs_traced_through_a_logger")
    tr = switch_trace(sw, extra)
    if tr.exc is not None:
        # a factorisation failing on the rewritten history means the stored pairs do not define a positive definite operator
        out.violate("run_raised_after_objective_switch", f"switch ({sw['variant']} at update call {sw['switch_at']}): {tr.exc!r}", kind="switch",
                    exc=type(tr.exc).__name__)
        return
    states = [(f"callback#{i}", r["snap"]) for i, r in enumerate(tr.cb)] + [("result", tr.snap)]
    for name, snap in states:
        sk, yk = snap["sk"], snap["yk"]
        out.count("switch_states_checked")
        m = sk.shape[0]
        if m > sw["maxcor"]:
            out.violate("too_many_pairs", f"switch {name}: {m} pairs with maxcor={sw['maxcor']}", kind="switch")
            return
        if m == 0:
            continue
        curv = np.einsum("ij,ij->i", sk, yk)
        if not np.all(curv > 0):
            j = int(np.argmin(curv))
            out.violate("pair_without_curvature", f"switch ({sw['variant']} at update call {sw['switch_at']}) {name}: pair {j} of {m} has s.y = {curv[j]!r}: "
                        f"the operator is not positive definite", kind="switch")
            return
        H = inv_hess_dense(sk, yk)
        kap = float(np.linalg.cond(H))
        if np.isfinite(kap) and kap < 1e12:
            ev = np.linalg.eigvalsh((H + H.T) / 2)
            out.count("operators_spd_checked")
            if not ev[0] > 0:
                out.violate("operator_not_positive_definite", f"switch {name}: smallest eigenvalue {ev[0]!r}", kind="switch")
                return
    keys.add(f"switch/{sw['problem']['seed']}/{sw['vseed']}")
    out.sample = dict(spec=spec, states=len(states))


# ---------------------------------------------------------------------------
def check_switch_case(spec, out, keys):
    """Runs with the factorisation-checking switch on, on tight-box quadratics started at a vertex (stored steps that move disjoint sets
    of variables are exactly orthogonal: the input the switch's own comparison stumbles upon). The switch may end a run with its
    AssertionError (counted, not judged); whenever a state or a result is produced, each of its pairs must be, bit for bit, the
    difference of two points at which the gradient was requested and of the gradients returned there (the same two for s and y)."""
    import warnings

    from lbfgsb import minimize_lbfgsb

    rng = np.random.default_rng(int(spec["seed"]))
    for _ in range(int(spec["count"])):
        n = int(rng.integers(2, 4))
        M = rng.standard_normal((n, n))
        A = M @ M.T + 0.05 * np.eye(n)
        b = rng.standard_normal(n)
        w = float(rng.uniform(0.1, 1.0))
        x0 = np.where(rng.random(n) < 0.5, -w, w)
        maxcor = int(rng.integers(2, 6))
        log, states = [], []

        def jac(x):
            g = A @ x - b
            log.append((np.array(x, copy=True), np.array(g, copy=True)))
            return g

        def cb(xk, st):
            states.append((np.array(st.hess_inv.sk, copy=True), np.array(st.hess_inv.yk, copy=True)))
            return False

        out.count("runs_with_the_factorisation_checking_switch")
        old = np.seterr(all="ignore")
        try:
            with warnings.catch_warnings():
                warnings.simplefilter("ignore")
                res = minimize_lbfgsb(x0=x0.copy(), fun=lambda x: 0.5 * x @ A @ x - b @ x, jac=jac, bounds=np.array([[-w, w]] * n), maxcor=maxcor, maxiter=15,
                                      ftol=0.0, gtol=1e-12, callback=cb, is_check_factorization=True)
            states.append((np.array(res.hess_inv.sk, copy=True), np.array(res.hess_inv.yk, copy=True)))
        except AssertionError:
            out.count("runs_ended_by_the_factorisation_checking_switch")  # the states seen before it are still judged
        except Exception as e:  # noqa
            out.count("runs_raised")
            continue
        finally:
            np.seterr(**old)
        name = f"factorisation-checking switch on, tight-box quadratic n={n} w={w!r} maxcor={maxcor} (case seed {spec['seed']})"
        for j, (sk, yk) in enumerate(states):
            out.count("check_switch_states_checked")
            if sk.shape[0] > maxcor:
                out.violate("too_many_pairs", f"{name}: state #{j} holds {sk.shape[0]} pairs", kind="check_switch")
                return
            for i in range(sk.shape[0]):
                out.count("check_switch_pairs_checked")
                genuine = any(np.array_equal(xb - xa, sk[i]) and np.array_equal(gb - ga, yk[i]) for xa, ga in log for xb, gb in log)
                if not genuine:
                    out.violate("pair_not_a_difference_of_visited_points", f"{name}: pair {i} of state #{j} (s={sk[i]!r}, y={yk[i]!r}) is not the difference of two "
                                f"evaluated points and of the gradients returned there", kind="check_switch")
                    return
                if not float(sk[i] @ yk[i]) > 0.0:
                    out.violate("operator_not_positive_definite", f"{name}: pair {i} of state #{j} has s.y = {float(sk[i] @ yk[i])!r}", kind="check_switch")
                    return
    keys.add(f"check_switch/{spec['seed']}")


def run(spec):
    out = Outcome()
    keys = set()
    if spec["kind"] == "check_switch":
        check_switch_case(spec, out, keys)
        out.keys = keys
        out.nontrivial = bool(keys)
        out.sample = dict(spec=spec)
        return out
    if spec["kind"] == "switch_on_restart":
        switch_on_restart_case(spec, out, keys)
    elif spec["kind"] == "switch":
        switch_case(spec, out, keys)
    elif spec["kind"] == "run":
        run_case(spec, out, keys)
    else:
        diag_case(spec, out, keys)
    out.keys = keys
    out.nontrivial = bool(keys)
    return out


def selftest():
    res = []
    rng = np.random.default_rng(2)
    A = gen.rand_spd(rng, 3, 10.0)
    X = [rng.standard_normal(3) for _ in range(5)]
    G = [A @ x for x in X]
    sk = np.array([X[2] - X[0], X[3] - X[2], X[4] - X[3]])  # iterate 1 skipped (rejected update)
    yk = np.array([G[2] - G[0], G[3] - G[2], G[4] - G[3]])
    o = Outcome()
    r = judge_state(o, dict(sk=sk, yk=yk), X, G, 5, None, "selftest", {})
    res.append(("silent on a genuine chain (with a skipped iterate)", not o.violations and r and r["skipped"]))
    o = Outcome()
    judge_state(o, dict(sk=sk[::-1].copy(), yk=yk[::-1].copy()), X, G, 5, None, "selftest", {})
    res.append(("flags pairs stored newest-first", bool(o.violations)))
    o = Outcome()
    judge_state(o, dict(sk=sk, yk=yk * (1 + 1e-15)), X, G, 5, None, "selftest", {})
    res.append(("flags a pair that is not a bit-exact gradient difference", bool(o.violations)))
    o = Outcome()
    judge_state(o, dict(sk=sk, yk=yk), X, G, 2, None, "selftest", {})
    res.append(("flags more pairs than maxcor", any(v["mech"] == "too_many_pairs" for v in o.violations)))
    return res
