"""C04 - the termination report is truthful and the run budgets are respected."""

from __future__ import annotations

import numpy as np

from .. import e2e, gen, probes
from ..common import Outcome, subseed
from ..e2e import MESSAGES, MSG_KEY

LEVEL = "exploration"
RULE = ("one case = one run drawn from the configuration lattice maxiter {0,1,2,3,5,50} x maxfun {1,2,3,5,8,100} x maxls {1,2,5,20} x "
        "ftol {0,1e-12,1e-5,1e-1} x gtol {0,1e-9,1e-5,1e-1; float or callable} x ftarget {None, unreachable, reachable, already met; float or "
        "callable} x callback {none, never stops, stops at k} on qp / qp_quartic / rosenbrock / exp_wall / rastrigin / styblinski_tang / "
        "beale problems with boxes, followed by restarts from the returned result with maxiter drawn from 0..nit+2 (below, at and above the "
        "checkpoint's nit), maxfun kept or raised, target already met or not. Every implication of the statement is evaluated on the returned "
        "state against the arguments of the call that returned it. Non-trivial / distinct = distinct (message, limits simultaneously reached, "
        "restart or not, early return or not) combinations")
ASSUMPTIONS = [
    "projected-gradient norm recomputed independently from (result.x, result.jac, bounds)",
    "the relative-reduction premise is checked (with <=) only when a recording callback supplies the previous iterate's value",
    "reference optimum for placing reachable/unreachable targets comes from scipy's L-BFGS-B on the same problem",
]
FAMS = ("qp", "qp_quartic", "rosenbrock", "exp_wall", "rastrigin", "styblinski_tang", "beale", "sphere", "quartic", "log_barrier", "qp_inf_region", "qp_nan_region", "flat")


def floors(tier):
    f = {"results_judged": 1500, "restart_results_judged": 500, "restarts_with_a_budget_of_a_few_evaluations": 300, "restart_below_checkpoint_nit": 100, "early_return_on_restart": 40,
         "callable_stop_criteria_runs": 200, "runs_with_logger": 300, "restarts_with_a_scaler_over_an_unscaled_checkpoint": 100, "kept_results_audited_at_the_end": 1500, "restarts_with_analytic_gradient_from_a_finite_difference_checkpoint": 40, "runs_with_objective_redefined": 150, "objective_redefined_at_a_stationary_point_of_the_old_one": 60,
         "runs_on_domain_restricted_objective": 60, "results_judged_with_the_factorisation_checking_switch": 150, "runs_with_objective_values_and_target_of_order_1e-16_and_below": 60, "runs_on_objectives_unbounded_below": 50, "__nontrivial__": 25}
    for k in MESSAGES:
        f["msg:" + k] = 5
    return f


def cases(tier, seed):
    rng = np.random.default_rng(subseed("C04", seed))
    nrun = 5000 if tier == "quick" else 100000
    for i in range(nrun):
        ps = gen.rand_spec(rng, FAMS, nmax=6, boxes=("none", "mixed", "boxed", "lower", "narrow", "nonneg", "unit", "boxed_degenerate", "all_fixed"), starts=("interior", "face", "vertex"))
        if ps["family"] == "log_barrier":
            ps["box"] = gen.pick(rng, ["none", "none", "lower", "nonneg"])  # the domain x > 0 is enforced by inf values, not by the box
        cfg = {
            "jac": "callable" if (rng.random() < 0.85 or ps["family"] == "log_barrier") else gen.pick(rng, [None, "2-point", "3-point", "cs"]),
            "maxcor": int(rng.integers(1, 8)),
            "maxiter": int(gen.pick(rng, [0, 1, 2, 3, 5, 50])),
            "maxfun": int(gen.pick(rng, [1, 2, 3, 5, 8, 100])),
            "maxls": int(gen.pick(rng, [1, 2, 5, 20])),
            "ftol": float(gen.pick(rng, [0.0, 1e-12, 1e-5, 1e-1])),
            "gtol": float(gen.pick(rng, [0.0, 1e-9, 1e-5, 1e-1])),
            "gtol_callable": bool(rng.random() < 0.3),
            "target_kind": gen.pick(rng, [None, None, "below", "reachable", "above", "zero"]),
            "ftarget_callable": bool(rng.random() < 0.4),
            "cb": gen.pick(rng, [None, "never", "never", 1, 2, 4]),
        }
        if i % 13 == 12 and ps["family"] != "log_barrier":
            # scale: dimensions and memories larger than the bulk of the cases
            ps["n"] = int(rng.integers(25, 61))
            cfg["maxcor"] = int(rng.integers(11, 31))
        if rng.random() < 0.2:
            cfg["scaler"] = float(np.exp(rng.uniform(np.log(1e-2), np.log(1e2))))
        e2e.vary_rare_parameters(rng, cfg)
        if rng.random() < 0.1:
            cfg["max_steplength"] = float(gen.pick(rng, [0.1, 1.0, 5.0]))
        if i % 4 == 3:
            cfg["is_check_factorization"] = True  # the debugging switch: it may end a run with an AssertionError of its own, never change a run
        if cfg["jac"] == "callable" and i % 4 == 1:
            cfg["reuse_grad_buffer"] = True  # the user's gradient fills and returns one preallocated array; results are audited at the end
        if i % 3 == 2:
            cfg["logger"] = gen.pick(rng, [True, True, "WARNING", "INFO"])  # a user-supplied logger (DEBUG level, or never configured below WARNING, or INFO) at various verbosity levels
            cfg["iprint"] = int(gen.pick(rng, [-1, 0, 1, 50, 99, 101]))
        restarts = []
        for _ in range(int(rng.integers(1, 3))):
            restarts.append({"dnit": int(rng.integers(-3, 3)), "raise_maxfun": bool(rng.random() < 0.5), "to_callable": bool(rng.random() < 0.6),
                             "scaler_on_restart": float(np.exp(rng.uniform(np.log(1e-2), np.log(1e2)))) if rng.random() < 0.3 else None,
                             "target_between": bool(rng.random() < 0.5),
                             "maxfun_slack": int(rng.integers(0, 4)),
                             "target_met": bool(rng.random() < 0.25), "maxls": int(gen.pick(rng, [1, 2, 5, 20])),
                             "tight_budget": int(rng.integers(1, 5)) if rng.random() < 0.35 else None,
                             "cb": gen.pick(rng, [None, "never", 1])})
        tiny = float(10.0 ** -rng.uniform(16, 60)) if (i % 14 == 5 and "scaler" not in cfg) else None
        if tiny is not None:
            cfg["jac"] = "callable"
            cfg["gtol"] = float(gen.pick(rng, [0.0, 0.0, tiny * 1e-6]))
            for rs_ in restarts:
                rs_["scaler_on_restart"], rs_["target_between"] = None, False
        yield {"problem": ps, "cfg": cfg, "restarts": restarts, "tiny_units": tiny}
    # objectives unbounded below (quadratics with eigenvalues of both signs on boxes that leave directions open): the run follows them to
    # magnitudes of 1e150 and more, where products of gradient components overflow - it still has to come back with a documented reason
    for i in range(120 if tier == "quick" else 3000):
        ps = gen.rand_spec(rng, ("qp_indefinite",), nmax=40, nmin=3, boxes=("none", "none", "lower", "mixed", "upper"), starts=("interior", "face"))
        cfg = {"jac": "callable", "maxcor": int(rng.integers(3, 22)), "maxiter": 2000, "maxfun": 100000, "maxls": int(gen.pick(rng, [20, 20, 5])),
               "ftol": 0.0, "gtol": 0.0, "gtol_callable": False, "target_kind": None, "ftarget_callable": False, "cb": gen.pick(rng, [None, "never"])}
        yield {"problem": ps, "cfg": cfg, "restarts": [], "tiny_units": None, "unbounded_below": True}
    # the other end of the range: with gtol = 0 a run on a valley whose curvatures go down to 1e-31 approaches the origin until objective,
    # gradient and the squares of the gradient components underflow
    for wseed, wm in ((108, 2), (114, 5), (256, 5)):
        # fixed witnesses of the open finding "ValueError when the squares of the gradient components underflow" (known_findings.json)
        yield {"problem": {"family": "underflow_valley", "n": 2, "seed": wseed, "box": "none", "start": "interior"},
               "cfg": {"jac": "callable", "maxcor": wm, "maxiter": 300, "maxfun": 100000, "maxls": 20, "ftol": 0.0, "gtol": 0.0, "gtol_callable": False,
                       "target_kind": None, "ftarget_callable": False, "cb": None, "plain_inputs": True},
               "restarts": [], "tiny_units": None, "underflow": True}
    for i in range(60 if tier == "quick" else 1500):
        ps = gen.rand_spec(rng, ("underflow_valley",), nmax=3, nmin=2, boxes=("none",), starts=("interior",))
        cfg = {"jac": "callable", "maxcor": int(gen.pick(rng, [2, 5])), "maxiter": 300, "maxfun": 100000, "maxls": 20,
               "ftol": 0.0, "gtol": 0.0, "gtol_callable": False, "target_kind": None, "ftarget_callable": False, "cb": gen.pick(rng, [None, "never"])}
        yield {"problem": ps, "cfg": cfg, "restarts": [], "tiny_units": None, "underflow": True}
    # runs whose objective is redefined on the fly (update_fun_def): every implication must be true of the returned state
    nu = 400 if tier == "quick" else 12000
    for i in range(nu):
        ps = gen.rand_spec(rng, ("qp", "qp_quartic", "qp_softplus"), nmax=6, boxes=("none", "mixed", "boxed", "lower"), starts=("interior", "face"), condmax=1e3)
        cfg = {"jac": "callable", "maxcor": int(rng.integers(1, 8)), "maxiter": int(gen.pick(rng, [5, 20, 60])), "maxfun": int(gen.pick(rng, [8, 30, 1000])),
               "maxls": int(gen.pick(rng, [2, 5, 20])), "ftol": float(gen.pick(rng, [0.0, 1e-12, 1e-5])), "gtol": float(gen.pick(rng, [1e-9, 1e-6, 1e-3, 1e-1])),
               "gtol_callable": False, "target_kind": None, "ftarget_callable": False, "cb": gen.pick(rng, [None, "never"])}
        yield {"problem": ps, "cfg": cfg, "restarts": [],
               "ufd": {"when": gen.pick(rng, ["stationary", "stationary", "call"]), "call": int(rng.integers(0, 6)),
                       "tilt_seed": int(rng.integers(0, 2**31 - 1)), "tilt": float(np.exp(rng.uniform(np.log(0.05), np.log(5.0))))}}


def judge_result(out, P, tr, cfg, nit0, n0, where, tags):
    """All implications of the statement on one returned result."""
    if isinstance(tr.exc, AssertionError) and cfg.get("is_check_factorization"):
        out.count("runs_ended_by_the_factorisation_checking_switch")  # its purpose; whether its tolerance is adequate is no listed property (DESIGN 10.3)
        return None
    if cfg.get("is_check_factorization"):
        out.count("results_judged_with_the_factorisation_checking_switch")
    if tr.exc is not None:
        out.count("runs_raised")
        out.count("raised:" + type(tr.exc).__name__)
        gl = [v for kd, _x, v in tr.evals if kd == "g"]
        if isinstance(tr.exc, ValueError) and "infs or NaNs" in str(tr.exc) and gl and float(cfg.get("gtol", 1.0) or 0.0) == 0.0:
            olde = np.seterr(all="ignore")
            gmax = float(np.max(np.abs(np.asarray(gl[-1], dtype=float)))) if np.size(gl[-1]) else 0.0
            np.seterr(**olde)
            if isinstance(cfg.get("scaler"), (int, float)) and tr.scaler_calls:
                gmax *= abs(float(cfg["scaler"]))  # the solver works with the scaled gradient
            if gmax * gmax < np.finfo(float).tiny:
                # the mechanism of the open finding C04-underflow-of-squared-gradient, whatever workload it shows up in: zero tolerance,
                # and the squares of all components of the last gradient evaluated underflow
                tags = dict(tags, scenario="gradient_underflow")
                out.count("runs_raising_after_the_squared_gradient_underflowed")
        out.violate("run_raised_instead_of_reporting", f"{where}: the run raised {tr.exc!r} instead of returning a termination reason "
                    f"(maxiter={cfg['maxiter']}, maxfun={cfg['maxfun']}, maxls={cfg['maxls']})", exc=type(tr.exc).__name__, **tags)
        return None
    r = tr.snap
    msg = r["message"]
    key = MSG_KEY.get(msg)
    out.count("results_judged")
    if key is None:
        out.violate("undocumented_message", f"{where}: message {msg!r} is not one of the documented termination reasons "
                    f"(nit={r['nit']}, maxiter={cfg['maxiter']}, nfev={r['nfev']}, maxfun={cfg['maxfun']})", message=str(msg), **tags)
        return None
    out.count("msg:" + key)
    x = np.asarray(r["x"], dtype=float)
    jac = np.asarray(r["jac"], dtype=float)
    limits = []
    if r["nit"] >= cfg["maxiter"]:
        limits.append("iter")
    if r["nfev"] >= cfg["maxfun"]:
        limits.append("eval")
    pg = gen.pg_inf(x, jac, P.lb, P.ub)
    if pg <= cfg["gtol"]:
        limits.append("pg")
    tgt = cfg.get("ftarget")
    # units of the returned fun: scaled once the objective has been evaluated under a scaler in this leg; a leg that returns without any
    # evaluation hands back the values of its checkpoint, in the checkpoint's units
    sc = float(cfg["scaler"]) if (cfg.get("scaler") is not None and tr.scaler_calls and (nit0 is None or tr.nf > 0)) else 1.0
    fun_user = r["fun"] / sc  # the target is expressed in the user's (unscaled) units
    if tgt is not None and fun_user <= tgt:
        limits.append("target")
    cb_true = any(rec["ret"] for rec in tr.cb)
    # --- implications ----------------------------------------------------
    if key == "PGTOL" and not (pg <= cfg["gtol"]):
        out.violate("pgtol_message_false", f"{where}: PGTOL message but projected gradient of (x, jac) = {pg!r} > gtol = {cfg['gtol']!r}", message=key, **tags)
    if key == "TARGET" and not (tgt is not None and fun_user <= tgt):
        out.violate("target_message_false", f"{where}: TARGET message but fun={r['fun']!r} (scaling factor {sc!r}: {fun_user!r} in the user's units), "
                    f"ftarget={tgt!r}", message=key, **tags)
    if key == "ITER" and not (r["nit"] >= cfg["maxiter"]):
        out.violate("iteration_message_false", f"{where}: iteration-limit message but nit={r['nit']} < maxiter={cfg['maxiter']}", message=key, **tags)
    if key == "EVAL" and not (r["nfev"] >= cfg["maxfun"]):
        out.violate("evaluation_message_false", f"{where}: evaluation-limit message but nfev={r['nfev']} < maxfun={cfg['maxfun']}", message=key, **tags)
    if key == "CALLBACK" and not cb_true:
        out.violate("callback_message_false", f"{where}: user-callback message but the callback never returned True", message=key, **tags)
    if key == "FTOL":
        if tr.cb or nit0 is None:
            pass
        if cfg.get("cb") is not None and r["nit"] > (nit0 or 0) and not tags.get("update_fun_def"):
            # (with an objective redefined on the fly the previous value is the one the update function supplies: not judged)
            # previous iterate's value: last callback state before the final iteration, else the value the run started from
            prev = tr.cb[-1]["snap"]["fun"] if tr.cb else tr.start_fun
            if prev is not None:
                red = (prev - r["fun"]) / max(abs(prev), abs(r["fun"]), 1.0)
                out.count("ftol_premise_checked")
                if not (red <= cfg["ftol"]):
                    out.violate("ftol_message_false", f"{where}: FTOL message but relative reduction {red!r} > ftol {cfg['ftol']!r}", message=key, **tags)
    if (r["success"] is False) != (key == "ABNORMAL"):
        out.violate("success_flag", f"{where}: success={r['success']!r} with message {msg!r}", message=key, **tags)
    # --- budgets -----------------------------------------------------------
    if not (r["nit"] <= max(cfg["maxiter"], nit0 or 0)):
        out.violate("iteration_budget", f"{where}: nit={r['nit']} > max(maxiter={cfg['maxiter']}, nit at restart={nit0})", **tags)
    if cfg["jac"] == "callable" and not (r["nfev"] <= max(cfg["maxfun"], n0) + 1):
        out.violate("evaluation_budget", f"{where}: nfev={r['nfev']} > max(maxfun={cfg['maxfun']}, n0={n0}) + 1", **tags)
    if cfg.get("ftarget_callable") and cfg.get("ftarget") is not None and tr.ftarget_calls != 1:
        out.violate("stop_callable_call_count", f"{where}: callable ftarget invoked {tr.ftarget_calls}x", which="ftarget", **tags)
    if cfg.get("gtol_callable") and tr.gtol_calls != 1:
        out.violate("stop_callable_call_count", f"{where}: callable gtol invoked {tr.gtol_calls}x", which="gtol", **tags)
    if cfg.get("ftarget_callable") or cfg.get("gtol_callable"):
        out.count("callable_stop_criteria_runs")
    return key, tuple(limits)


class SharedCriterion:
    """A callable stop criterion the user keeps and passes to several runs (e.g. a schedule); counts its invocations."""

    def __init__(self, value):
        self.value = value
        self.calls = 0

    def __call__(self):
        self.calls += 1
        return self.value


def reference_optimum(P):
    from scipy.optimize import minimize

    old = np.seterr(all="ignore")
    try:
        r = minimize(P.f, P.x0, jac=P.g, bounds=P.scipy_bounds(), method="L-BFGS-B", options=dict(maxiter=500))
        return float(r.fun)
    except Exception:
        return None
    finally:
        np.seterr(**old)


class Tilted:
    """Problem-like view whose objective becomes f + t.x when .on is set (a data term re-weighted on the fly)."""

    def __init__(self, P, t):
        self.P, self.t = P, t
        self.n, self.lb, self.ub, self.x0, self.bounds, self.spec, self.meta = P.n, P.lb, P.ub, P.x0, P.bounds, P.spec, P.meta
        self.on = False
        self.at_stationary = False

    def fB(self, x):
        return self.P.f(x) + float(self.t @ x)

    def gB(self, x):
        return self.P.g(x) + self.t

    def f(self, x):
        return self.fB(x) if self.on else self.P.f(x)

    def g(self, x):
        return self.gB(x) if self.on else self.P.g(x)

    def scipy_bounds(self):
        return self.P.scipy_bounds()


def install_switch(P, u, cfg, hooks, out):
    """update_fun_def that redefines the objective once: at its k-th call, or the first time the iterate it is handed is
    stationary (projected gradient <= gtol) for the definition in force - the moment a user's continuation scheme moves on."""
    from collections import deque

    rng = np.random.default_rng(u["tilt_seed"])
    T = Tilted(P, u["tilt"] * rng.standard_normal(P.n))
    calls = {"n": 0}

    def ufd(x, f0, f0_old, grad, X, G):
        j = calls["n"]
        calls["n"] += 1
        stationary = gen.pg_inf(np.asarray(x, dtype=float), np.asarray(grad, dtype=float), P.lb, P.ub) <= cfg["gtol"]
        if not T.on and ((u["when"] == "call" and j == u["call"]) or (u["when"] == "stationary" and stationary)):
            T.on = True
            T.at_stationary = bool(stationary)
            Gn = deque(T.gB(np.array(p, copy=True)) for p in X)
            xo = np.array(X[-1], copy=True) if len(X) else np.array(x, copy=True)
            return T.fB(np.array(x, copy=True)), T.fB(xo), T.gB(np.array(x, copy=True)), Gn
        return f0, f0_old, grad, G

    hooks["ufd"] = ufd
    return T


def run(spec):
    out = Outcome()
    P = gen.make_problem(spec["problem"])
    if P.spec["family"] == "exp_wall":
        P.x0 = np.clip(P.x0 - 2.0, P.lb, P.ub)
    cfg = dict(spec["cfg"])
    old = np.seterr(all="ignore")
    f0 = P.f(P.x0.copy())
    np.seterr(**old)
    kind = cfg.pop("target_kind")
    if P.spec["family"] == "log_barrier":
        if not np.isfinite(f0):
            out.count("skipped_start_outside_objective_domain")
            out.sample = dict(spec=spec)
            return out
        out.count("runs_on_domain_restricted_objective")
    if spec.get("unbounded_below"):
        out.count("runs_on_objectives_unbounded_below")
    if spec.get("underflow"):
        out.count("runs_driven_to_underflow_with_zero_tolerances")
    usc = 1.0
    if spec.get("tiny_units") and not spec.get("ufd") and P.spec["family"] != "log_barrier":
        # magnitudes: the same objective expressed in units in which all its values, its gradient and the target are of order 1e-16..1e-60
        usc = float(spec["tiny_units"])
        cfg["explicit_scale"] = usc
        f0 = f0 * usc
        out.count("runs_with_objective_values_and_target_of_order_1e-16_and_below")
    if kind is not None and np.isfinite(f0):
        fstar = reference_optimum(P)
        if fstar is None or not np.isfinite(fstar):
            fstar = f0 / usc - 1.0
        fstar = min(fstar * usc, f0)
        # ("zero": a target of exactly 0.0 - a falsy value -, reached or not)
        cfg["ftarget"] = {"below": fstar - usc - abs(fstar), "reachable": fstar + 0.3 * (f0 - fstar) + 1e-12 * usc, "above": f0 + usc, "zero": 0.0}[kind]
    tags = dict(family=P.spec["family"])
    if spec.get("underflow"):
        tags["scenario"] = "gradient_underflow"
    keys = set()
    hooks = {}
    shared_g = SharedCriterion(cfg["gtol"]) if cfg.get("gtol_callable") else None
    shared_t = SharedCriterion(cfg.get("ftarget")) if (cfg.get("ftarget_callable") and cfg.get("ftarget") is not None) else None
    if shared_g is not None:
        hooks["gtol_obj"] = shared_g
    if shared_t is not None:
        hooks["ftarget_obj"] = shared_t
    if spec.get("ufd"):
        P = install_switch(P, spec["ufd"], cfg, hooks, out)
        tags = dict(tags, update_fun_def=True)
    if cfg.get("logger"):
        out.count("runs_with_logger")
    tr = probes.run_min(P, cfg, hooks=hooks)
    if spec.get("ufd"):
        out.count("runs_with_objective_redefined" if P.on else "runs_with_update_function_never_switching")
        if P.on and P.at_stationary:
            out.count("objective_redefined_at_a_stationary_point_of_the_old_one")
    tr.gtol_calls = shared_g.calls if shared_g is not None else 0
    tr.ftarget_calls = shared_t.calls if shared_t is not None else 0
    tr.start_fun = f0
    kept = [(f"{P.spec['family']} n={P.n} first run", tr, dict(cfg))]
    res = judge_result(out, P, tr, cfg, None, 1, f"{P.spec['family']} n={P.n} first run", dict(tags, restart=False))
    if res:
        keys.add(f"{res[0]}|{'+'.join(res[1])}|first")
    cur = tr
    for k, rs in enumerate(spec["restarts"]):
        if cur.exc is not None or out.violations:
            break
        ck = cur.result
        c2 = dict(cfg)
        if c2.pop("scaler", None) is not None:
            break  # restart chains are explored without scaler (see C03's known finding about scaled checkpoints)
        if rs.get("scaler_on_restart") and k == 0:
            # ... except for a scaler introduced on the first restart leg, over an unscaled checkpoint (this leg then ends the chain)
            c2["scaler"] = float(rs["scaler_on_restart"])
            out.count("restarts_with_a_scaler_over_an_unscaled_checkpoint")
        c2["maxiter"] = max(0, int(ck.nit) + rs["dnit"])
        if rs["raise_maxfun"]:
            c2["maxfun"] = int(ck.nfev) + int(cfg["maxfun"]) + 3
        c2["maxls"] = rs["maxls"]
        c2["cb"] = rs["cb"]
        if c2["jac"] != "callable" and rs.get("to_callable"):
            # the run is continued with the analytic gradient from a checkpoint produced with finite differences (nfev >> njev),
            # the evaluation budget a few evaluations above what the checkpoint has used
            c2["jac"] = "callable"
            c2["maxfun"] = int(ck.nfev) + int(rs.get("maxfun_slack", 1))
            c2["maxiter"] = int(ck.nit) + 5
            c2["maxls"] = 20
            out.count("restarts_with_analytic_gradient_from_a_finite_difference_checkpoint")
        if rs.get("tight_budget") is not None:
            # the continuation is granted a few evaluations beyond what the checkpoint has used, with a short line-search cap
            c2["maxfun"] = int(ck.nfev) + int(rs["tight_budget"])
            c2["maxiter"] = int(ck.nit) + 5
            c2["maxls"] = int(rs["maxls"]) if int(rs["maxls"]) > 1 else 3
            out.count("restarts_with_a_budget_of_a_few_evaluations")
        if rs["target_met"] and np.isfinite(ck.fun):
            c2["ftarget"] = float(ck.fun) + 1.0
        if c2.get("scaler") is not None and rs.get("target_between") and np.isfinite(ck.fun) and ck.fun != 0:
            # a target between f/s and f: met at the checkpoint only if the units are confused
            c2["ftarget"] = 0.5 * (float(ck.fun) + float(ck.fun) / c2["scaler"])
            c2["ftarget_callable"] = False
        nit0, n0 = int(ck.nit), int(ck.nfev)
        ck_msg = ck.message
        # the user passes the SAME callable objects again, now returning this restart's values
        if shared_g is not None:
            c2["gtol"] = float(cfg["gtol"]) * (0.5 if k % 2 == 0 else 2.0)
            shared_g.value, shared_g.calls = c2["gtol"], 0
        if shared_t is not None:
            if c2.get("ftarget") is None:
                c2["ftarget"] = float(ck.fun) - 1.0 - abs(float(ck.fun))
            shared_t.value, shared_t.calls = c2["ftarget"], 0
        elif c2.get("ftarget_callable") and c2.get("ftarget") is not None:
            c2["ftarget_callable"] = False  # a target introduced at the restart is passed as a float
        tr2 = probes.run_min(P, c2, checkpoint=ck, x0=np.array(ck.x, dtype=float, copy=True), hooks=hooks)
        tr2.gtol_calls = shared_g.calls if shared_g is not None else 0
        tr2.ftarget_calls = shared_t.calls if shared_t is not None else 0
        tr2.start_fun = float(ck.fun)
        out.count("restart_results_judged")
        if c2["maxiter"] < nit0:
            out.count("restart_below_checkpoint_nit")
        early = tr2.result is not None and tr2.nf == 0 and tr2.ng == 0 and c2.get("ftarget") is not None and ck.fun <= c2["ftarget"]
        if early:
            out.count("early_return_on_restart")
        res = judge_result(out, P, tr2, c2, nit0, n0, f"{P.spec['family']} n={P.n} restart#{k} (checkpoint: nit={nit0}, nfev={n0}, {ck_msg!r})",
                           dict(tags, restart=True, early_return=bool(early), below_nit=bool(c2["maxiter"] < nit0)))
        if res:
            keys.add(f"{res[0]}|{'+'.join(res[1])}|restart|{'early' if early else 'run'}")
        kept.append((f"{P.spec['family']} n={P.n} restart#{k}", tr2, dict(c2)))
        cur = tr2
        cfg = c2
    # the results the caller kept are looked at again at the end: what they report must still be true of what they hold
    for where_k, trk, cfgk in kept:
        if trk.result is None or trk.snap is None:
            continue
        out.count("kept_results_audited_at_the_end")
        now = probes.snap_state(trk.result)
        bad = probes.diff_states(now, trk.snap)
        if bad:
            msgk = MSG_KEY.get(trk.snap["message"])
            pgn = gen.pg_inf(np.asarray(now["x"], dtype=float), np.asarray(now["jac"], dtype=float), P.lb, P.ub)
            out.violate("kept_result_changed", f"{where_k}: the returned result changed after it was returned (fields {bad}); it reports {trk.snap['message']!r} and the "
                        f"projected gradient of the (x, jac) it now holds is {pgn!r} (gtol {cfgk['gtol']!r})", message=str(msgk), **tags)
            break
    out.keys = keys
    out.nontrivial = bool(keys)
    out.sample = dict(spec=spec, ftarget=cfg.get("ftarget"), outcomes=sorted(keys))
    return out


def finalize(total, tier):
    return []


def selftest():
    from scipy.optimize import OptimizeResult, LbfgsInvHessProduct

    res = []
    P = gen.make_problem({"family": "qp", "n": 2, "seed": 1, "cond": 10.0, "box": "none", "start": "interior"})
    x = P.x0.copy()

    def mk(message, nit, nfev, success=True):
        tr = probes.Trace()
        tr.result = OptimizeResult(x=x, fun=P.f(x), jac=P.g(x), nit=nit, nfev=nfev, njev=nfev, message=message, success=success, status=0,
                                   hess_inv=LbfgsInvHessProduct(np.zeros((0, 2)), np.zeros((0, 2))))
        tr.snap = probes.snap_state(tr.result)
        tr.start_fun = None
        return tr

    cfg = dict(jac="callable", maxiter=5, maxfun=50, gtol=1e-9, ftol=0.0)
    o = Outcome()
    judge_result(o, P, mk("START", 7, 10, False), cfg, 7, 10, "selftest", {})
    res.append(("flags the placeholder message", any(v["mech"] == "undocumented_message" for v in o.violations)))
    o = Outcome()
    judge_result(o, P, mk(MESSAGES["ITER"], 3, 10), cfg, None, 1, "selftest", {})
    res.append(("flags an untrue iteration-limit message", any(v["mech"] == "iteration_message_false" for v in o.violations)))
    o = Outcome()
    judge_result(o, P, mk(MESSAGES["PGTOL"], 3, 10), cfg, None, 1, "selftest", {})
    res.append(("flags an untrue projected-gradient message", any(v["mech"] == "pgtol_message_false" for v in o.violations)))
    o = Outcome()
    judge_result(o, P, mk(MESSAGES["ITER"], 5, 53), cfg, None, 1, "selftest", {})
    res.append(("flags an evaluation budget overrun", any(v["mech"] == "evaluation_budget" for v in o.violations)))
    o = Outcome()
    judge_result(o, P, mk(MESSAGES["ITER"], 5, 10), cfg, None, 1, "selftest", {})
    res.append(("silent on a truthful report", not o.violations))
    return res
