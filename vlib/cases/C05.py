"""C05 - result coherence: fun and jac belong to x; counters equal calls made."""

from __future__ import annotations

import numpy as np

from .. import e2e, gen, probes
from ..common import Outcome, subseed

LEVEL = "exploration"
RULE = ("one case = one run (callback recording deep copies of every state) optionally followed by a chain of up to 4 restarts from the "
        "returned result; all families, n 1..8, small maxls (so the accepted step is often not the last trial), gradient scaler on a third "
        "of the chain-free runs, gradient modes callable / None / 2-point / 3-point. Oracle: state.fun == f(state.x)*s and state.jac == "
        "g(state.x)*s bit-for-bit with the harness's pure closures; nfev / njev == number of logged objective / gradient calls (+ the "
        "checkpoint's counters after a restart). Non-trivial = run in which an accepted point was re-evaluated because it was not the last "
        "trial of its line search, or a restart chain of length >= 2; distinct = distinct specs")
ASSUMPTIONS = ["harness closures are pure; the scaling factor is the value returned by the harness's scaler",
               "for finite-difference modes fun, nfev and njev (= number of differencing-routine invocations, counted by rebinding its module-level name) are compared; jac is an approximation and is not"]
FAMS = gen.ALL_FAMILIES + ("flat", "qp_subnormal")


def floors(tier):
    return {"states_checked": 3000, "results_checked": 500, "restarts_checked": 100, "states_of_legs_introducing_a_scaler_checked_for_their_counters": 100, "chains_whose_first_leg_returns_before_any_gradient": 40, "accepted_not_last_trial": 10, "scaled_runs": 30, "runs_with_reused_gradient_buffer": 80, "runs_whose_objective_returns_one_reused_array_overwritten_by_the_gradient_code": 60, "runs_with_logger": 200,
            "callback_states_reinspected_after_the_run": 3000, "runs_from_a_start_beyond_unit_step_resolution": 12, "runs_that_could_not_leave_x0": 4, "results_with_non_finite_gradient": 10, "__nontrivial__": 40}


def cases(tier, seed):
    rng = np.random.default_rng(subseed("C05", seed))
    nrun = 1600 if tier == "quick" else 40000
    for i in range(nrun):
        hard = rng.random() < 0.5
        ps = gen.rand_spec(rng, ("oscillating", "rastrigin", "ackley", "rosenbrock", "sinus_like", "exp_wall", "badly_scaled")[:2] + ("rosenbrock", "ackley", "styblinski_tang") if hard else FAMS, nmax=8)
        chain = []
        if rng.random() < 0.4:
            chain = [int(rng.integers(1, 6)) for _ in range(int(rng.integers(1, 5)))]
        cfg = {
            "jac": gen.pick(rng, ["callable"] * 6 + [None, "2-point", "3-point"]),
            "maxcor": int(rng.integers(1, 11)),
            "maxls": int(gen.pick(rng, [2, 3, 4] if hard else [2, 3, 5, 20])),
            "maxiter": int(gen.pick(rng, [0, 1, 2, 4, 8, 15, 30])),
            "maxfun": int(gen.pick(rng, [15, 60, 15000, 15000])),
            "ftol": float(gen.pick(rng, [0.0, 1e-12, 1e-6])),
            "gtol": 1e-8,
            "cb": "never",
        }
        if i % 13 == 12:
            # scale: dimensions and memories larger than the bulk of the cases
            ps["n"] = int(rng.integers(25, 61))
            cfg["maxcor"] = int(rng.integers(11, 31))
        if not chain and rng.random() < 0.35:
            cfg["scaler"] = float(np.exp(rng.uniform(np.log(1e-3), np.log(1e3))))
        if i % 25 == 11 and not chain:
            ps = gen.rand_spec(rng, ("qp", "sphere", "quartic", "qp_quartic"), nmax=6, boxes=("none", "lower", "upper"), starts=("interior",))
            ps["start_scale"] = float(gen.pick(rng, [1e17, 1e18, 1e20]))
            cfg["jac"] = "callable"
            cfg["scaler"] = float(np.exp(rng.uniform(np.log(1e-3), np.log(1e3))))
        e2e.vary_rare_parameters(rng, cfg)
        if rng.random() < 0.1:
            cfg["max_steplength"] = float(gen.pick(rng, [0.1, 1.0, 5.0]))
        if i % 9 == 5 and cfg["jac"] == "callable":
            cfg["reuse_value_buffer"] = True  # the objective returns its value in one reused one-element array, which the gradient code overwrites
        if i % 4 == 2:
            cfg["logger"] = True  # a user-supplied logger: displays must not touch what is returned
            cfg["iprint"] = int(gen.pick(rng, [0, 0, 1, 3, 99, 101]))
        if i % 20 == 7:
            # gradient +inf at the solution (variables ending on the bound 0 of a square-root term)
            ps = gen.rand_spec(rng, ("sqrt_floor",), nmax=6, boxes=("none", "upper"), starts=("interior",))
            cfg["jac"] = "callable"
            cfg["maxiter"] = int(gen.pick(rng, [4, 8, 30]))
        if cfg["jac"] == "callable" and rng.random() < 0.3:
            cfg["reuse_grad_buffer"] = True  # the user's gradient fills and returns one preallocated array
        # (the first leg may be one that returns at once - a target its start point already meets, no gradient computed - and the chain
        #  goes on from that result)
        yield {"problem": ps, "cfg": cfg, "chain": chain, "target_first": bool(chain and i % 5 == 3 and "scaler" not in cfg),
               "scaler_on_restart": float(np.exp(rng.uniform(np.log(1e-2), np.log(1e2)))) if (chain and i % 6 == 1 and "scaler" not in cfg) else None}
    for i in range(200 if tier == "quick" else 5000):
        # a regularisation / data path: the same two function objects serve one problem after the other, the data arrive through `args`, and
        # each run is warm-started from the solution of the preceding one (often with no iteration left to do)
        ps = gen.rand_spec(rng, ("qp", "qp_quartic", "qp_softplus", "rosenbrock", "styblinski_tang"), nmax=6, boxes=("none",), starts=("interior",))
        cfg = {"jac": gen.pick(rng, ["callable", "callable", None]), "maxcor": int(rng.integers(1, 8)), "maxls": 20, "maxiter": int(gen.pick(rng, [0, 0, 1, 3, 10])),
               "maxfun": 15000, "ftol": 0.0, "gtol": float(gen.pick(rng, [1e-8, 1e-3, 1e3])), "cb": "never", "via_args": True}
        yield {"problem": ps, "cfg": cfg, "chain": [int(rng.integers(1, 4))] if i % 3 == 0 else [], "target_first": False, "scaler_on_restart": None,
               "after_twin": int(rng.integers(0, 2**31 - 1))}


_AD = [0, False]


def install_ad_counter():
    """Count gradient computations in finite-difference modes by rebinding the differencing routine's module-level name."""
    import lbfgsb.scalar_function as S

    if getattr(S, "_verif_ad_wrapped_c05", False):
        return
    orig = getattr(S, "approx_derivative", None)
    if orig is None:
        return

    def counting(*a, **k):
        _AD[0] += 1
        return orig(*a, **k)

    S.approx_derivative = counting
    S._verif_ad_wrapped_c05 = True
    _AD[1] = True


def judge_state(out, P, snap, s, mode, exp_nf, exp_ng, where, tags, exp_fd_ng=None, counters_only=False):
    """snap: deep copy of an OptimizeResult; exp_nf/exp_ng: expected counters."""
    if counters_only:
        # a leg that introduces a scaler over an unscaled checkpoint: the units of the values it reports depend on whether it evaluated
        # anything (C04 judges them); the counters are the checkpoint's plus the calls made since, whatever the units
        out.count("states_of_legs_introducing_a_scaler_checked_for_their_counters")
        if snap["nfev"] != exp_nf:
            out.violate("nfev_mismatch", f"{where}: nfev={snap['nfev']} but {exp_nf} objective calls were made (incl. checkpoint's)", **tags)
        elif mode == "callable" and snap["njev"] != exp_ng:
            out.violate("njev_mismatch", f"{where}: njev={snap['njev']} but {exp_ng} gradient calls were made (incl. checkpoint's)", **tags)
        return
    if mode != "callable" and exp_fd_ng is not None and snap["njev"] != exp_fd_ng:
        out.violate("njev_mismatch", f"{where}: njev={snap['njev']} but {exp_fd_ng} finite-difference gradient computations were made (incl. checkpoint's)", **tags)
        return
    if snap["njev"] == 0 and mode == "callable":
        out.count("skipped_no_gradient_yet")
        return
    x = np.array(snap["x"], dtype=float)
    old = np.seterr(all="ignore")
    try:
        f_exp = P.f(x.copy()) * s
        g_exp = P.g(x.copy()) * s
    finally:
        np.seterr(**old)
    if not probes.same(snap["fun"], f_exp):
        out.violate("fun_not_at_x", f"{where}: fun={snap['fun']!r} but objective at the reported x (times scaling {s!r}) = {f_exp!r}", **tags)
        return
    if mode == "callable" and not probes.same(np.asarray(snap["jac"]), g_exp):
        out.violate("jac_not_at_x", f"{where}: jac={np.asarray(snap['jac']).tolist()} but gradient at the reported x = {g_exp.tolist()}", **tags)
        return
    if snap["nfev"] != exp_nf:
        out.violate("nfev_mismatch", f"{where}: nfev={snap['nfev']} but {exp_nf} objective calls were made (incl. checkpoint's)", **tags)
        return
    if mode == "callable" and snap["njev"] != exp_ng:
        out.violate("njev_mismatch", f"{where}: njev={snap['njev']} but {exp_ng} gradient calls were made (incl. checkpoint's)", **tags)


def reevaluated(tr):
    """Number of accepted iterates that were evaluated, then other points, then evaluated again."""
    n = 0
    start = 0
    for rec in tr.cb:
        pts = [p for k, p, v in tr.evals[start:rec["at_eval"]] if k == "f" and not np.iscomplexobj(p)]
        idx = [i for i, p in enumerate(pts) if np.array_equal(p, rec["xk"])]
        if len(idx) >= 2 and any(not np.array_equal(pts[j], rec["xk"]) for j in range(idx[0], idx[-1])):
            n += 1
        start = rec["at_eval"]
    return n


def run(spec):
    out = Outcome()
    P = gen.make_problem(spec["problem"])
    cfg = dict(spec["cfg"])
    mode = cfg["jac"] if cfg["jac"] == "callable" else str(cfg["jac"])
    tags = dict(family=P.spec["family"], mode=str(cfg["jac"]))
    s = 1.0
    base_nf = base_ng = 0
    ck = None
    x0 = None
    maxiter = cfg["maxiter"]
    nre = 0
    chain_len = 0
    install_ad_counter()
    base_fd = 0
    kept = []  # results the user keeps: they must stay coherent whatever is done with them later
    if spec.get("after_twin") is not None:
        twin = gen.make_problem(dict(spec["problem"], seed=int(spec["after_twin"])))
        t0 = probes.run_min(twin, dict(cfg, maxiter=40))
        if t0.exc is None:
            x0 = np.array(t0.result.x, dtype=float, copy=True)  # warm start from the preceding problem's solution
            out.count("runs_warm_started_from_the_result_of_another_problem_served_by_the_same_functions")
    for step in range(1 + len(spec["chain"])):
        c = dict(cfg, maxiter=maxiter, x0_same_object=True)
        scaler_leg = bool(spec.get("scaler_on_restart") and step == 1)
        if scaler_leg:
            c["scaler"] = float(spec["scaler_on_restart"])  # a gradient scaler given on the first continuation only
        if spec.get("target_first") and step == 0:
            c["ftarget"] = 1e300
            out.count("chains_whose_first_leg_returns_before_any_gradient")
        ad0 = _AD[0]
        cb_ad = []
        hooks = {"on_cb": (lambda i, xk, st: cb_ad.append(_AD[0] - ad0) and False)}
        tr = probes.run_min(P, c, checkpoint=ck, x0=x0, hooks=hooks)
        ad_total = _AD[0] - ad0
        out.count("runs")
        if tr.exc is not None:
            out.count("runs_raised")
            out.count("raised:" + type(tr.exc).__name__)
            break
        if "scaler" in c and tr.scaler_calls and not scaler_leg:
            s = float(c["scaler"])
            out.count("scaled_runs")
        where = f"{P.spec['family']} n={P.n} step={step}"
        for i, rec in enumerate(tr.cb):
            out.count("states_checked")
            judge_state(out, P, rec["snap"], s, mode, base_nf + rec["nf"], base_ng + rec["ng"], f"{where} callback#{i}", dict(tags, where="callback"),
                        exp_fd_ng=(base_fd + cb_ad[i]) if (_AD[1] and mode != "callable" and i < len(cb_ad)) else None, counters_only=scaler_leg)
            if out.violations:
                break
        if out.violations:
            break
        out.count("results_checked")
        if step > 0:
            out.count("restarts_checked")
        judge_state(out, P, tr.snap, s, mode, base_nf + tr.nf, base_ng + tr.ng, f"{where} result", dict(tags, where="result", restart=step > 0),
                    exp_fd_ng=(base_fd + ad_total) if (_AD[1] and mode != "callable") else None, counters_only=scaler_leg)
        if scaler_leg:
            break  # (the chain ends with this leg: what follows a scaled checkpoint is the open finding recorded for C03)
        if mode != "callable":
            out.count("fd_njev_checked")
        if out.violations:
            break
        # the states handed to the callback, looked at again once the run is over (a user who keeps them, e.g. to pick the best)
        for i, rec in enumerate(tr.cb):
            out.count("callback_states_reinspected_after_the_run")
            bad = probes.diff_states(probes.snap_state(rec["ref"]), rec["snap"])
            if bad:
                out.violate("kept_state_changed", f"{where}: the state handed to callback #{i} changed after the callback returned (fields {bad}): "
                            f"its fun/jac no longer belong to its x", **dict(tags, where="kept_callback_state"))
                break
        if out.violations:
            break
        if cfg.get("reuse_grad_buffer"):
            out.count("runs_with_reused_gradient_buffer")
        if cfg.get("reuse_value_buffer"):
            out.count("runs_whose_objective_returns_one_reused_array_overwritten_by_the_gradient_code")
        if cfg.get("logger"):
            out.count("runs_with_logger")
        if P.spec["family"] == "sqrt_floor":
            out.count("runs_on_objective_with_infinite_gradient_at_a_bound")
            if tr.snap is not None and not np.all(np.isfinite(np.asarray(tr.snap["jac"], dtype=float))):
                out.count("results_with_non_finite_gradient")
        if P.spec.get("start_scale"):
            out.count("runs_from_a_start_beyond_unit_step_resolution")
            if np.array_equal(tr.snap["x"], tr.evals[0][1]):
                out.count("runs_that_could_not_leave_x0")  # every trial point rounded back onto x0 (served from the memo)
        nre += reevaluated(tr)
        kept.append((step, tr.result, tr.snap))
        for kstep, kres, ksnap in kept[:-1]:
            out.count("kept_results_rechecked")
            bad = probes.diff_states(probes.snap_state(kres), ksnap)
            if bad:
                out.violate("kept_result_changed", f"{where}: the result returned by step {kstep} changed afterwards (fields {bad}) although it was only "
                            f"used as `checkpoint=` / `x0=result.x` of a restart: its fun/jac no longer belong to its x", **dict(tags, where="kept"))
                break
        if out.violations:
            break
        if step < len(spec["chain"]):
            ck = tr.result
            # the idiom of the package's own tests: x0=previous.x (the very same array), checkpoint=previous
            x0 = tr.result.x if step % 2 == 0 else np.array(tr.result.x, dtype=float, copy=True)
            base_nf, base_ng = int(tr.result.nfev), int(tr.result.njev)
            base_fd = int(tr.result.njev)
            maxiter = int(tr.result.nit) + spec["chain"][step]
            chain_len += 1
    out.count("accepted_not_last_trial", nre)
    out.nontrivial = nre > 0 or chain_len >= 2
    out.key = f"{P.spec['family']}/{P.n}/{P.spec['seed']}/{cfg['jac']}/{cfg['maxls']}/{len(spec['chain'])}"
    out.sample = dict(spec=spec, chain_done=chain_len, reevaluated=nre)
    return out


def selftest():
    res = []
    P = gen.make_problem({"family": "rosenbrock", "n": 3, "seed": 1, "box": "none", "start": "interior"})
    x = P.x0.copy()
    good = dict(x=x, fun=P.f(x), jac=P.g(x), nfev=4, njev=4)
    o = Outcome()
    judge_state(o, P, good, 1.0, "callable", 4, 4, "selftest", {})
    res.append(("silent on a coherent state", not o.violations))
    o = Outcome()
    judge_state(o, P, dict(good, fun=P.f(x + 1e-9)), 1.0, "callable", 4, 4, "selftest", {})
    res.append(("flags a value cached from another point", any(v["mech"] == "fun_not_at_x" for v in o.violations)))
    o = Outcome()
    judge_state(o, P, dict(good, njev=3), 1.0, "callable", 4, 4, "selftest", {})
    res.append(("flags a drifting counter", any(v["mech"] == "njev_mismatch" for v in o.violations)))
    return res
