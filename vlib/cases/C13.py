"""C13 - redefining the objective on the fly acts as a restart on the new objective."""

from __future__ import annotations

from collections import deque

import numpy as np

from .. import gen, probes
from ..common import Outcome, subseed
from ..e2e import MESSAGES
from ..oracles import EPS

LEVEL = "exploration"
RULE = ("kinds: (identity) a run with an update function returning its inputs vs the run without it (result, every callback state and the "
        "evaluation log bit-identical); (switch) at the k-th call of the update function (k=0 is the initial call) the user's objective "
        "changes from f_A to f_B and the function rewrites the stored gradients with grad f_B at the stored points: f_B = c*f_A (rescaling), "
        "data + lambda*regulariser with lambda changed, or f_A + x'Qx/2 with Q indefinite sized so that a fraction of the stored pairs lose "
        "curvature; box QP based, n 2..8, maxcor 1..6. Monitors after the switch: (ii) pairs of every later state are bit-exact differences "
        "of grad f_B at retained visited iterates, in order, each with s.y > eps*y.y, and the chain ends at the current x; (iii) the next "
        "iterate equals the first iterate of a restart on f_B from the callback state of the switch iteration; (switch_fd) the same with finite-difference gradient modes (3-point, cs, 2-point, None) on a box whose corners are tried repeatedly, the objective redefined through args: states after the switch carry fun == f_B(x) bit for bit and the derivative of f_B, the next iterate equals that of a restart on f_B. Non-trivial = switch after "
        "which >=1 stored pair was dropped; distinct = distinct specs")
ASSUMPTIONS = [
    "the harness's update function rewrites every stored gradient with the exact gradient of f_B at the stored point (times 1: no scaler)",
    "continuation tolerance 1e-9 relative; pair comparisons bit-exact",
    "which older points survive the curvature filter is not prescribed; only that retained pairs have curvature and are genuine differences",
]
XT = 1e-9
CMP = ("x", "fun", "jac", "nfev", "njev", "nit", "message", "sk", "yk")


def floors(tier):
    return {"identity_pairs_compared": 60, "switch_runs": 250, "post_switch_states_checked": 800, "switches_dropping_pairs": 40,
            "switches_newest_pair_rejected": 5, "restart_equivalence_checked": 250, "initial_call_rewrites_on_restart": 100, "redefinitions_written_in_place_and_with_new_arrays_compared": 100, "switch_runs_traced_through_a_logger": 100, "filter_calls_on_histories_of_12_to_45_pairs": 300, "pairs_of_zero_iteration_continuations_checked": 60, "switch_runs_with_new_objective_undefined_at_an_old_iterate": 40, "switch_runs_with_inert_differencing_step": 100, "fd_switch_runs": 100, "fd_post_switch_states_checked": 100, "fd_continuations_compared_with_restart": 30, "__nontrivial__": 40}


def cases(tier, seed):
    rng = np.random.default_rng(subseed("C13", seed))
    ni = 120 if tier == "quick" else 4000
    for i in range(ni):
        ps = gen.rand_spec(rng, gen.ALL_FAMILIES, nmax=6)
        yield {"kind": "identity", "problem": ps, "maxcor": int(rng.integers(1, 8)), "maxls": int(gen.pick(rng, [2, 5, 20])),
               "maxiter": int(rng.integers(2, 15)), "ftol": float(gen.pick(rng, [0.0, 1e-8]))}
    # fixed witness of the open finding "newest point dropped at the rewrite iteration" (known_findings.json)
    yield {"kind": "switch", "problem": {"family": "qp_quartic", "n": 6, "seed": 1828890800, "cond": float.fromhex("0x1.37dc1e737010fp+1"),
                                         "box": "lower", "start": "face"}, "maxcor": 4, "maxiter": 13, "switch_at": 5,
           "variant": "indefinite", "vseed": 357448698, "strength": float.fromhex("0x1.084793496945fp+1")}
    ns = 500 if tier == "quick" else 20000
    for i in range(ns):
        ps = gen.rand_spec(rng, ("qp", "qp_quartic"), nmax=8, nmin=2, boxes=("none", "mixed", "boxed", "lower"),
                           starts=("interior", "face", "vertex"), condmax=1e3)
        yield {"kind": "switch", "problem": ps, "maxcor": int(rng.integers(1, 7)), "maxiter": int(rng.integers(6, 14)),
               "switch_at": int(rng.integers(0, 7)), "variant": gen.pick(rng, ["rescale", "reg", "indefinite", "indefinite", "indefinite"]),
               "vseed": int(rng.integers(0, 2**31 - 1)), "strength": float(rng.uniform(0.3, 3.0)),
               "eps_SY": float(gen.pick(rng, [2.2e-16, 2.2e-16, 1e-3, 1e-2, 0.1])),
               "rewrite": gen.pick(rng, ["new_deque", "new_deque", "same_deque", "same_arrays"]),
               "undefined_at": int(rng.integers(0, 8)) if i % 6 == 5 else None, "fd_step": float(gen.pick(rng, [1e-3, 1e-2, 0.1])) if i % 3 == 1 else None}
    for i in range(300 if tier == "quick" else 10000):
        # a new term that leaves the first variable out, written into the stored gradient arrays in place (same objects, same first
        # components, other contents), in a process that has redefined many objectives before
        ps = gen.rand_spec(rng, ("qp", "qp_quartic"), nmax=8, nmin=3, boxes=("none", "mixed", "boxed", "lower"), starts=("interior", "face"), condmax=1e3)
        yield {"kind": "switch", "problem": ps, "maxcor": int(rng.integers(3, 9)), "maxiter": int(rng.integers(8, 16)), "switch_at": int(rng.integers(3, 8)),
               "variant": "indefinite_skip0", "vseed": int(rng.integers(0, 2**31 - 1)), "strength": float(rng.uniform(0.5, 3.0)),
               "eps_SY": float(gen.pick(rng, [2.2e-16, 1e-3, 1e-2])), "rewrite": "same_arrays", "undefined_at": None, "fd_step": None}
    for i in range(200 if tier == "quick" else 6000):
        ps = gen.rand_spec(rng, ("qp", "qp_quartic", "qp_softplus", "rosenbrock"), nmax=7, nmin=2, boxes=("none", "mixed", "boxed", "lower"), starts=("interior", "face", "vertex"), condmax=1e3)
        yield {"kind": "in_place_vs_copy", "problem": ps, "maxcor": int(rng.integers(1, 8)), "maxiter": int(rng.integers(3, 14)),
               "switch_at": int(gen.pick(rng, [0, 0, 0, 1, 2, 4])), "vseed": int(rng.integers(0, 2**31 - 1)), "strength": float(np.exp(rng.uniform(-2, 1.5)))}
    for i in range(100 if tier == "quick" else 4000):
        # the curvature filter applied to a rewritten history, called directly on histories of up to 45 pairs (every retained pair must
        # satisfy the condition with respect to the points actually kept around it)
        yield {"kind": "filter", "seed": subseed("C13f", seed, i) % (2**31), "count": 30}
    for i in range(160 if tier == "quick" else 6000):
        # scale: 25 to 45 variables, a memory of 17 to 30 pairs, filled before the objective is redefined
        ps = gen.rand_spec(rng, ("qp", "qp_quartic"), nmax=45, nmin=25, boxes=("none", "mixed", "boxed", "lower"), starts=("interior", "face"), condmax=1e3)
        mc = int(rng.integers(17, 31))
        yield {"kind": "switch", "problem": ps, "maxcor": mc, "maxiter": mc + int(rng.integers(6, 14)), "switch_at": mc + int(rng.integers(1, 5)),
               "variant": gen.pick(rng, ["indefinite", "indefinite", "reg"]), "vseed": int(rng.integers(0, 2**31 - 1)), "strength": float(rng.uniform(0.1, 1.5)),
               "eps_SY": float(gen.pick(rng, [2.2e-16, 1e-5, 1e-3, 1e-2])), "rewrite": gen.pick(rng, ["new_deque", "same_deque", "same_arrays"]),
               "undefined_at": None, "fd_step": None, "large": True}
    for i in range(200 if tier == "quick" else 6000):
        ps = gen.rand_spec(rng, ("qp", "qp_quartic"), nmax=8, nmin=2, boxes=("none", "mixed", "boxed", "lower"), starts=("interior", "face"), condmax=1e2)
        yield {"kind": "switch", "problem": ps, "maxcor": int(rng.integers(2, 7)), "maxiter": int(rng.integers(6, 14)), "switch_at": int(rng.integers(2, 7)),
               "variant": "newest_only", "vseed": int(rng.integers(0, 2**31 - 1)), "strength": float(rng.uniform(0.2, 3.0)),
               "eps_SY": float(gen.pick(rng, [2.2e-16, 2.2e-16, 1e-3])), "rewrite": gen.pick(rng, ["new_deque", "same_deque", "same_arrays", "same_arrays"]),
               "undefined_at": None, "fd_step": None}
    for i in range(300 if tier == "quick" else 9000):
        # objectives in units of 1e-9 .. 1e-13 (gradient differences far below any absolute tolerance a shortcut might use), or a
        # redefinition that changes the gradients in the sixth to eighth digit only, under thresholds at which the newest pair is often
        # rejected in the very iteration of the rewrite
        ps = gen.rand_spec(rng, ("qp", "qp_quartic"), nmax=8, nmin=2, boxes=("none", "mixed", "boxed", "lower"), starts=("interior", "face"), condmax=1e2)
        faint = i % 3 == 2
        yield {"kind": "switch", "problem": ps, "maxcor": int(rng.integers(2, 7)), "maxiter": int(rng.integers(6, 14)), "switch_at": int(rng.integers(2, 7)),
               "variant": "faint" if faint else gen.pick(rng, ["indefinite", "newest_only", "newest_only", "reg"]), "vseed": int(rng.integers(0, 2**31 - 1)),
               "strength": float(rng.uniform(0.3, 3.0)), "eps_SY": float(gen.pick(rng, [2.2e-16, 1e-2, 0.1, 0.3, 0.5])),
               "rewrite": gen.pick(rng, ["new_deque", "same_deque", "same_arrays"]), "undefined_at": None, "fd_step": None,
               "units": None if faint else float(10.0 ** -rng.uniform(9, 13))}
    for i in range(150 if tier == "quick" else 5000):
        ps = gen.rand_spec(rng, ("qp", "qp_quartic"), nmax=8, nmin=2, boxes=("mixed", "boxed", "lower", "boxed"), starts=("interior", "face"), condmax=1e2)
        yield {"kind": "switch_at_solution", "problem": ps, "maxcor": int(rng.integers(1, 7)), "maxiter": int(rng.integers(3, 12)),
               "variant": gen.pick(rng, ["rescale", "reg", "reg", "reg"]), "vseed": int(rng.integers(0, 2**31 - 1)), "strength": float(rng.uniform(0.3, 3.0)),
               "rewrite": gen.pick(rng, ["new_deque", "same_deque", "same_arrays"])}
    for i in range(240 if tier == "quick" else 8000):
        # finite-difference modes with an objective redefined through args; corners and faces of the box are tried repeatedly
        yield {"kind": "switch_fd", "n": int(rng.integers(2, 5)), "jac": ["3-point", "cs", "2-point", None][i % 4], "switch_at": int(rng.integers(1, 4)),
               "maxcor": int(rng.integers(1, 6)), "vseed": int(rng.integers(0, 2**31 - 1))}
    nr = 200 if tier == "quick" else 8000
    for i in range(nr):
        ps = gen.rand_spec(rng, ("qp", "qp_quartic"), nmax=8, nmin=2, boxes=("none", "mixed", "boxed", "lower"),
                           starts=("interior", "face", "vertex"), condmax=1e3)
        yield {"kind": "switch_on_restart", "problem": ps, "maxcor": int(rng.integers(1, 7)), "stop_at": int(rng.integers(1, 8)),
               "variant": gen.pick(rng, ["rescale", "reg", "indefinite", "indefinite"]), "vseed": int(rng.integers(0, 2**31 - 1)),
               "strength": float(rng.uniform(0.3, 3.0)), "eps_SY": float(gen.pick(rng, [2.2e-16, 2.2e-16, 1e-3, 1e-2, 0.1, 0.1, 0.3, 0.5])),
               "rewrite": gen.pick(rng, ["new_deque", "new_deque", "same_deque", "same_arrays"]), "fd_step": float(gen.pick(rng, [1e-3, 1e-2, 0.1])) if i % 3 == 1 else None}


# ---------------------------------------------------------------------------
def make_fB(P, spec):
    rng = np.random.default_rng(spec["vseed"])
    n = P.n
    if spec["variant"] == "rescale":
        c = float(np.exp(rng.uniform(-2, 2)))
        return (lambda x: c * P.f(x)), (lambda x: c * P.g(x)), f"rescale c={c:.3g}"
    if spec["variant"] == "reg":
        lam = float(np.exp(rng.uniform(-2, 3))) * float(spec.get("units") or 1.0)
        return (lambda x: P.f(x) + 0.5 * lam * float(x @ x)), (lambda x: P.g(x) + lam * x), f"reg lambda={lam:.3g}"
    if spec["variant"] == "newest_only":
        # a concave term along the NEWEST step only, fixed at the moment of the switch (see arm_newest_only): the pair formed by the last
        # stored point and the new iterate loses its curvature, the older pairs mostly keep theirs
        dyn = {"u": None, "gamma": 0.0, "anchor": None}

        def fB(x):
            if dyn["u"] is None:
                return P.f(x)
            t = float(dyn["u"] @ (x - dyn["anchor"]))
            return P.f(x) - 0.5 * dyn["gamma"] * t * t

        def gB(x):
            if dyn["u"] is None:
                return P.g(x)
            return P.g(x) - dyn["gamma"] * float(dyn["u"] @ (x - dyn["anchor"])) * dyn["u"]

        fB.dyn = dyn
        return fB, gB, "concave along the newest step"
    Qm, _ = np.linalg.qr(rng.standard_normal((n, n)))
    eigs = np.linalg.eigvalsh(P.meta["A"])
    # sized relative to the typical curvature so that a sizeable fraction of the stored pairs loses curvature
    ev = rng.standard_normal(n) * spec["strength"] * float(np.exp(np.mean(np.log(eigs))) + 1.0 * float(spec.get("units") or 1.0)) * 0.5
    Q = (Qm * ev) @ Qm.T
    Q = (Q + Q.T) / 2
    if spec["variant"] == "faint":
        Q = Q * float(10.0 ** -rng.uniform(6, 8))
        return (lambda x: P.f(x) + 0.5 * float(x @ (Q @ x))), (lambda x: P.g(x) + Q @ x), "indefinite, in the sixth to eighth digit of the gradients"
    if spec["variant"] == "indefinite_skip0":
        # the new term does not involve the first variable (an intercept left out of a penalty): the first component of every gradient
        # is what it was
        Q[0, :] = 0.0
        Q[:, 0] = 0.0
        return (lambda x: P.f(x) + 0.5 * float(x @ (Q @ x))), (lambda x: P.g(x) + Q @ x), "indefinite, first variable not involved"
    return (lambda x: P.f(x) + 0.5 * float(x @ (Q @ x))), (lambda x: P.g(x) + Q @ x), "indefinite"


def arm_newest_only(spec, P, fB, x, X):
    dyn = getattr(fB, "dyn", None)
    if dyn is None or dyn["u"] is not None or not len(X):
        return
    sv = np.asarray(x, dtype=float) - np.asarray(X[-1], dtype=float)
    ss = float(sv @ sv)
    if not ss > 0:
        return
    kappa = float(sv @ (P.g(np.array(x, dtype=float, copy=True)) - P.g(np.array(X[-1], dtype=float, copy=True)))) / ss
    dyn["u"], dyn["anchor"] = sv / np.sqrt(ss), np.array(X[-1], dtype=float, copy=True)
    dyn["gamma"] = abs(kappa) * (1.0 + float(spec.get("strength", 1.0)))


def rewritten_history(spec, X, G, gB):
    """How the user's update function hands the rewritten gradients back: a new deque (default), the same deque with its
    entries replaced, or the same deque and the same arrays overwritten in place."""
    mode = spec.get("rewrite", "new_deque")
    if spec.get("undefined_at") is not None and len(X) >= 2:
        # the new objective is not defined (its gradient is nan) at one of the OLD stored iterates: that point cannot take part in any
        # retained pair
        bad = int(spec["undefined_at"]) % (len(X) - 1)
        inner = gB

        def gB(p, inner=inner, pt=np.array(X[bad], copy=True)):  # noqa: F811
            return np.full(p.shape, np.nan) if np.array_equal(p, pt) else inner(p)

    if mode == "new_deque":
        return deque(gB(np.array(p, copy=True)) for p in X)
    for i, p in enumerate(X):
        v = gB(np.array(p, copy=True))
        if mode == "same_arrays":
            G[i][:] = v
        else:
            G[i] = v
    return G


class Switched:
    """A Problem-like view whose objective changes definition when .on is set."""

    def __init__(self, P, fB, gB):
        self.P = P
        self.n, self.lb, self.ub, self.x0, self.bounds, self.spec, self.meta = P.n, P.lb, P.ub, P.x0, P.bounds, P.spec, P.meta
        self.fA, self.gA, self.fB, self.gB = P.f, P.g, fB, gB
        self.on = False

    def f(self, x):
        return (self.fB if self.on else self.fA)(x)

    def g(self, x):
        return (self.gB if self.on else self.gA)(x)


def chain_on(sk, yk, X, GB, eps):
    """Match the pairs as a chain over visited iterates X with gradients GB (bit-exact). Returns list of indices or None."""
    m = sk.shape[0]
    N = len(X)
    for end in range(N - 1, -1, -1):
        b = end
        idx = [b]
        j = m - 1
        while j >= 0:
            found = None
            for a in range(b - 1, -1, -1):
                if np.array_equal(sk[j], X[b] - X[a]) and np.array_equal(yk[j], GB[b] - GB[a]):
                    found = a
                    break
            if found is None:
                break
            idx.append(found)
            b = found
            j -= 1
        if j < 0:
            return idx[::-1]
    return None


def run_identity(spec, out):
    P = gen.make_problem(spec["problem"])
    cfg = dict(jac="callable", maxcor=spec["maxcor"], maxls=spec["maxls"], maxiter=spec["maxiter"], ftol=spec["ftol"], gtol=1e-9, cb="never", maxfun=5000)
    A = probes.run_min(P, cfg)
    B = probes.run_min(P, dict(cfg, ufd="identity"))
    out.count("identity_pairs_compared")
    tags = dict(kind="identity", family=P.spec["family"])
    name = f"identity {P.spec['family']} n={P.n}"
    if (A.exc is None) != (B.exc is None):
        out.violate("identity_update_changes_run", f"{name}: one of the two runs raised ({A.exc!r} / {B.exc!r})", **tags)
        return
    if A.exc is not None:
        out.count("both_raised")
        return
    same_log = len(A.evals) == len(B.evals) and all(a[0] == b[0] and np.array_equal(a[1], b[1]) for a, b in zip(A.evals, B.evals))
    bad = probes.diff_states(A.snap, B.snap, fields=CMP)
    if bad or not same_log or len(A.cb) != len(B.cb):
        out.violate("identity_update_changes_run", f"{name}: with an update function returning its inputs, fields {bad} / evaluation log "
                    f"({len(A.evals)} vs {len(B.evals)} calls) / callbacks ({len(A.cb)} vs {len(B.cb)}) differ from the run without it", **tags)
        return
    for i, (ra, rb) in enumerate(zip(A.cb, B.cb)):
        bad = probes.diff_states(ra["snap"], rb["snap"], fields=CMP)
        if bad:
            out.violate("identity_update_changes_run", f"{name}: callback state #{i}: fields {bad} differ", **tags)
            return
    if len(B.ufd) != int(B.snap["nit"]) + 1 - sum(1 for _ in ()):
        out.count("identity_ufd_call_count_differs_from_nit_plus_1")
    out.nontrivial = True


def switch_trace(spec, extra_cfg=None):
    """One objective-switching run (used by C14 to vary logging on exactly this workload)."""
    P0 = gen.make_problem(spec["problem"])
    fB, gB, desc = make_fB(P0, spec)
    S = Switched(P0, fB, gB)
    calls = {"n": 0}

    def ufd(x, f0, f0_old, grad, X, G):
        j = calls["n"]
        calls["n"] += 1
        if j == spec["switch_at"] and not S.on:
            S.on = True
            arm_newest_only(spec, P0, fB, x, X)
            Gn = rewritten_history(spec, X, G, gB)
            xo = np.array(X[-1], copy=True) if len(X) else np.array(x, copy=True)
            return fB(np.array(x, copy=True)), fB(xo), gB(np.array(x, copy=True)), Gn
        return f0, f0_old, grad, G

    cfg = dict(jac="callable", maxcor=spec["maxcor"], maxls=20, maxiter=spec["maxiter"], ftol=0.0, gtol=1e-10, maxfun=10000,
               eps_SY=float(spec.get("eps_SY", 2.2e-16)))
    if int(spec.get("vseed", 0)) % 3 == 1:
        cfg.update(logger=True, iprint=int([-1, 0, 99, 101][int(spec.get("vseed", 0)) // 3 % 4]))  # traced through the user's logger
    cfg.update(extra_cfg or {})
    return probes.run_min(S, cfg, hooks={"ufd": ufd})


def in_units(P, u):
    """the same problem with objective and gradient expressed in units of u"""
    meta = dict(P.meta)
    if "A" in meta:
        meta["A"] = u * np.asarray(meta["A"])
    return gen.Problem(dict(P.spec, units=u), P.n, (lambda x: u * P.f(x)), (lambda x: u * P.g(x)), P.lb, P.ub, P.x0, meta)


def run_switch(spec, out):
    P0 = gen.make_problem(spec["problem"])
    if spec.get("units"):
        P0 = in_units(P0, float(spec["units"]))
        out.count("switch_runs_in_units_of_1e-9_and_below")
    if spec["variant"] == "faint":
        out.count("switch_runs_changing_the_gradients_in_the_sixth_digit_and_beyond")
    fB, gB, desc = make_fB(P0, spec)
    S = Switched(P0, fB, gB)
    eps_sy = float(spec.get("eps_SY", 2.2e-16))
    info = {"calls": 0, "switched_at_call": None, "nX_at_switch": None, "seen_points": []}

    def ufd(x, f0, f0_old, grad, X, G):
        j = info["calls"]
        info["calls"] += 1
        if j == spec["switch_at"] and not S.on:
            S.on = True
            info["switched_at_call"] = j
            info["nX_at_switch"] = len(X)
            arm_newest_only(spec, P0, fB, x, X)
            Gn = rewritten_history(spec, X, G, gB)
            xo = np.array(X[-1], copy=True) if len(X) else np.array(x, copy=True)
            return fB(np.array(x, copy=True)), fB(xo), gB(np.array(x, copy=True)), Gn
        return f0, f0_old, grad, G

    cfg = dict(jac="callable", maxcor=spec["maxcor"], maxls=20, maxiter=spec["maxiter"], ftol=0.0, gtol=1e-10 * float(spec.get("units") or 1.0), cb="never", maxfun=10000,
               eps_SY=eps_sy)
    if spec.get("fd_step") is not None:
        cfg["eps"] = spec["fd_step"]  # differencing step: inert with a callable gradient, passed at a non-default value
        out.count("switch_runs_with_inert_differencing_step")
    if int(spec.get("vseed", 0)) % 3 == 1:
        cfg.update(logger=True, iprint=int([-1, 0, 99, 101][int(spec.get("vseed", 0)) // 3 % 4]))  # traced through the user's logger
        out.count("switch_runs_traced_through_a_logger")
    tr = probes.run_min(S, cfg, hooks={"ufd": ufd})
    name = f"switch {P0.spec['family']} n={P0.n} maxcor={spec['maxcor']} eps_SY={eps_sy:g} {desc} at call {spec['switch_at']}"
    tags = dict(kind="switch", variant=spec["variant"])
    out.count("switch_runs")
    if spec.get("undefined_at") is not None:
        out.count("switch_runs_with_new_objective_undefined_at_an_old_iterate")
    if tr.exc is not None:
        olde = np.seterr(all="ignore")
        big = max([float(np.max(np.abs(np.asarray(v, dtype=float)))) for kd, _x, v in tr.evals if kd == "g" and np.size(v)] + [0.0])
        np.seterr(**olde)
        if not big < 1e100:
            # the redefined objective is unbounded below on this (unbounded) domain and the run has followed it to gradients of 1e100 and
            # more: g.g overflows in any implementation. A property of the workload's objective, not of the update mechanism (thorough
            # sweep, seed 1: n=34, no bounds, indefinite term; |g| = 1e156 when scipy's finiteness check raised)
            out.count("switch_runs_diverging_on_an_objective_unbounded_below")
            return
        out.violate("switch_run_raised", f"{name}: {tr.exc!r}", exc=type(tr.exc).__name__, **tags)
        return
    if info["switched_at_call"] is None:
        out.count("switch_never_reached")
        return
    # visited iterates and gradients of f_B there
    X = [np.clip(P0.x0, P0.lb, P0.ub)] + [np.array(r["xk"], dtype=float) for r in tr.cb]
    if not np.array_equal(tr.snap["x"], X[-1]):
        X.append(np.array(tr.snap["x"], dtype=float))
    GB = [gB(p.copy()) for p in X]
    # callback #i is made after update-function call #(i+1); states from the switch on are "later states"
    first_state = max(spec["switch_at"] - 1, 0)
    dropped_any = False
    newest_rejected = False
    states = [(i, r["snap"]) for i, r in enumerate(tr.cb)] + [("result", tr.snap)]
    prev_pairs = None
    for i, snap in states:
        idx_state = len(tr.cb) if i == "result" else i
        if idx_state < first_state:
            prev_pairs = snap["sk"].shape[0]
            continue
        out.count("post_switch_states_checked")
        sk, yk = snap["sk"], snap["yk"]
        m = sk.shape[0]
        where = f"{name}: state {i} ({m} pairs)"
        if m > spec["maxcor"]:
            out.violate("too_many_pairs", f"{where}: maxcor={spec['maxcor']}", **tags)
            return
        # position of the state's x among the visited iterates
        upto = (idx_state + 2) if i != "result" else len(X)
        Xs, Gs = X[:upto], GB[:upto]
        if m > 0 and not (np.all(np.isfinite(sk)) and np.all(np.isfinite(yk))):
            out.violate("retained_pair_without_curvature", f"{where}: a retained pair has non-finite entries (the new objective is undefined at one "
                        f"of the old stored iterates: no pair through that point satisfies the curvature condition)", **tags)
            return
        if m > 0:
            curv = np.einsum("ij,ij->i", sk, yk)
            yy = np.einsum("ij,ij->i", yk, yk)
            if not np.all(curv > eps_sy * yy):
                j = int(np.argmin(curv - eps_sy * yy))
                out.violate("retained_pair_without_curvature", f"{where}: pair {j} has s.y={curv[j]!r} <= eps*y.y after the rewrite", **tags)
                return
            idx = chain_on(sk, yk, Xs, Gs, eps_sy)
            if idx is None:
                out.violate("pairs_not_differences_of_rewritten_gradients", f"{where}: the pairs are not bit-exact differences of grad f_B between "
                            f"retained visited iterates", **tags)
                return
            ends_at_current = idx[-1] == len(Xs) - 1 or np.array_equal(Xs[idx[-1]], snap["x"])
        else:
            ends_at_current = True  # empty memory: nothing but the current point is retained
            idx = []
        if idx_state == first_state and info["nX_at_switch"]:
            before = info["nX_at_switch"] - 1  # pairs stored when the rewrite happened
            if m < min(before + 1, spec["maxcor"]):
                dropped_any = True
        stopped_before_update = i == "result" and snap["message"] in (MESSAGES["FTOL"], MESSAGES["TARGET"])
        if idx_state == first_state and info["nX_at_switch"]:
            out.count("rewrite_states_checked_for_newest_point")
        if not ends_at_current and not stopped_before_update and idx_state == first_state:
            # judged at the state of the iteration in which the gradients were rewritten; in later iterations the update
            # function returns its inputs and an ordinary rejected pair behaves as in a run without update function
            # (a result stopped by the ftol/target test is returned before the memory update of its last iteration,
            #  exactly as in a run without update function: not judged here)
            if not newest_rejected:
                out.violate("newest_point_not_retained", f"{where}: after the gradients were rewritten the pairs end at visited iterate #{idx[-1]} "
                            f"instead of the current x (#{len(Xs) - 1}): the newest point was dropped", **tags)
            newest_rejected = True
        prev_pairs = m
    if dropped_any:
        out.count("switches_dropping_pairs")
    if newest_rejected:
        out.count("switches_newest_pair_rejected")
    # (iii) the live run continued as a restart on f_B would
    ks = first_state  # callback index of the switch iteration
    if spec["switch_at"] >= 1 and ks < len(tr.cb) and ks + 1 < len(X) - 0:
        st = tr.cb[ks]["ref"]
        nit = int(tr.cb[ks]["snap"]["nit"])
        live_next = None
        for r in tr.cb[ks + 1:]:
            if int(r["snap"]["nit"]) == nit + 1:
                live_next = r["snap"]["x"]
                break
        if live_next is None and int(tr.snap["nit"]) == nit + 1:
            live_next = tr.snap["x"]
        if live_next is not None:
            PB = Switched(P0, fB, gB)
            PB.on = True
            rs = probes.run_min(PB, dict(cfg, maxiter=nit + 1, cb=None), checkpoint=st, x0=np.array(st.x, dtype=float, copy=True))
            out.count("restart_equivalence_checked")
            if rs.exc is not None:
                out.violate("restart_on_new_objective_raised", f"{name}: {rs.exc!r}", **tags)
                return
            e = float(np.max(np.abs(np.asarray(rs.snap["x"]) - live_next)) / max(1.0, float(np.max(np.abs(live_next)))))
            out.maxi("max_restart_equivalence_relerr", e)
            if not (e <= XT) and tr.cb[ks]["snap"]["sk"].shape[0] > P0.n:
                out.count("skipped_rank_deficient_memory")
            elif not (e <= XT) and (probes.grazes_bound(st.x, P0.lb, P0.ub) or probes.rounding_sensitive(
                    lambda ck: probes.run_min(PB, dict(cfg, maxiter=nit + 1, cb=None), checkpoint=ck, x0=np.array(st.x, dtype=float, copy=True)),
                    st, rs.snap["x"], XT, seed=spec.get("vseed", 0), trials=6)):
                # a discrete decision of the step (active set, maximum feasible step) sits within rounding distance of its
                # threshold: the live run's matrices and the restart's (rebuilt from differences) differ in the last bits only,
                # yet the steps differ. Not a finding (DESIGN.md 4.4 / 10.4)
                out.count("skipped_rounding_sensitive_step")
            elif not (e <= XT):
                out.violate("continuation_differs_from_restart_on_new_objective", f"{name}: iterate {nit + 1} of the live run differs by {e:.3e} (relative) "
                            f"from the first iterate of a restart on f_B from the state of iteration {nit}: the matrices the live run used are "
                            f"not those of the pairs it reports", **tags)
                return
    out.nontrivial = dropped_any
    out.sample = dict(spec=spec, variant=desc, callbacks=len(tr.cb), pairs_at_switch=info["nX_at_switch"])


def run_switch_on_restart(spec, out):
    """The documented use of checkpoints together with update_fun_def: a run on f_A is stopped, the objective changes to f_B, and the
    run is continued from the checkpoint with an update function that rewrites the restored gradient history at its initial call.
    The continuation must be the one of a restart on f_B from a checkpoint that holds the rewritten history."""
    from scipy.optimize import LbfgsInvHessProduct

    P0 = gen.make_problem(spec["problem"])
    fB, gB, desc = make_fB(P0, spec)
    eps_sy = float(spec.get("eps_SY", 2.2e-16))
    cfg = dict(jac="callable", maxcor=spec["maxcor"], maxls=20, ftol=0.0, gtol=1e-10, maxfun=10000, eps_SY=eps_sy)
    if spec.get("fd_step") is not None:
        cfg["eps"] = spec["fd_step"]
        out.count("switch_runs_with_inert_differencing_step")
    first = probes.run_min(P0, dict(cfg, maxiter=spec["stop_at"]))
    name = f"switch on restart {P0.spec['family']} n={P0.n} maxcor={spec['maxcor']} eps_SY={eps_sy:g} {desc} after iteration {spec['stop_at']} ({spec.get('rewrite', 'new_deque')})"
    tags = dict(kind="switch_on_restart", variant=spec["variant"])
    out.count("switch_on_restart_runs")
    if first.exc is not None or first.result.nit != spec["stop_at"] or first.result.message != MESSAGES["ITER"]:
        out.count("switch_never_reached")
        return
    ck = first.result
    m = ck.hess_inv.sk.shape[0]
    if m == 0:
        out.count("switch_never_reached")
        return
    S = Switched(P0, fB, gB)
    S.on = True
    info = {"calls": 0, "nX": None}

    def ufd(x, f0, f0_old, grad, X, G):
        j = info["calls"]
        info["calls"] += 1
        if j == 0:
            info["nX"] = len(X)
            info["X"] = [np.array(p, copy=True) for p in X]
            Gn = rewritten_history(spec, X, G, gB)
            xo = np.array(X[-1], copy=True) if len(X) else np.array(x, copy=True)
            return fB(np.array(x, copy=True)), fB(xo), gB(np.array(x, copy=True)), Gn
        return f0, f0_old, grad, G

    # a continuation that performs no iteration: what it returns is the rewritten, filtered history itself; every pair it carries must
    # satisfy the curvature condition with the threshold the user configured
    zero = probes.run_min(S, dict(cfg, maxiter=spec["stop_at"]), hooks={"ufd": ufd}, checkpoint=probes.deep(ck), x0=np.array(ck.x, dtype=float, copy=True))
    if zero.exc is None and info["nX"] is not None and zero.snap["sk"] is not None:
        for j2 in range(zero.snap["sk"].shape[0]):
            sv, yv = zero.snap["sk"][j2], zero.snap["yk"][j2]
            sy, yy = float(sv @ yv), float(yv @ yv)
            out.count("pairs_of_zero_iteration_continuations_checked")
            if not sy > eps_sy * yy * (1 - 1e-9):
                out.violate("retained_pair_violates_curvature_condition", f"{name}: a continuation that performs no iteration returns pair {j2} with "
                            f"s.y={sy!r}, y.y={yy!r}: s.y/y.y = {sy / yy if yy else float('nan'):.3e} <= eps_SY", **tags)
                return
    info["calls"], info["nX"] = 0, None
    live = probes.run_min(S, dict(cfg, maxiter=spec["stop_at"] + 1, cb="never"), hooks={"ufd": ufd}, checkpoint=ck, x0=np.array(ck.x, dtype=float, copy=True))
    if live.exc is not None:
        out.violate("switch_run_raised", f"{name}: {live.exc!r}", exc=type(live.exc).__name__, **tags)
        return
    if info["nX"] is None:
        out.count("switch_never_reached")
        return
    out.count("initial_call_rewrites_on_restart")
    # the reference: a checkpoint holding the rewritten history (the points the update function was shown, gradients of f_B there),
    # filtered by the curvature condition exactly as the statement demands, restarted on f_B without update function
    Xs = info["X"] + [np.array(ck.x, dtype=float, copy=True)]  # the update function is shown the past points; the current one comes with it
    GBs = [gB(p.copy()) for p in Xs]
    keepX, keepG = [Xs[-1]], [GBs[-1]]
    for k in range(len(Xs) - 2, -1, -1):
        sv, yv = keepX[0] - Xs[k], keepG[0] - GBs[k]
        sy, yy = float(sv @ yv), float(yv @ yv)
        if abs(sy - eps_sy * yy) <= 1e-10 * float(np.linalg.norm(sv) * np.linalg.norm(yv)):
            out.count("skipped_degenerate_curvature")
            return
        if sy > eps_sy * yy:
            keepX.insert(0, Xs[k])
            keepG.insert(0, GBs[k])
    if len(keepX) < len(Xs):
        out.count("switches_dropping_pairs")
    newest_pair_rejected = len(Xs) >= 2 and not np.array_equal(keepX[-2] if len(keepX) >= 2 else None, Xs[-2])
    if newest_pair_rejected:
        out.count("switches_newest_pair_rejected")
    ckB = probes.deep(ck)
    skB = np.array([keepX[i + 1] - keepX[i] for i in range(len(keepX) - 1)]).reshape(len(keepX) - 1, P0.n)
    ykB = np.array([keepG[i + 1] - keepG[i] for i in range(len(keepG) - 1)]).reshape(len(keepG) - 1, P0.n)
    ckB["hess_inv"] = LbfgsInvHessProduct(skB, ykB)
    ckB["jac"] = gB(np.array(ck.x, dtype=float, copy=True))
    ckB["fun"] = fB(np.array(ck.x, dtype=float, copy=True))
    ref = probes.run_min(S, dict(cfg, maxiter=spec["stop_at"] + 1), checkpoint=ckB, x0=np.array(ck.x, dtype=float, copy=True))
    if ref.exc is not None:
        out.count("reference_restart_raised")
        return
    out.count("restart_equivalence_checked")
    e = float(np.max(np.abs(live.snap["x"] - ref.snap["x"])) / max(1.0, float(np.max(np.abs(ref.snap["x"])))))
    out.maxi("max_restart_equivalence_relerr", e)
    if not (e <= XT):
        if skB.shape[0] > P0.n:
            out.count("skipped_rank_deficient_memory")
        elif probes.grazes_bound(ck.x, P0.lb, P0.ub) or probes.rounding_sensitive(
                lambda c2: probes.run_min(S, dict(cfg, maxiter=spec["stop_at"] + 1), checkpoint=c2, x0=np.array(ck.x, dtype=float, copy=True)),
                ckB, ref.snap["x"], XT, seed=spec.get("vseed", 0), trials=6):
            out.count("skipped_rounding_sensitive_step")
        elif newest_pair_rejected:
            # same mechanism as the open finding of the in-loop rewrite: the pair (last restored point -> current x) fails the curvature
            # test under f_B and the package drops the current x from the history instead of anchoring the filtered history at it
            out.violate("newest_point_not_retained", f"{name}: the pair formed by the last restored point and the current x fails the curvature test under f_B; "
                        f"the continuation differs by {e:.3e} from a restart on f_B whose history is anchored at the current x: the newest point was dropped", **tags)
            return
        else:
            out.violate("continuation_differs_from_restart_on_new_objective", f"{name}: the run continued from the checkpoint with an update function that rewrote the "
                        f"{info['nX']} restored gradients at its initial call produces iterate {spec['stop_at'] + 1} differing by {e:.3e} (relative) from a restart on "
                        f"f_B from a checkpoint holding the rewritten history: the rewritten history was not the one used", **tags)
            return
    # pairs reported after the restart: differences of grad f_B (the points are rebuilt from the state's x and pairs, which presumes that
    # the pairs end at x: not judged when the newest pair was rejected, see the finding above)
    visited = [np.array(ck.x, dtype=float, copy=True)]
    for i, rec in enumerate([] if newest_pair_rejected else live.cb):
        sk, yk = rec["snap"]["sk"], rec["snap"]["yk"]
        out.count("post_switch_states_checked")
        visited.append(np.array(rec["snap"]["x"], dtype=float))
        worst = None
        # the pairs end at the newest retained iterate: the state's x, or an earlier visited one when the ordinary update of this
        # iteration was rejected
        for anchor in visited[::-1]:
            pts = [anchor]
            for sv in sk[::-1]:
                pts.insert(0, pts[0] - sv)
            dev = 0.0
            for j2 in range(sk.shape[0]):
                ga, gb = gB(pts[j2 + 1].copy()), gB(pts[j2].copy())
                sc = float(np.max(np.abs(ga)) + np.max(np.abs(gb)) + 1e-300)
                dev = max(dev, float(np.max(np.abs(yk[j2] - (ga - gb)))) / sc)
            worst = dev if worst is None else min(worst, dev)
            if dev <= 1e-8:
                break
        if worst is not None and not worst <= 1e-8:
            out.violate("pairs_not_differences_of_rewritten_gradients", f"{name}: callback state #{i}: the pairs are not differences of grad f_B along a chain "
                        f"ending at a visited iterate (smallest relative deviation {worst:.3e})", **tags)
            return
    out.nontrivial = len(keepX) < len(Xs)
    out.sample = dict(spec=spec, variant=desc, pairs_in_checkpoint=m, pairs_kept=len(keepX) - 1)


def run_in_place_vs_copy(spec, out):
    """The objective gains a linear term t.x at the k-th call of the update function (k = 0: the call made before the first iteration). The
    update is written twice: once handing back NEW arrays holding the corrected values, once adding the correction IN PLACE to every array
    it is handed (current gradient and stored gradients) and handing the same objects back. Both describe the same redefinition and the
    two runs must coincide digit for digit."""
    from collections import deque

    P0 = gen.make_problem(spec["problem"])
    rng = np.random.default_rng(spec["vseed"])
    t = rng.standard_normal(P0.n) * float(spec["strength"])
    res = []
    for mode in ("copy", "in_place"):
        S = Switched(P0, (lambda x: P0.f(x) + float(t @ x)), (lambda x: P0.g(x) + t))
        calls = {"n": 0}

        def ufd(x, f0, f0_old, grad, X, G, S=S, calls=calls, mode=mode):
            j = calls["n"]
            calls["n"] += 1
            if j != spec["switch_at"] or S.on:
                return f0, f0_old, grad, G
            S.on = True
            xo = np.asarray(X[-1], dtype=float) if len(X) else np.asarray(x, dtype=float)
            fn, fo = f0 + float(t @ x), f0_old + float(t @ xo)
            if mode == "copy":
                return fn, fo, np.asarray(grad, dtype=float) + t, deque(np.asarray(g, dtype=float) + t for g in G)
            grad += t
            for g in G:
                g += t  # (the stored gradients are those of the PAST points: none of them is the array of the current gradient)
            return fn, fo, grad, G

        cfg = dict(jac="callable", maxcor=spec["maxcor"], maxls=20, maxiter=spec["maxiter"], ftol=0.0, gtol=1e-10, maxfun=10000, cb="never")
        res.append(probes.run_min(S, cfg, hooks={"ufd": ufd}))
    a, b = res
    out.count("redefinitions_written_in_place_and_with_new_arrays_compared")
    name = f"linear term switched on at update call {spec['switch_at']} on {P0.spec['family']} n={P0.n} maxcor={spec['maxcor']}"
    tags = dict(kind="in_place_vs_copy")
    if (a.exc is None) != (b.exc is None):
        out.violate("switch_run_raised", f"{name}: one of the two runs raised ({a.exc!r} / {b.exc!r})", **tags)
        return
    if a.exc is not None:
        out.count("switch_never_reached")
        return
    bad = probes.diff_states(a.snap, b.snap)
    same_log = len(a.evals) == len(b.evals) and all(u[0] == v[0] and np.array_equal(u[1], v[1]) for u, v in zip(a.evals, b.evals))
    if bad or not same_log:
        out.violate("in_place_update_differs_from_copying_update", f"{name}: the update function that corrects the arrays it is handed in place gives fields {bad} / an "
                    f"evaluation log ({len(b.evals)} vs {len(a.evals)} calls) different from the one that hands back new arrays with the same values", **tags)
        return
    out.nontrivial = len(a.cb) >= 2
    out.sample = dict(spec=spec)


def run_switch_at_solution(spec, out):
    """The run starts at the solution of the old objective (a constrained stationary point: zero projected gradient) and the update
    function switches to the new objective at its initial invocation, before any iteration: with nothing stored yet, "restarting on the
    new objective from the rewritten history" is a plain run on the new objective from the same start - same iterates, same length."""
    P0 = gen.make_problem(spec["problem"])
    fB, gB, desc = make_fB(P0, spec)
    cfg = dict(jac="callable", maxcor=spec["maxcor"], maxls=20, maxiter=spec["maxiter"], ftol=0.0, gtol=1e-8, cb="never", maxfun=10000)
    sol = probes.run_min(P0, dict(cfg, maxiter=500, gtol=1e-13, cb=None))
    out.count("switch_at_solution_runs")
    if sol.exc is not None or not np.all(np.isfinite(sol.result.x)) or gen.pg_inf(sol.result.x, P0.g(np.array(sol.result.x, copy=True)), P0.lb, P0.ub) > 1e-9:
        out.count("switch_never_reached")
        return
    xs = np.array(sol.result.x, dtype=float, copy=True)
    S = Switched(P0, fB, gB)
    info = {"calls": 0}

    def ufd(x, f0, f0_old, grad, X, G):
        j = info["calls"]
        info["calls"] += 1
        if j == 0 and not S.on:
            S.on = True
            Gn = rewritten_history(spec, X, G, gB)
            return fB(np.array(x, copy=True)), fB(np.array(x, copy=True)), gB(np.array(x, copy=True)), Gn
        return f0, f0_old, grad, G

    live = probes.run_min(S, cfg, hooks={"ufd": ufd}, x0=xs.copy())
    PB = Switched(P0, fB, gB)
    PB.on = True
    ref = probes.run_min(PB, cfg, x0=xs.copy())
    name = f"switch at the solution of the old objective: {P0.spec['family']} n={P0.n} box={P0.spec['box']} maxcor={spec['maxcor']} {desc}"
    tags = dict(kind="switch_at_solution", variant=spec["variant"])
    if live.exc is not None or ref.exc is not None:
        if (live.exc is None) != (ref.exc is None):
            out.violate("switch_run_raised", f"{name}: run with the update function {'raised ' + repr(live.exc) if live.exc else 'returned'}, plain run on the new "
                        f"objective {'raised ' + repr(ref.exc) if ref.exc else 'returned'}", exc=type(live.exc or ref.exc).__name__, **tags)
        return
    out.count("switch_at_solution_runs_compared")
    ex = float(np.max(np.abs(np.asarray(live.snap["x"]) - np.asarray(ref.snap["x"]))) / max(1.0, float(np.max(np.abs(ref.snap["x"])))))
    if int(live.snap["nit"]) != int(ref.snap["nit"]) or live.snap["message"] != ref.snap["message"] or not (ex <= XT):
        out.violate("continuation_differs_from_restart_on_new_objective", f"{name}: started at the old solution with the switch made at the initial invocation, the run ends "
                    f"after {live.snap['nit']} iterations with {live.snap['message']!r}; a run on the new objective from the same start makes {ref.snap['nit']} "
                    f"iterations and ends with {ref.snap['message']!r} (x differs by {ex:.3e})", **tags)
        return
    out.nontrivial = int(ref.snap["nit"]) >= 1
    out.sample = dict(spec=spec, nit=int(ref.snap["nit"]))


# ---------------------------------------------------------------------------
def run_switch_fd(spec, out):
    """Finite-difference gradient modes with an objective redefined (through a parameter object in args) by the update function. The box
    is [0,4]^n and the regularisation target lies outside it, so line searches try box corners / faces repeatedly: trial points
    bit-identical to points differentiated under the old definition. Monitors: (a) every state handed to the callback after the switch
    and the result carry fun == f_new(x) bit for bit and a gradient that is the derivative of f_new at x to differencing accuracy;
    (b) the next iterate equals (1e-6) the first iterate of a fresh run restarted on f_new from the kept state of the switch iteration."""
    from lbfgsb import minimize_lbfgsb

    rng = np.random.default_rng(int(spec["vseed"]))
    n = int(spec["n"])
    lb, ub = np.zeros(n), np.full(n, 4.0)
    a = rng.uniform(0.5, 3.5, n)
    t = rng.uniform(6.0, 12.0, n) * np.where(rng.random(n) < 0.3, -0.5, 1.0)
    pA = {"k": float(rng.uniform(2.0, 8.0)), "w": 0.0}
    pB = {"k": float(gen.pick(rng, [0.0, 0.0, 0.5])), "w": float(rng.uniform(0.02, 0.5))}
    jac = spec["jac"]

    def fun(x, p):
        return 0.5 * p["k"] * np.sum((x - a) ** 2) + 0.5 * p["w"] * np.sum((x - t) ** 2)

    def gex(x, p):
        return p["k"] * (x - a) + p["w"] * (x - t)

    def go(x0, p, checkpoint, n_iter, switch_at):
        seen, cnt = [], {"n": 0, "switched_with": None}

        def ufd(x, f0, f0_old, grad, X, G):
            j = cnt["n"]
            cnt["n"] += 1
            if switch_at is not None and j == switch_at:
                p.update(pB)
                cnt["switched_with"] = len(X)
                xo = np.array(X[-1], copy=True) if len(X) else np.array(x, copy=True)
                return fun(np.array(x, copy=True), p), fun(xo, p), gex(np.array(x, copy=True), p), deque([gex(np.array(xi, copy=True), p) for xi in X])
            return f0, f0_old, grad, G

        def cb(xk, state):
            seen.append((np.array(xk, copy=True), state, dict(p)))
            return len(seen) >= n_iter

        old = np.seterr(all="ignore")
        try:
            res = minimize_lbfgsb(x0=np.array(x0, copy=True), fun=fun, args=(p,), jac=jac, bounds=np.array([lb, ub]).T, update_fun_def=ufd, checkpoint=checkpoint,
                                  callback=cb, ftol=0.0, gtol=0.0, maxiter=30, maxcor=int(spec["maxcor"]))
        finally:
            np.seterr(**old)
        return seen, res, cnt

    name = f"finite-difference switch jac={jac!r} n={n} switch at call {spec['switch_at']} vseed={spec['vseed']}"
    tags = dict(kind="switch_fd", jac=str(jac))
    x0 = np.where(rng.random(n) < 0.5, 0.0, rng.uniform(0.0, 4.0, n))
    out.count("fd_switch_runs")
    try:
        seen, res, cnt = go(x0, dict(pA), None, int(spec["switch_at"]) + 2, int(spec["switch_at"]))
    except Exception as e:  # noqa
        out.violate("switch_run_raised", f"{name}: {e!r}", exc=type(e).__name__, **tags)
        return
    if cnt["switched_with"] is None or len(seen) < int(spec["switch_at"]) + 1:
        out.count("switch_never_reached")
        return
    k = int(spec["switch_at"])  # the callback of iteration k (1-based) is the first after the switch made at call k (k=0: before iteration 1)
    post = seen[max(k - 1, 0):]
    tol = 1e-5
    for xk, st, pp in post + [(np.asarray(res.x, dtype=float), res, dict(pB))]:
        out.count("fd_post_switch_states_checked")
        fx = fun(np.array(st.x, dtype=float, copy=True), pp)
        if not float(st.fun) == float(fx):
            out.violate("fd_state_value_is_of_the_old_objective", f"{name}: a state after the switch carries fun={float(st.fun)!r} at its x, the redefined objective gives "
                        f"{float(fx)!r} there (the old definition gives {float(fun(np.array(st.x, dtype=float, copy=True), pA))!r})", **tags)
            return
        ge = gex(np.asarray(st.x, dtype=float), pp)
        if not np.all(np.abs(np.asarray(st.jac, dtype=float) - ge) <= tol * (1.0 + np.abs(ge))):
            out.violate("fd_state_gradient_is_of_the_old_objective", f"{name}: a state after the switch carries a gradient that differs from the derivative of the redefined "
                        f"objective at its x by {float(np.max(np.abs(np.asarray(st.jac, dtype=float) - ge))):.3e}", **tags)
            return
    if k >= 1 and len(seen) >= k + 1:
        xk, stk, _pp = seen[k - 1]
        x_next = seen[k][0]
        if probes.grazes_bound(np.asarray(stk.x, dtype=float), lb, ub) or probes.grazes_bound(x_next, lb, ub):
            out.count("fd_continuations_not_judged_grazing_a_bound")
            return
        try:
            seen2, _res2, _c2 = go(np.asarray(stk.x, dtype=float), dict(pB), stk, 1, None)
        except Exception as e:  # noqa
            out.violate("switch_run_raised", f"{name}: restart from the kept state of the switch iteration raised {e!r}", exc=type(e).__name__, **tags)
            return
        if not seen2:
            out.count("fd_restart_made_no_iteration")
            return
        out.count("fd_continuations_compared_with_restart")
        d = float(np.max(np.abs(seen2[0][0] - x_next)))
        out.maxi("fd_continuation_max_difference", d)
        if not d <= 1e-6 * max(1.0, float(np.max(np.abs(x_next)))):
            out.violate("continuation_differs_from_restart_on_new_objective", f"{name}: the iterate after the switch iteration is {x_next!r}; a fresh run restarted on the "
                        f"redefined objective from the kept state of that iteration goes to {seen2[0][0]!r} (differs by {d:.3e})", **tags)
            return
        out.nontrivial = True
    out.sample = dict(spec=spec)


def run(spec):
    out = Outcome()
    if spec["kind"] == "switch_fd":
        run_switch_fd(spec, out)
        out.key = f"switch_fd/{spec['jac']}/{spec['vseed']}/{spec['switch_at']}"
        if out.sample is None:
            out.sample = dict(spec=spec)
        return out
    if spec["kind"] == "switch_at_solution":
        run_switch_at_solution(spec, out)
        out.key = f"switch_at_solution/{spec['problem']['seed']}/{spec['vseed']}"
        if out.sample is None:
            out.sample = dict(spec=spec)
    elif spec["kind"] == "identity":
        run_identity(spec, out)
        out.key = f"identity/{spec['problem']['family']}/{spec['problem']['seed']}"
        out.sample = dict(spec=spec)
    elif spec["kind"] == "in_place_vs_copy":
        run_in_place_vs_copy(spec, out)
        out.key = f"in_place_vs_copy/{spec['problem']['seed']}/{spec['vseed']}/{spec['switch_at']}"
    elif spec["kind"] == "filter":
        from .C10 import run_filter

        run_filter(spec, out)
        out.key = f"filter/{spec['seed']}"
    elif spec["kind"] == "switch_on_restart":
        run_switch_on_restart(spec, out)
        out.key = f"switch_on_restart/{spec['problem']['seed']}/{spec['vseed']}/{spec['stop_at']}"
        if out.sample is None:
            out.sample = dict(spec=spec)
    else:
        run_switch(spec, out)
        out.key = f"switch/{spec['problem']['seed']}/{spec['vseed']}/{spec['switch_at']}"
        if out.sample is None:
            out.sample = dict(spec=spec)
    return out


def selftest():
    res = []
    rng = np.random.default_rng(1)
    A = gen.rand_spd(rng, 3, 10.0)
    X = [rng.standard_normal(3) for _ in range(4)]
    GB = [A @ x for x in X]
    sk = np.array([X[1] - X[0], X[2] - X[1], X[3] - X[2]])
    yk = np.array([GB[1] - GB[0], GB[2] - GB[1], GB[3] - GB[2]])
    res.append(("chain over rewritten gradients is found", chain_on(sk, yk, X, GB, 2.2e-16) == [0, 1, 2, 3]))
    GA = [2.0 * g for g in GB]
    yA = np.array([GA[1] - GA[0], GA[2] - GA[1], GA[3] - GA[2]])
    res.append(("pairs of the old objective are rejected", chain_on(sk, yA, X, GB, 2.2e-16) is None))
    res.append(("a chain that stops before the newest point is reported as such", chain_on(sk[:2], yk[:2], X, GB, 2.2e-16) == [0, 1, 2]))
    return res
