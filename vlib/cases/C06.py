"""C06 - restarting from a returned result continues the run as if it had not stopped."""

from __future__ import annotations

import copy

import numpy as np

from .. import gen, probes
from ..common import Outcome, subseed
from ..oracles import EPS

LEVEL = "exploration"
RULE = ("one case = one problem (qp / qp_quartic / qp_softplus / rosenbrock / beale / styblinski_tang, boxes, n 2..8, maxcor 1..7): for every "
        "split k = 1..K (K<=12) the run stopped by maxiter=k is restarted (a) with maxiter=k (no iteration: same x/fun/jac/nit, same most "
        "recent pairs up to rounding), (b) with maxiter=k+1 and compared with the uninterrupted run(maxiter=k+1), (c) chained once more "
        "against run(k+2) (chains of up to 4 on a subset), (d) with a reduced maxcor, compared with a restart from the checkpoint truncated "
        "to its most recent pairs. Non-trivial = split whose checkpoint carries >=2 pairs and whose continuation moves x by >1e-6 relative; "
        "distinct = distinct (problem, k)")
ASSUMPTIONS = [
    "only checkpoints stopped by the iteration limit qualify (premise of the statement)",
    "next-iterate tolerance 1e-9 relative, 1e-6 with finite-difference gradients (restored pairs equal the originals only to rounding: the checkpoint stores differences); "
    "restored-pair tolerance 8 eps * max|history| elementwise; chain tolerance 1e-8 (exact gradients) / 1e-4 (finite differences)",
    "evaluation counts of restart vs uninterrupted run are recorded, not demanded",
    "chain links are judged against the continuation of the run they restart; against the original run only while every update was accepted",
    "a mismatch against the original run is skipped (counted) when the two rounding-level different iterates disagree on which variables sit exactly on a bound, or when more pairs than variables are stored",
]
FAMS = ("qp", "qp_quartic", "qp_softplus", "rosenbrock", "beale", "styblinski_tang")
XT = 1e-9


def floors(tier):
    return {"splits_checked": 700, "zero_iteration_restarts": 700, "next_iterate_compared": 600, "chains_checked": 350,
            "reduced_maxcor_checked": 250, "full_memory_restarts_after_a_reduced_one": 250, "splits_with_2plus_pairs": 350, "splits_right_after_a_rejected_pair": 8, "problems_traced_through_a_debug_level_logger": 30, "finite_difference_problems_with_steps_given_as_arrays": 15, "splits_at_the_iteration_of_a_memory_refresh": 6, "problems_in_huge_units_with_lowered_curvature_threshold_and_inert_update_function": 30, "__nontrivial__": 250}


def cases(tier, seed):
    rng = np.random.default_rng(subseed("C06", seed))
    for i in range(400 if tier == "quick" else 12000):
        ps = gen.rand_spec(rng, ("scaled_rosenbrock",), nmax=6, nmin=2, boxes=("none", "none", "lower"), starts=("interior",))
        yield {"kind": "refresh", "problem": ps, "maxcor": int(rng.integers(3, 10)), "K": 40}
    nprob = 600 if tier == "quick" else 10000
    for i in range(nprob):
        ps = gen.rand_spec(rng, FAMS, nmax=8, nmin=2, boxes=("none", "mixed", "boxed", "lower", "upper"),
                           starts=("interior", "face", "vertex", "outward"), condmax=1e3)
        hard = i % 3 == 2
        if hard:
            # starved line searches / a demanding curvature test on non-convex objectives: splits right after a rejected pair
            ps = gen.rand_spec(rng, ("rosenbrock", "beale", "styblinski_tang", "rastrigin", "griewank", "ackley", "qp_inf_region", "qp_nan_region", "edge_walk", "edge_walk", "edge_walk"), nmax=6, nmin=2,
                               boxes=("mixed", "boxed", "boxed", "lower", "upper", "none"), starts=("interior", "face", "vertex"))
        if ps["family"] == "edge_walk":
            ps["n"] = int(rng.integers(1, 4))
        elif i % 12 == 4:
            ps["n"] = int(rng.integers(20, 41))  # scale: dimensions and memories larger than the bulk of the cases
        yield {"problem": ps, "maxcor": int(rng.integers(1, 8)) if ps["n"] < 20 else int(rng.integers(11, 21)), "K": int(rng.integers(4, 13)),
               "maxls": int(gen.pick(rng, ([20] if ps["family"] == "edge_walk" else [1, 2, 3, 3]) if hard else [5, 20, 20])),
               "eps_SY": float(gen.pick(rng, [2.2e-16, 1e-3, 1e-2, 0.1])) if hard else 2.2e-16,
               "long_chain": bool(rng.random() < 0.25), "eps": float(gen.pick(rng, [1e-8, 1e-8, 1e-3, 1e-1])),
               "jac": "callable" if hard else gen.pick(rng, ["callable", "callable", "callable", None, "2-point"]),  # (acceptance decisions at their threshold + differencing noise: not decidable)
               "maxfun": int(gen.pick(rng, [100000, 100000, 60, 120, 250])), "rel": gen.pick(rng, [None, None, 1e-6, 1e-3, 1e-2]),
               # an objective in huge units (values ~1e17..1e19: curvature ratios s.y/y.y far below the default threshold) run with a
               # curvature threshold lowered accordingly and an update function that changes nothing
               "huge_units": float(10 ** rng.uniform(16.5, 19.0)) if (i % 6 == 1) else None,
               # (some runs with non-default line-search constants and a user step cap: identical in the run and in its restarts)
               "ls": {"ftol_linesearch": float(gen.pick(rng, [1e-4, 1e-2, 0.1])), "gtol_linesearch": float(gen.pick(rng, [0.5, 0.99])),
                      "xtol_linesearch": float(gen.pick(rng, [1e-8, 1e-3, 0.3])), "max_steplength": float(gen.pick(rng, [1e10, 1e10, 2.0]))} if i % 7 == 3 else None}


def run_refresh(spec, out):
    """Split points at the very iterations in which the run refreshed its memory (variables on length scales 1e-8 .. 1e16: the middle
    matrix of the memory cannot always be factorised): the result of run(maxiter=k) then carries no pair, a restart from it has nothing
    to restore, and its next iterates are those of the uninterrupted run digit for digit."""
    from ..e2e import MESSAGES

    P = gen.make_problem(spec["problem"])
    tags = dict(family=P.spec["family"], kind="refresh")
    base = dict(jac="callable", maxcor=spec["maxcor"], maxls=20, ftol=0.0, gtol=0.0, maxfun=100000, x0_same_object=True)
    name = f"{P.spec['family']} n={P.n} maxcor={spec['maxcor']}"
    main_tr = probes.run_min(P, dict(base, maxiter=spec["K"], cb="never"))
    out.count("runs_on_variables_of_wildly_different_scales")
    if main_tr.exc is not None:
        out.count("runs_raised")
        return
    prev_pairs, prev_nit = None, None
    for r in main_tr.cb:
        k = int(r["snap"]["nit"])
        m = 0 if r["snap"]["sk"] is None else int(r["snap"]["sk"].shape[0])
        refreshed = prev_pairs is not None and prev_pairs >= 2 and m == 0 and k == prev_nit + 1
        prev_pairs, prev_nit = m, k
        if not refreshed or k + 2 > spec["K"]:
            continue
        a = probes.run_min(P, dict(base, maxiter=k))
        if a.exc is not None or a.result.message != MESSAGES["ITER"] or a.result.nit != k:
            continue
        out.count("splits_at_the_iteration_of_a_memory_refresh")
        for k_end in (k + 1, k + 2):
            u = probes.run_min(P, dict(base, maxiter=k_end))
            rs = probes.run_min(P, dict(base, maxiter=k_end), checkpoint=a.result, x0=a.result.x)
            out.count("splits_checked")
            if rs.exc is not None or u.exc is not None:
                out.violate("restart_raised", f"{name}: restart from the split at iteration {k} (memory just refreshed) raised {(rs.exc or u.exc)!r}", what="refresh", **tags)
                return
            e = relerr(rs.snap["x"], u.snap["x"])
            if rs.snap["nit"] == u.snap["nit"] and not (e <= 1e-9):
                out.violate("continuation_differs", f"{name}: split k={k} (the memory was refreshed in that iteration, 0 pairs): iterate {k_end} after restart differs "
                            f"from the uninterrupted run by {e:.3e}", what="refresh", **tags)
                return
        out.nontrivial = True
    out.key = f"refresh/{P.spec['seed']}/{spec['maxcor']}"
    out.sample = dict(spec=spec, callbacks=len(main_tr.cb))


def relerr(a, b):
    a = np.asarray(a, dtype=float)
    b = np.asarray(b, dtype=float)
    return float(np.max(np.abs(a - b)) / max(1.0, float(np.max(np.abs(b)))))


def pairs_close(sk_new, yk_new, sk_ck, yk_ck, x, g):
    """restored pairs vs the checkpoint's: rounding-level equality."""
    if sk_new.shape != sk_ck.shape:
        return False, f"shape {sk_new.shape} vs {sk_ck.shape}"
    hx = max(float(np.max(np.abs(x))), float(np.max(np.abs(np.cumsum(sk_ck[::-1], axis=0)))) if sk_ck.size else 0.0, 1e-300)
    hg = max(float(np.max(np.abs(g))), float(np.max(np.abs(np.cumsum(yk_ck[::-1], axis=0)))) if yk_ck.size else 0.0, 1e-300)
    m = sk_ck.shape[0]
    es = float(np.max(np.abs(sk_new - sk_ck))) if sk_ck.size else 0.0
    ey = float(np.max(np.abs(yk_new - yk_ck))) if yk_ck.size else 0.0
    ok = es <= 8 * EPS * hx * (m + 1) and ey <= 8 * EPS * hg * (m + 1)
    return ok, f"max |ds|={es:.3e} (scale {hx:.2e}), max |dy|={ey:.3e} (scale {hg:.2e})"


def degenerate_active_set(P, xa, xb):
    """True when the two (rounding-level different) iterates disagree on which variables sit exactly on a bound:
    one has x_i == bound, the other is within a few ulp of it. The next iteration then takes a different branch in
    both the Cauchy and the subspace step; a discrete decision within rounding distance of its threshold is not a
    finding (DESIGN.md 4.4)."""
    xa, xb = np.asarray(xa, dtype=float), np.asarray(xb, dtype=float)
    for bound in (P.lb, P.ub):
        fin = np.isfinite(bound)
        on_a, on_b = (xa == bound) & fin, (xb == bound) & fin
        differ = on_a != on_b
        if np.any(differ):
            near = np.abs(np.where(differ, np.where(on_a, xb, xa) - bound, 0.0)) <= 64 * EPS * np.maximum(1.0, np.abs(np.where(fin, bound, 0.0)))
            if np.all(near[differ]):
                return True
    return False


def last_update_accepted(full, k, P):
    """True when run(maxiter=k) stored the pair x_k - x_{k-1} as its newest one (observable from outside)."""
    a = full(k)
    if a.exc is not None or a.snap["sk"] is None or a.snap["sk"].shape[0] == 0:
        return False
    prev = np.clip(P.x0, P.lb, P.ub) if k == 1 else (full(k - 1).snap["x"] if full(k - 1).exc is None else None)
    if prev is None:
        return False
    return bool(np.array_equal(a.snap["sk"][-1], a.snap["x"] - prev))


def truncate(ck, m):
    from scipy.optimize import LbfgsInvHessProduct

    t = copy.copy(ck)
    sk = np.array(ck.hess_inv.sk, copy=True)
    yk = np.array(ck.hess_inv.yk, copy=True)
    keep = min(m, sk.shape[0])
    t["hess_inv"] = LbfgsInvHessProduct(sk[sk.shape[0] - keep:], yk[yk.shape[0] - keep:])
    return t


def run(spec):
    from ..e2e import MESSAGES

    out = Outcome()
    if spec.get("kind") == "refresh":
        run_refresh(spec, out)
        return out
    P = gen.make_problem(spec["problem"])
    base = dict(jac=spec.get("jac", "callable"), maxcor=spec["maxcor"], maxls=spec["maxls"], ftol=0.0, gtol=1e-12,
                maxfun=spec.get("maxfun", 100000), eps=spec.get("eps", 1e-8), eps_SY=spec.get("eps_SY", 2.2e-16), x0_same_object=True)
    if spec.get("ls"):
        base.update(spec["ls"])
        out.count("problems_with_non_default_line_search_constants")
    if int(P.spec["seed"]) % 5 == 3:
        base.update(logger=True, iprint=int([101, 1000, 99, 0][int(P.spec["seed"]) // 5 % 4]))  # the run and its restarts traced through a DEBUG-level logger
        out.count("problems_traced_through_a_debug_level_logger")
    if base["jac"] in (None, "2-point") and int(P.spec["seed"]) % 2 == 0:
        base["fd_steps_as_strided_arrays"] = True  # the differencing steps given per variable, as arrays
        out.count("finite_difference_problems_with_steps_given_as_arrays")
    if spec.get("huge_units"):
        base.update(jac="callable", explicit_scale=float(spec["huge_units"]), eps_SY=1e-40, ufd="identity", maxfun=100000)
        out.count("problems_in_huge_units_with_lowered_curvature_threshold_and_inert_update_function")
    if base["jac"] in ("2-point", "3-point") and spec.get("rel") is not None:
        base["finite_diff_rel_step"] = spec["rel"]  # the user's relative differencing step
        out.count("finite_difference_problems_with_user_relative_step")
    XT = 1e-9
    if base["jac"] != "callable":
        out.count("finite_difference_problems")
        # a finite-difference gradient turns the rounding-level differences of the restored history into differences of
        # order eps_machine*|f|/h ~ 1e-8 in the gradient: "equal up to rounding" is judged at that level
        XT = 1e-6
    # chains: every link adds one restoration of the history (differences -> points -> differences); with finite differences each
    # restoration perturbs the gradients at the 1e-8 level, which the following iterations amplify: observed up to 3.4e-5 after
    # 2-4 links on well-conditioned QPs (sweep of 2026-09-27), so the chain tolerance is 1e-4 there (1e-8 with exact gradients)
    CT = 10 * XT if base["jac"] == "callable" else 1e-4
    K = spec["K"]
    tags = dict(family=P.spec["family"])
    keys = set()
    runs = {}

    def full(k):
        if k not in runs:
            runs[k] = probes.run_min(P, dict(base, maxiter=k))
        return runs[k]

    def restart(ck, k, **over):
        return probes.run_min(P, dict(base, maxiter=k, **over), checkpoint=ck, x0=ck.x)  # x0=result.x itself, as users write it

    for k in range(1, K + 1):
        a = full(k)
        if a.exc is not None:
            out.count("runs_raised")
            break
        if a.result.message != MESSAGES["ITER"] or a.result.nit != k:
            out.count("stopped_before_split")
            break
        ck = a.result
        ck_snap = a.snap
        npairs = ck.hess_inv.sk.shape[0]
        out.count("splits_checked")
        where = f"{P.spec['family']} n={P.n} maxcor={spec['maxcor']} split k={k} ({npairs} pairs)"
        if npairs >= 2:
            out.count("splits_with_2plus_pairs")
        if k >= 2 and npairs >= 1 and not last_update_accepted(full, k, P):
            out.count("splits_right_after_a_rejected_pair")
        # (a) zero-iteration restart
        z = restart(ck, k)
        out.count("zero_iteration_restarts")
        if z.exc is not None:
            out.violate("restart_raised", f"{where}: zero-iteration restart raised {z.exc!r}", what="zero", **tags)
            break
        bad = probes.diff_states(z.snap, ck_snap, fields=("x", "fun", "jac", "nit"))
        if bad:
            out.violate("zero_iteration_restart_changed_state", f"{where}: fields {bad} differ from the checkpoint "
                        f"(nit {z.snap['nit']} vs {ck_snap['nit']})", what="zero", **tags)
            break
        ok, why = pairs_close(z.snap["sk"], z.snap["yk"], ck_snap["sk"], ck_snap["yk"], ck_snap["x"], ck_snap["jac"])
        if not ok:
            out.violate("restored_pairs_differ", f"{where}: a restart that performs no iteration returns different correction pairs: {why}",
                        what="zero", **tags)
            break
        # (b) next iterate
        u = full(k + 1)
        if u.exc is not None:
            out.count("runs_raised")
            break
        r1 = restart(ck, k + 1)
        if r1.exc is not None:
            out.violate("restart_raised", f"{where}: restart raised {r1.exc!r}", what="next", **tags)
            break
        e = relerr(r1.result.x, u.result.x)
        moved = relerr(u.result.x, ck.x)
        out.count("next_iterate_compared")
        out.maxi("max_next_iterate_relerr", e)
        out.count("restart_nfev_equal" if r1.result.nfev == u.result.nfev else "restart_nfev_differs")
        if not (e <= XT) and npairs > P.n:
            out.count("skipped_rank_deficient_memory")  # singular compact system: rounding of the restored pairs is amplified without bound
            continue
        if not (e <= XT) and probes.grazes_bound(ck.x, P.lb, P.ub):
            # an iterate within a few ulp of a bound without being on it: the active-set / maximum-step decisions of the next
            # iteration are taken within rounding distance of their thresholds (rounding-level different histories flip them)
            out.count("skipped_rounding_sensitive_step")
            continue
        if not (e <= XT) and npairs >= 1 and probes.rounding_sensitive(lambda c2: probes.run_min(P, dict(base, maxiter=k + 1), checkpoint=c2, x0=np.array(ck.x, dtype=float, copy=True)),
                                                                   ck, r1.result.x, XT, seed=int(P.spec["seed"]) + k, trials=6):
            # the restart's own result moves by more than the tolerance when the pairs of the checkpoint are perturbed in their last
            # digits: a discrete decision of the next iteration (which interpolation case of the line search, which variable blocks
            # first) sits within rounding of its threshold
            out.count("skipped_rounding_sensitive_step")
            continue
        if not (e <= XT):
            out.violate("continuation_differs", f"{where}: iterate {k + 1} after restart differs from the uninterrupted run by {e:.3e} relative "
                        f"(the step itself is {moved:.3e}); restart x={np.asarray(r1.result.x).tolist()} uninterrupted x={np.asarray(u.result.x).tolist()}",
                        what="next", **tags)
            break
        if npairs >= 2 and moved > 1e-6:
            keys.add(f"{P.spec['family']}/{P.spec['seed']}/{spec['maxcor']}/{k}")
        # (c) chain
        # Each link is judged against the uninterrupted continuation of the run it restarts (the previous link's run);
        # and additionally against the original run(kk) whenever every update up to the link was accepted (when an
        # update is rejected the run keeps an older base point that the checkpoint format cannot carry, so the
        # original run and any restart legitimately part ways one iteration later; see DESIGN.md C06).
        depth = 3 if spec["long_chain"] else 1
        cur = r1
        prev_ck = ck  # the checkpoint the run `cur` was started from
        gapfree = last_update_accepted(full, k, P) and last_update_accepted(full, k + 1, P)
        for j in range(depth):
            if cur.result.message != MESSAGES["ITER"]:
                break
            kk = k + 2 + j
            cont = restart(prev_ck, kk)
            nxt = restart(cur.result, kk)
            if nxt.exc is not None or cont.exc is not None:
                out.violate("restart_raised", f"{where}: chained restart #{j + 2} raised {(nxt.exc or cont.exc)!r}", what="chain", **tags)
                break
            ec = relerr(nxt.result.x, cont.result.x)
            out.count("chains_checked")
            out.maxi("max_chain_relerr", ec)
            if not (ec <= CT) and cur.result.hess_inv.sk.shape[0] > P.n:
                out.count("skipped_rank_deficient_memory")
                break
            if not (ec <= CT):
                out.violate("chained_continuation_differs", f"{where}: restarting the restarted run at iteration {kk - 1} gives an iterate {kk} that differs "
                            f"by {ec:.3e} from letting the restarted run continue", what="chain", **tags)
                break
            if gapfree:
                uu = full(kk)
                if uu.exc is None:
                    eo = relerr(nxt.result.x, uu.result.x)
                    prev_orig = full(kk - 1)
                    if not (eo <= CT) and prev_orig.exc is None and degenerate_active_set(P, cur.result.x, prev_orig.result.x):
                        out.count("skipped_degenerate_active_set")
                        gapfree = False
                        prev_ck = cur.result
                        cur = nxt
                        continue
                    if not (eo <= CT) and cur.result.hess_inv.sk.shape[0] > P.n:
                        # more pairs than variables: the compact system is singular and amplifies the rounding-level
                        # differences of the restored history without bound
                        out.count("skipped_rank_deficient_memory")
                        gapfree = False
                        prev_ck = cur.result
                        cur = nxt
                        continue
                    if not (eo <= CT) and prev_orig.exc is None and min(relerr(uu.result.x, prev_orig.result.x), relerr(nxt.result.x, cur.result.x)) < 1e-9:
                        # round-off horizon: the original run or the chain moved by less than 1e-9 (relative) in this iteration - the line
                        # search works on the rounding noise of the objective (here 100 evaluations for a step of 2e-12, followed by a
                        # memory reset); which trial it ends on is decided by the last digits (thorough sweep, seed 1)
                        out.count("skipped_roundoff_horizon")
                        gapfree = False
                        prev_ck = cur.result
                        cur = nxt
                        continue
                    if not (eo <= CT) and probes.rounding_sensitive(lambda c2: probes.run_min(P, dict(base, maxiter=kk), checkpoint=c2, x0=np.array(cur.result.x, dtype=float, copy=True)),
                                                                    cur.result, nxt.result.x, CT, seed=int(P.spec["seed"]) + kk, trials=6):
                        # the step from this link's checkpoint amplifies last-digit differences of the restored history beyond the
                        # tolerance (memory of as many nearly dependent pairs as variables close to convergence): chain and original run,
                        # which differ in the last digits since the first restart, legitimately part ways here (thorough sweep, seed 1)
                        out.count("skipped_rounding_sensitive_step")
                        gapfree = False
                        prev_ck = cur.result
                        cur = nxt
                        continue
                    out.count("chains_checked_against_original_run")
                    out.maxi("max_chain_vs_original_relerr", eo)
                    if not (eo <= CT):
                        out.violate("chained_continuation_differs", f"{where}: after {j + 2} chained restarts iterate {kk} differs from the "
                                    f"original uninterrupted run by {eo:.3e} although every update was accepted", what="chain_original", **tags)
                        break
                    gapfree = gapfree and last_update_accepted(full, kk, P)
            else:
                out.count("chain_links_after_rejected_update")
            prev_ck = cur.result
            cur = nxt
        if out.violations:
            break
        # (e) a second restart from the same kind of checkpoint (same dimension, same number of pairs) started while the first one is still
        # running - here from inside its objective, as a nested "what if" computation - must not disturb it
        if npairs >= 1 and (k + int(P.spec["seed"])) % 3 == 0:
            plain = restart(ck, k + 2)
            other = probes.deep(ck)
            # ... a checkpoint of the same shape with another history (the pairs in reverse order, halved: curvature kept)
            from scipy.optimize import LbfgsInvHessProduct

            other.hess_inv = LbfgsInvHessProduct(0.5 * np.array(ck.hess_inv.sk)[::-1].copy(), 0.5 * np.array(ck.hess_inv.yk)[::-1].copy())
            fired = {"n": 0}

            def on_f_nested(i, x):
                if i == 0 and fired["n"] == 0:
                    fired["n"] = 1
                    probes.run_min(P, dict(base, maxiter=k + 1, x0_same_object=False), checkpoint=other, x0=np.array(other.x, dtype=float, copy=True))

            nested = probes.run_min(P, dict(base, maxiter=k + 2), checkpoint=ck, x0=ck.x, hooks={"on_f": on_f_nested})
            out.count("restarts_with_another_restart_nested_in_their_objective")
            if plain.exc is None and (nested.exc is not None or not np.array_equal(nested.result.x, plain.result.x)
                                      or not np.array_equal(nested.snap["sk"], plain.snap["sk"]) or not np.array_equal(nested.snap["yk"], plain.snap["yk"])):
                out.violate("continuation_differs", f"{where}: a restart to iteration {k + 2} inside whose first objective evaluation another restart from a checkpoint of equal shape "
                            f"checkpoint was run {'raised ' + repr(nested.exc) if nested.exc is not None else 'returns another x / other pairs than the same restart run alone'}",
                            what="nested", **tags)
                break
        # (d) reduced maxcor
        if npairs >= 2:
            m2 = 1 + (k % (npairs - 1)) if npairs > 2 else 1
            t = truncate(ck, m2)
            # the reduced memory size as users have it at hand: a Python int, or a NumPy integer scalar (signed or unsigned, e.g. read from a
            # configuration array)
            m2u = [m2, np.uint8(m2), np.int64(m2), np.uint32(m2), np.uint64(m2), np.int16(m2)][(k + int(P.spec["seed"])) % 6]
            if not isinstance(m2u, int):
                out.count("reduced_maxcor_given_as_numpy_integer")
            ra = restart(ck, k + 1, maxcor=m2u)
            rb = restart(t, k + 1, maxcor=m2)
            za = restart(ck, k, maxcor=m2u)
            out.count("reduced_maxcor_checked")
            if ra.exc is not None or rb.exc is not None or za.exc is not None:
                out.violate("restart_raised", f"{where}: restart with maxcor reduced to {m2} raised {(ra.exc or rb.exc or za.exc)!r}", what="reduced", **tags)
                break
            ed = relerr(ra.result.x, rb.result.x)
            out.maxi("max_reduced_maxcor_relerr", ed)
            if not (ed <= 1e-12):
                out.violate("reduced_maxcor_keeps_wrong_pairs", f"{where}: restart with maxcor={m2} differs by {ed:.3e} from a restart on the checkpoint "
                            f"truncated to its {m2} most recent pairs", what="reduced", **tags)
                break
            ok, why = pairs_close(za.snap["sk"], za.snap["yk"], ck_snap["sk"][npairs - m2:], ck_snap["yk"][npairs - m2:], ck_snap["x"], ck_snap["jac"])
            if not ok:
                out.violate("reduced_maxcor_pairs_not_most_recent", f"{where}: zero-iteration restart with maxcor={m2} does not return the {m2} most recent pairs: {why}",
                            what="reduced", **tags)
                break
            # ... and the same checkpoint object, used again with the full memory, still carries all its pairs
            zb = restart(ck, k)
            out.count("full_memory_restarts_after_a_reduced_one")
            if zb.exc is not None:
                out.violate("restart_raised", f"{where}: restart after a reduced-memory restart from the same checkpoint raised {zb.exc!r}", what="reduced", **tags)
                break
            ok, why = pairs_close(zb.snap["sk"], zb.snap["yk"], ck_snap["sk"], ck_snap["yk"], ck_snap["x"], ck_snap["jac"])
            if not ok or probes.diff_states(probes.snap_state(ck), ck_snap):
                out.violate("checkpoint_changed_by_reduced_memory_restart", f"{where}: after a restart with maxcor={m2} the same checkpoint object no longer yields its "
                            f"{npairs} pairs ({why}; fields changed: {probes.diff_states(probes.snap_state(ck), ck_snap)})", what="reduced", **tags)
                break
    out.keys = keys
    out.nontrivial = bool(keys)
    out.sample = dict(spec=spec, splits=len(runs), x0=P.x0)
    return out


def selftest():
    res = []
    rng = np.random.default_rng(0)
    sk = rng.standard_normal((3, 4))
    yk = rng.standard_normal((3, 4))
    x = rng.standard_normal(4)
    g = rng.standard_normal(4)
    ok, _ = pairs_close(sk[::-1].copy(), yk[::-1].copy(), sk, yk, x, g)
    res.append(("flags reordered correction pairs", not ok))
    ok, _ = pairs_close(sk * (1 + 2e-16), yk, sk, yk, x, g)
    res.append(("accepts rounding-level differences", ok))
    res.append(("relative error helper", relerr([1.0, 2.0], [1.0, 2.0 + 1e-6]) > 1e-7))
    return res
