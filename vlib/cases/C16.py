"""C16 - finite-difference modes work at the bounds and agree with exact gradients."""

from __future__ import annotations

import numpy as np

from .. import e2e, gen, probes
from ..common import Outcome, subseed
from ..oracles import EPS

LEVEL = "exploration"
RULE = ("one case = one problem (convex: qp, qp_quartic, qp_softplus; benchmark-like: sphere, quartic, styblinski_tang, rosenbrock) with a "
        "box chosen so that bounds are active at the start (face / vertex / outward starts, narrow and degenerate sides included), solved "
        "with each of jac=None, '2-point', '3-point', 'cs' (where the objective is analytic), eps in {1e-8,1e-6}, finite_diff_rel_step in "
        "{None,1e-7}, and with the exact gradient. Oracle: no exception, every stencil/trial point inside the box (exact), nfev == number "
        "of objective calls, and on the convex families |f_fd - f_exact| <= 1e-6*max(1,|f_exact|). Non-trivial = run whose returned point "
        "has an active bound and whose iterates touched a bound before the last iteration; distinct = distinct (problem, mode)")
ASSUMPTIONS = [
    "value agreement is demanded on the strictly convex families only (unique minimiser); 1e-6 relative (observed gaps <= 1e-9)",
    "both runs use gtol=1e-6, ftol=0, ample budgets",
]
CONVEX = ("qp", "qp_quartic", "qp_softplus")
OTHER = ("sphere", "quartic", "styblinski_tang", "rosenbrock")
MODES = (None, "2-point", "3-point", "cs")


def floors(tier):
    return {"fd_runs": 600, "stencil_points_checked": 20000, "value_comparisons": 250, "runs_active_bound_at_optimum": 250,
            "mode:None": 100, "mode:2-point": 100, "mode:3-point": 100, "mode:cs": 40, "degenerate_side_runs": 40, "settings_leak_checks": 60, "fd_restarts": 200, "problems_with_non_default_curvature_threshold": 30, "fd_restarts_from_a_call_that_computed_no_gradient": 150, "finite_difference_gradients_compared_with_the_exact_one": 300, "finite_difference_gradients_with_a_box_side_below_the_step": 30, "problems_with_gradient_scaler": 30, "problems_with_logger": 40, "problems_whose_objective_returns_a_reused_array": 25, "problems_with_nested_finite_difference_run": 20, "__nontrivial__": 200}


def cases(tier, seed):
    rng = np.random.default_rng(subseed("C16", seed))
    nprob = 260 if tier == "quick" else 8000
    for i in range(nprob):
        fam = gen.pick(rng, list(CONVEX) * 2 + list(OTHER))
        ps = gen.rand_spec(rng, (fam,), nmax=7, boxes=("mixed", "boxed", "narrow", "narrow_far", "lower", "upper", "boxed_degenerate", "boxed_degenerate", "nonneg", "unit", "zero_mixed", "sliver", "sliver"),
                           starts=("face", "vertex", "outward", "interior"), condmax=1e3)
        if i % 13 == 12:
            ps["n"] = int(rng.integers(20, 41))  # scale: stencils of 20 to 40 points per gradient (80 with the central scheme)
        yield {"problem": ps, "maxcor": int(rng.integers(1, 9)) if ps["n"] < 20 else int(rng.integers(11, 21)), "eps": float(gen.pick(rng, [1e-8, 1e-6])),
               "rel": gen.pick(rng, [None, None, 1e-7]), "maxls": int(gen.pick(rng, [5, 20])),
               "scaler": float(np.exp(rng.uniform(np.log(1e-2), np.log(1e2)))) if i % 4 == 1 else None, "split": int(rng.integers(1, 6)),
               "value_buffer": bool(i % 5 == 2), "nested": bool(i % 6 == 3), "eps_SY": float(gen.pick(rng, [1e-3, 0.3])) if i % 4 == 2 else None, "iprint": int(gen.pick(rng, [0, 1, 99, 100, 101])) if i % 3 == 1 else None}


def run(spec):
    out = Outcome()
    P = gen.make_problem(spec["problem"])
    fam = P.spec["family"]
    base = dict(maxcor=spec["maxcor"], maxls=spec["maxls"], ftol=0.0, gtol=1e-6, maxiter=400, maxfun=50000, eps=spec["eps"],
                finite_diff_rel_step=spec["rel"], cb="never")
    sfac = 1.0
    if spec.get("eps_SY") is not None:
        base["eps_SY"] = spec["eps_SY"]  # the curvature threshold of the memory: no business of the differencing
        out.count("problems_with_non_default_curvature_threshold")
    if spec.get("scaler"):
        # a gradient scaler multiplies objective and gradient inside the solver: the differencing must be unaffected
        base["scaler"] = sfac = float(spec["scaler"])
        out.count("problems_with_gradient_scaler")
    if spec.get("iprint") is not None:
        base.update(logger=True, iprint=spec["iprint"])  # verbose tracing through a user-supplied logger
        out.count("problems_with_logger")
    if spec.get("value_buffer"):
        # the objective returns its value in one reused one-element array (the differencing must not keep a view of it)
        base["reuse_value_buffer"] = True
        out.count("problems_whose_objective_returns_a_reused_array")
    hooks = {}
    if spec.get("nested"):
        # another finite-difference optimisation (other box, other scheme and steps) runs nested inside the objective now and then
        Q = gen.make_problem({"family": "qp", "n": P.n, "seed": int(P.spec["seed"]) + 11, "cond": 10.0, "box": "none", "start": "interior"})
        qcfg = dict(jac="3-point", maxcor=3, maxiter=2, maxfun=300, eps=1e-4, finite_diff_rel_step=1e-3)

        def on_f(i, x):
            if i in (1, 7, 40):
                probes.run_min(Q, qcfg)

        hooks["on_f"] = on_f
        out.count("problems_with_nested_finite_difference_run")
    exact = probes.run_min(P, dict(base, jac="callable"))
    keys = set()
    degenerate = bool(np.any(P.lb == P.ub))
    for mode in MODES:
        if mode == "cs" and not e2e.cs_capable(P):
            continue
        tr = probes.run_min(P, dict(base, jac=mode), hooks=hooks)
        tags = dict(family=fam, mode=str(mode))
        name = f"{fam} n={P.n} box={P.spec['box']} start={P.spec['start']} jac={mode}"
        out.count("fd_runs")
        out.count("mode:" + str(mode))
        if degenerate:
            out.count("degenerate_side_runs")
        if tr.exc is not None:
            out.violate("fd_run_raised", f"{name}: {type(tr.exc).__name__}: {tr.exc}", exc=type(tr.exc).__name__, **tags)
            break
        nb = e2e.mon_box(out, P, tr, mode, tags)
        out.count("stencil_points_checked", len(tr.evals))
        if out.violations:
            break
        if tr.snap["nfev"] != tr.nf:
            out.violate("nfev_misses_stencil_points", f"{name}: nfev={tr.snap['nfev']} but the objective was called {tr.nf} times", **tags)
            break
        if tr.snap["message"] not in e2e.MSG_KEY:
            out.violate("undocumented_message", f"{name}: message {tr.snap['message']!r}", **tags)
            break
        limited = any(m in (e2e.MESSAGES["ITER"], e2e.MESSAGES["EVAL"]) for m in (tr.snap["message"], None if exact.exc is not None else exact.snap["message"]))
        if fam in CONVEX and exact.exc is None and limited:
            out.count("pairs_stopped_by_a_budget_not_compared")  # (a demanding curvature threshold slows both runs down: neither is at the solution)
        if fam in CONVEX and exact.exc is None and not limited:
            fe, ff = exact.snap["fun"], tr.snap["fun"]
            # a run that stops on pg <= gtol may leave a variable up to gtol short of the bound its gradient pushes it to (on a side
            # narrower than gtol it may even rest on the opposite bound: thorough sweep, seed 1, a sliver of width 8.6e-7 with a
            # multiplier of 187): each run's value is the solution's only up to sum |g_i| * min(gtol, distance to that bound)
            def short_of_bound(snap):
                xs, gs = np.asarray(snap["x"], dtype=float), np.asarray(snap["jac"], dtype=float)
                dist = np.where(gs > 0, xs - P.lb, np.where(gs < 0, P.ub - xs, 0.0))
                return float(np.sum(np.abs(gs) * np.minimum(base["gtol"], dist)))

            slack = (short_of_bound(exact.snap) + short_of_bound(tr.snap)) / max(1.0, abs(fe))
            gap = abs(ff - fe) / max(1.0, abs(fe))
            out.count("value_comparisons")
            out.maxi("max_value_gap", gap)
            if slack > 1e-7:
                out.count("value_comparisons_with_a_run_stopped_short_of_a_bound")
            if not (gap <= 1e-6 + 2.0 * slack):
                out.violate("fd_solution_differs_from_exact", f"{name}: f with finite differences = {ff!r} ({tr.snap['message']}, {tr.snap['nit']} it), with the "
                            f"exact gradient = {fe!r} ({exact.snap['message']}, {exact.snap['nit']} it): relative gap {gap:.3e}", **tags)
                break
        if fam in CONVEX and mode is None and "L" in P.meta and "Fabs" in P.meta:
            # "the accuracy of the differencing scheme", state by state: with jac=None the step is the absolute eps, cut down to the box
            # where the box is narrower; the reported gradient is then the exact one up to L*h (truncation) + eps_machine*|f|/h (rounding)
            width = P.ub - P.lb
            h = np.where(width > 0, np.minimum(spec["eps"], width), spec["eps"])
            for who, snap in [(f"callback#{i2}", r["snap"]) for i2, r in enumerate(tr.cb)] + [("result", tr.snap)]:
                xs = np.asarray(snap["x"], dtype=float)
                ge = P.g(xs.copy()) * sfac
                tolv = 10.0 * float(P.meta["L"](xs)) * abs(sfac) * h + 400.0 * EPS * float(P.meta["Fabs"](xs)) * abs(sfac) / h + 1e-9
                dev = np.abs(np.asarray(snap["jac"], dtype=float) - ge)
                free = width > 0
                out.count("finite_difference_gradients_compared_with_the_exact_one")
                if np.any(width[free] <= spec["eps"]):
                    out.count("finite_difference_gradients_with_a_box_side_below_the_step")
                if np.any(dev[free] > tolv[free]):
                    i3 = int(np.nonzero(free & (dev > tolv))[0][0])
                    out.violate("fd_gradient_inaccurate", f"{name}: {who}: reported gradient component {i3} = {snap['jac'][i3]!r} but the exact one is {ge[i3]!r} "
                                f"(difference {dev[i3]:.3e}, accuracy of the scheme {tolv[i3]:.3e}; box side {width[i3]:.3e}, step {spec['eps']:g})", **tags)
                    break
            if out.violations:
                break
        # the run split in two (stopped by maxiter, continued from its result): nfev keeps counting every evaluation
        if not spec.get("scaler"):
            a = probes.run_min(P, dict(base, jac=mode, maxiter=spec.get("split", 2)))
            if a.exc is None and a.snap["message"] == e2e.MESSAGES["ITER"]:
                b = probes.run_min(P, dict(base, jac=mode), checkpoint=a.result, x0=np.array(a.result.x, dtype=float, copy=True))
                out.count("fd_restarts")
                if b.exc is not None:
                    out.violate("fd_run_raised", f"{name}: restart raised {type(b.exc).__name__}: {b.exc}", exc=type(b.exc).__name__, **tags)
                    break
                e2e.mon_box(out, P, b, mode, dict(tags, phase="restart"))
                if out.violations:
                    break
                if b.snap["nfev"] != a.snap["nfev"] + b.nf:
                    out.violate("nfev_misses_stencil_points", f"{name}: after a restart nfev={b.snap['nfev']} but the checkpoint counted {a.snap['nfev']} and "
                                f"{b.nf} further objective calls were made", phase="restart", **tags)
                    break
        if not spec.get("scaler") and spec.get("split", 2) % 2 == 1:
            # a first call that returns at once (a target its start point already meets: one evaluation, no gradient), continued in
            # this finite-difference mode: nfev counts that evaluation and every one made since, stencil points of the first gradient included
            a0 = probes.run_min(P, dict(base, jac=mode, ftarget=1e300))
            if a0.exc is None and a0.snap["njev"] == 0:
                b0 = probes.run_min(P, dict(base, jac=mode), checkpoint=a0.result, x0=np.array(a0.result.x, dtype=float, copy=True))
                out.count("fd_restarts_from_a_call_that_computed_no_gradient")
                if b0.exc is not None:
                    out.violate("fd_run_raised", f"{name}: restart from a result without gradient raised {type(b0.exc).__name__}: {b0.exc}", exc=type(b0.exc).__name__, **tags)
                    break
                if b0.snap["nfev"] != a0.snap["nfev"] + b0.nf:
                    out.violate("nfev_misses_stencil_points", f"{name}: restart from a call that returned before any gradient: nfev={b0.snap['nfev']} but the checkpoint "
                                f"counted {a0.snap['nfev']} and {b0.nf} further objective calls were made", phase="restart_without_gradient", **tags)
                    break
        xe = tr.snap["x"]
        active_end = bool(np.any(((xe == P.lb) | (xe == P.ub)) & (P.lb < P.ub)))
        if active_end:
            out.count("runs_active_bound_at_optimum")
        touched_before_last = any(np.any(((r["xk"] == P.lb) | (r["xk"] == P.ub)) & (P.lb < P.ub)) for r in tr.cb[:-1])
        if active_end and touched_before_last:
            keys.add(f"{fam}/{P.n}/{P.spec['seed']}/{mode}")
    # the step / scheme settings of one call must not leak into a later call: the first finite-difference run is repeated after
    # runs with other settings, with default steps, and must evaluate exactly the same points
    if not out.violations:
        dflt = dict(base, jac="2-point")
        dflt.pop("eps", None)
        dflt.pop("finite_diff_rel_step", None)
        first = probes.run_min(P, dflt)
        probes.run_min(P, dict(base, jac=None, eps=1e-2))
        probes.run_min(P, dict(base, jac="3-point", finite_diff_rel_step=1e-3))
        again = probes.run_min(P, dflt)
        out.count("settings_leak_checks")
        if first.exc is None and again.exc is None:
            same = len(first.evals) == len(again.evals) and all(a[0] == b[0] and np.array_equal(a[1], b[1]) for a, b in zip(first.evals, again.evals))
            if not same:
                k = next((i for i, (a, b) in enumerate(zip(first.evals, again.evals)) if not np.array_equal(a[1], b[1])), min(len(first.evals), len(again.evals)))
                out.violate("differencing_settings_leak_between_calls", f"{fam} n={P.n}: a '2-point' run with default steps evaluates different points after "
                            f"runs with eps=1e-2 / finite_diff_rel_step=1e-3 were made in the same process (first difference at evaluation #{k})",
                            family=fam, mode="2-point")
    out.keys = keys
    out.nontrivial = bool(keys)
    out.sample = dict(spec=spec, lb=P.lb, ub=P.ub, x0=P.x0, exact_fun=None if exact.exc is not None else exact.snap["fun"])
    return out


def selftest():
    res = []
    P = gen.make_problem({"family": "qp", "n": 2, "seed": 3, "cond": 5.0, "box": "boxed", "start": "vertex"})
    tr = probes.Trace()
    p = P.x0.copy()
    p[1] = np.nextafter(P.lb[1], -np.inf)
    tr.evals = [("f", P.x0.copy(), 0.0), ("f", p, 0.0)]
    o = Outcome()
    e2e.mon_box(o, P, tr, "2-point", {})
    res.append(("flags a stencil point outside the box", bool(o.violations)))
    return res
