"""C19 - each packaged benchmark gradient is the gradient of its benchmark function."""

from __future__ import annotations

import numpy as np

from ..common import Outcome, subseed
from ..oracles import richardson_grad

LEVEL = "exploration"
RULE = ("one case = one (function, dimension, point-set seed, sampling kind) with 25 points of [-5,5]^n "
        "(uniform, or on the quarter-integer lattice where the trigonometric terms are extremal); "
        "oracle: 5-level Richardson central differences; a case is non-trivial when at least one of its "
        "points has no integer coordinate; distinct = distinct (function, n, seed, kind)")
ASSUMPTIONS = [
    "Richardson extrapolation (h0=0.02, 5 levels) is accurate to <1e-8 relative on these smooth functions",
    "points closer than 0.5 to the origin (Ackley, not differentiable there) are excluded; Griewank is smooth everywhere: points with |cos(x_i/sqrt(i))| from 1e-13 to 5e-2 are sampled on purpose, only an exact zero of a cosine is excluded",
]
NAMES = ("ackley", "beale", "griewank", "quartic", "rastrigin", "rosenbrock", "sphere", "styblinski_tang")
TOL = 1e-6
NPTS = 25


def floors(tier):
    return {"points_checked": 400, "points_generic": 200, "points_passed_as_non_contiguous_view": 300, "points_checked_right_after_a_call_with_an_integer_array": 500, "solver_runs_with_gradient_scaler": 8, "points_within_1e-7_of_a_cosine_zero": 20, "points_at_the_double_nearest_to_a_cosine_zero": 15, "points_checked_after_solver_runs": 250, "solver_runs_on_exported_functions": 20, "history_calls_judged": 1500, "history_calls_with_the_point_given_as_list_or_tuple": 200, "history_calls_through_one_overwritten_array": 700, "calls_at_non_finite_points": 100, "calls_after_an_unusual_first_call_judged": 60, "__nontrivial__": 40}


def cases(tier, seed):
    reps = 1 if tier == "quick" else 40
    for name in NAMES:
        for n in range(1, 13):
            if name in ("rosenbrock", "beale") and n < 2:
                continue
            for r in range(reps):
                for kind in ("uniform", "lattice", "near_integer") + (("near_singular",) if name == "griewank" else ()):
                    yield {"name": name, "n": n, "seed": subseed("C19", seed, name, n, r, kind) % (2**31), "kind": kind}
    for name in NAMES:
        for j in range(6 if tier == "quick" else 200):
            n = 2 + j % 4
            yield {"name": name, "n": n, "seed": subseed("C19s", seed, name, j) % (2**31), "kind": "after_solver",
                   "maxls": [1, 2, 2, 3, 20, 2][j % 6], "maxcor": 1 + j % 5}
    for name in NAMES:
        for n in range(1, 7):
            if name in ("rosenbrock", "beale") and n < 2:
                continue
            for r in range(3 if tier == "quick" else 60):
                yield {"name": name, "n": n, "seed": subseed("C19h", seed, name, n, r) % (2**31), "kind": "history"}
    styles = ("complex", "complex_step", "int", "float32", "list", "longdouble", "bool")
    k = 0
    for name in NAMES:
        for n in ((2, 5) if tier == "quick" else (1, 2, 3, 4, 5, 8, 12)):
            for st in (styles[k % 7], styles[(k + 3) % 7]) if tier == "quick" else styles:
                if name in ("rosenbrock", "beale") and n < 2:
                    continue
                yield {"name": name, "n": n, "seed": subseed("C19f", seed, name, n, st) % (2**31), "kind": "first_call", "style": st}
            k += 1


_FIRST_CALL_CODE = r"""
import json, sys
import numpy as np
import lbfgsb
name, n, style, pts = json.loads(sys.stdin.read())
f, g = getattr(lbfgsb, name), getattr(lbfgsb, name + "_grad")
x0 = np.array([float.fromhex(v) for v in pts[0]])
first = {"complex": x0 + 0j, "complex_step": x0 + 1e-20j * np.eye(len(x0))[0], "int": np.round(x0).astype(int), "float32": x0.astype(np.float32),
         "list": list(x0), "longdouble": x0.astype(np.longdouble), "bool": x0 > 0}[style]
for fn in (f, g):
    try:
        with np.errstate(all="ignore"):
            fn(first)
    except Exception:
        pass
res = []
for p in pts:
    x = np.array([float.fromhex(v) for v in p])
    with np.errstate(all="ignore"):
        v, gr = f(x.copy()), g(x.copy())
    res.append([type(v).__name__, str(getattr(v, "dtype", "")), list(np.shape(v)), complex(v).real.hex(), complex(v).imag != 0,
                type(gr).__name__, str(getattr(gr, "dtype", "")), list(np.shape(gr)), [float(np.real(t)).hex() for t in np.ravel(gr)]])
json.dump(res, sys.stdout)
"""


def run_first_call(spec, out):
    """A brand-new interpreter whose very first call of the exported function and gradient, at this dimension, is made with another kind of
    argument (complex as in complex-step differentiation, integer, single / extended precision, a list, booleans); the float64 calls that
    follow must return what they return in this (long-lived) worker process: a real scalar and a real float64 array of the shape of x."""
    import json
    import os
    import subprocess
    import sys

    import lbfgsb

    from .. import common

    name, n, style = spec["name"], spec["n"], spec["style"]
    f, g = getattr(lbfgsb, name), getattr(lbfgsb, name + "_grad")
    rng = np.random.default_rng(spec["seed"])
    pts = [rng.uniform(-4, 4, n) for _ in range(4)]
    env = dict(os.environ)
    env["PYTHONPATH"] = common.REPO
    p = subprocess.run([sys.executable, "-c", _FIRST_CALL_CODE], input=json.dumps([name, n, style, [[float(v).hex() for v in q] for q in pts]]),
                       capture_output=True, text=True, env=env, timeout=300)
    out.count("fresh_interpreters_started_with_an_unusual_first_call")
    if p.returncode != 0:
        out.violate("call_raised", f"{name} n={n}: in a fresh interpreter whose first call used a {style} argument, the float64 calls failed: {p.stderr[-300:]}",
                    name=name, what="first_call")
        return out
    for q, r in zip(pts, json.loads(p.stdout)):
        out.count("calls_after_an_unusual_first_call_judged")
        with np.errstate(all="ignore"):
            v, gr = f(q.copy()), np.asarray(g(q.copy()))
        tv, dv, shv, hv, imag, tg, dg, shg, hg = r
        ok_v = (not imag) and "complex" not in dv and "complex" not in tv and shv == [] and hv == float(v).hex()
        ok_g = "complex" not in dg and shg == list(q.shape) and hg == [float(t).hex() for t in np.ravel(gr)] and dg == str(gr.dtype)
        if not ok_v:
            out.violate("value_not_real_scalar", f"{name} n={n}: after a first call with a {style} argument in a fresh interpreter, {name}({q.tolist()}) returns "
                        f"a {tv} of dtype {dv!r}, shape {shv} (here: {type(v).__name__} {float(v)!r})", name=name, what="first_call")
            break
        if not ok_g:
            out.violate("grad_shape_or_type", f"{name}_grad n={n}: after a first call with a {style} argument in a fresh interpreter, the gradient at {q.tolist()} "
                        f"is a {tg} of dtype {dg!r}, shape {shg} (here: dtype {gr.dtype}, shape {list(gr.shape)}), or its values differ", name=name, what="first_call")
            break
    out.nontrivial = True
    out.key = f"first/{name}/{n}/{style}"
    out.sample = dict(spec=spec)
    return out


def run_after_solver(spec, out):
    """The exported function and gradient used as objective of the package's own solver (starved line searches, boxes), every
    evaluated point recorded; afterwards, in the same process, the exported gradient is queried at every recorded point."""
    import lbfgsb

    name, n = spec["name"], spec["n"]
    f = getattr(lbfgsb, name)
    g = getattr(lbfgsb, name + "_grad")
    rng = np.random.default_rng(spec["seed"])
    pts = []

    def fun(x):
        pts.append(np.array(x, copy=True))
        return f(x)

    lb = np.full(n, -5.0) if rng.random() < 0.7 else np.full(n, -np.inf)
    ub = np.full(n, 5.0) if rng.random() < 0.7 else np.full(n, np.inf)
    x0 = rng.uniform(-4.5, 4.5, n)
    old = np.seterr(all="ignore")
    try:
        try:
            extra = {}
            if spec["seed"] % 2 == 1:
                fac = float(np.exp(rng.uniform(np.log(0.05), np.log(20.0))))
                extra["gradient_scaler"] = lambda xx, gg, a, b: fac  # the solver multiplies the gradients it was handed by this factor
                out.count("solver_runs_with_gradient_scaler")
            res = lbfgsb.minimize_lbfgsb(x0=x0, fun=fun, jac=g, bounds=np.column_stack([lb, ub]), maxls=int(spec["maxls"]), maxiter=40,
                                         maxcor=int(spec["maxcor"]), ftol=0.0, gtol=1e-9, **extra)
            out.count("solver_runs_on_exported_functions")
            if "LNSRCH" in str(res.message):
                out.count("solver_runs_ending_in_failed_line_search")
        except Exception as e:
            out.count("solver_runs_raised")
            out.count("raised:" + type(e).__name__)
        generic = 0
        for x in pts[::-1]:  # (newest first: the very point the run evaluated last is the first one asked for afterwards)
            if name == "ackley" and np.linalg.norm(x) < 0.5:
                continue
            if name == "griewank" and np.any(np.cos(x / np.sqrt(np.arange(1, n + 1))) == 0.0):
                continue
            check_point(f, g, x, out, name)
            out.count("points_checked")
            out.count("points_checked_after_solver_runs")
            if not np.any(x == np.round(x)):
                generic += 1
                out.count("points_generic")
            if out.violations:
                break
    finally:
        np.seterr(**old)
    out.nontrivial = generic > 0
    out.key = f"after_solver/{name}/{n}/{spec['seed']}"
    out.sample = dict(spec=spec, points=len(pts))
    return out


def run_history(spec, out):
    """A user's call history: value and gradient requests in any order over a small pool of points, handed over in one work array
    that is overwritten in place between the calls (or as fresh copies), with calls at points outside the domain (an infinite or
    undefined coordinate, possibly of another dimension) in between. Every answer at a pool point is judged as if it were the only call
    ever made: the functions are functions of the point they are given."""
    import lbfgsb

    name, n = spec["name"], spec["n"]
    f = getattr(lbfgsb, name)
    g = getattr(lbfgsb, name + "_grad")
    rng = np.random.default_rng(spec["seed"])
    pool = []
    while len(pool) < 4:
        x = rng.uniform(-5, 5, n)
        if name == "ackley" and np.linalg.norm(x) < 0.5:
            continue
        pool.append(x)
    if rng.random() < 0.5:
        pool[3] = pool[0] + rng.choice([-1.0, 1.0], n) * 1e-9  # two pool points that differ in the ninth digit only
        if rng.random() < 0.5:
            pool[3] = np.array(pool[0][::-1], copy=True)  # ... or that hold the same numbers in another order (same sums)
    buf = np.empty(n)
    answers = []  # (pool index, 'f'|'g', answer)
    old = np.seterr(all="ignore")
    try:
        for step in range(40):
            k = int(rng.integers(0, len(pool)))
            what = "fg"[int(rng.integers(0, 2))]
            r = rng.random()
            if r < 0.2:
                # a call outside the domain: it may raise or return anything; what it leaves behind must not show later
                m = n if rng.random() < 0.6 else int(rng.integers(1, 8))
                if name in ("rosenbrock", "beale"):
                    m = max(m, 2)
                bad = rng.uniform(-5, 5, m)
                bad[int(rng.integers(0, m))] = float(rng.choice([np.inf, -np.inf, np.nan]))
                for fn in ((f, g) if rng.random() < 0.5 else (g, f))[: int(rng.integers(1, 3))]:
                    try:
                        fn(bad)
                        out.count("calls_at_non_finite_points")
                    except Exception:
                        out.count("calls_at_non_finite_points_that_raised")
                # ... and right after it the point requested before it
                if answers:
                    k, what = answers[-1][0], answers[-1][1]
            if r < 0.6:
                buf[:] = pool[k]
                arg = buf  # one work array, overwritten in place
                out.count("history_calls_through_one_overwritten_array")
            else:
                arg = pool[k].copy()
                if r > 0.85:
                    # the point written as a plain Python list or tuple: a call that is accepted must answer as for the array
                    arg = (list if r > 0.92 else tuple)(float(v) for v in pool[k])
                    try:
                        a = (f if what == "f" else g)(arg)
                    except Exception:
                        out.count("calls_with_a_list_or_tuple_that_raised")
                        continue
                    out.count("history_calls_with_the_point_given_as_list_or_tuple")
                    answers.append((k, what, np.array(a, copy=True) if what == "g" else a))
                    out.count("history_calls_judged")
                    continue
            a = (f if what == "f" else g)(arg)
            answers.append((k, what, np.array(a, copy=True) if what == "g" else a))
            out.count("history_calls_judged")
        fresh = [(f(x.copy()), richardson_grad(lambda z: float(f(z)), x)) for x in pool]
        for k, what, a in answers:
            x = pool[k]
            if what == "f":
                ok_scalar = np.isscalar(a) or (isinstance(a, np.ndarray) and a.ndim == 0)
                if not ok_scalar or isinstance(a, (complex, np.complexfloating)) or not np.isfinite(float(a)):
                    out.violate("value_not_real_scalar", f"{name}({x!r}) returned {a!r} in a call history", fn=name, kind="history")
                    break
                if not abs(float(a) - float(fresh[k][0])) <= 1e-12 * max(1.0, abs(float(fresh[k][0]))):
                    out.violate("value_depends_on_call_history", f"{name}({x.tolist()}) returned {float(a)!r} within a history of calls and "
                                f"{float(fresh[k][0])!r} when called alone", fn=name, kind="history")
                    break
            else:
                a = np.asarray(a)
                if a.shape != x.shape:
                    out.violate("grad_shape", f"{name}_grad shape {a.shape} for x shape {x.shape} in a call history", fn=name, kind="history")
                    break
                ref = fresh[k][1]
                err = float(np.max(np.abs(a - ref)))
                scale = max(1.0, float(np.max(np.abs(ref))))
                if not (err <= TOL * scale):
                    out.violate("grad_mismatch", f"{name}_grad at x={x.tolist()} within a history of calls (work array overwritten in place, calls "
                                f"at non-finite points in between) is {a.tolist()} but the numerical derivative is {ref.tolist()} (err {err:.3e})",
                                fn=name, kind="history")
                    break
        out.count("points_checked", len(pool))
        out.count("points_generic", len(pool))
    finally:
        np.seterr(**old)
    out.nontrivial = True
    out.key = f"history/{name}/{n}/{spec['seed']}"
    out.sample = dict(spec=spec, calls=len(answers))
    return out


def check_point(f, g, x, out: Outcome, name, given=None):
    """The oracle on one point. Returns True when the point was judged.
    given: (value, gradient) already obtained by the caller for this point (through a reused work array)."""
    if given is not None:
        fx, gx = given
    else:
        fx = f(x.copy())
        gx = g(x.copy())
    ok_scalar = np.isscalar(fx) or (isinstance(fx, np.ndarray) and fx.ndim == 0)
    if not ok_scalar or isinstance(fx, (complex, np.complexfloating)) or not np.isfinite(float(fx)):
        out.violate("value_not_real_scalar", f"{name}({x!r}) returned {fx!r}", fn=name)
        return True
    gx = np.asarray(gx)
    if gx.shape != x.shape:
        out.violate("grad_shape", f"{name}_grad shape {gx.shape} for x shape {x.shape}", fn=name)
        return True
    ref = richardson_grad(lambda z: float(f(z)), x)
    err = float(np.max(np.abs(gx - ref)))
    scale = max(1.0, float(np.max(np.abs(ref))))
    out.maxi("max_rel_err_" + name, err / scale)
    if not (err <= TOL * scale):
        out.violate("grad_mismatch", f"{name}_grad at x={x.tolist()} is {gx.tolist()} but numerical derivative is "
                    f"{ref.tolist()} (err {err:.3e}, scale {scale:.3e})", fn=name)
    return True


def run(spec):
    import lbfgsb

    out = Outcome()
    if spec["kind"] == "after_solver":
        return run_after_solver(spec, out)
    if spec["kind"] == "history":
        return run_history(spec, out)
    if spec["kind"] == "first_call":
        return run_first_call(spec, out)
    name, n = spec["name"], spec["n"]
    f = getattr(lbfgsb, name)
    g = getattr(lbfgsb, name + "_grad")
    rng = np.random.default_rng(spec["seed"])
    generic = 0
    reuse = spec["seed"] % 2 == 0  # half of the cases pass ONE work array, overwritten in place for each new point
    pts = []
    for _ in range(NPTS):
        if spec["kind"] == "uniform":
            x = rng.uniform(-5, 5, n)
        elif spec["kind"] == "near_singular":
            # one coordinate close to (not at) a zero of its cosine factor, where the closed form divides by a small number
            x = rng.uniform(-5, 5, n)
            i = int(rng.integers(0, n))
            root = (np.pi / 2 + np.pi * int(rng.integers(-1, 1))) * np.sqrt(i + 1)
            if abs(root) <= 5:
                x[i] = root + float(rng.choice([-1.0, 1.0]) * np.exp(rng.uniform(np.log(1e-13), np.log(5e-2)))) * np.sqrt(i + 1)
                if rng.random() < 0.3:
                    # the double nearest to the root itself, and its neighbours: the cosine is of order 1e-16, not zero
                    x[i] = np.nextafter(root, root + float(rng.integers(-1, 2))) if rng.random() < 0.5 else root
                    out.count("points_at_the_double_nearest_to_a_cosine_zero")
        elif spec["kind"] == "near_integer":
            # close to, not on, the integer lattice (where the trigonometric terms vanish)
            x = rng.integers(-5, 6, n) + rng.choice([-1.0, 1.0], n) * np.exp(rng.uniform(np.log(1e-9), np.log(1e-3), n))
        else:
            x = rng.integers(-20, 21, n) / 4.0
        if name == "ackley" and np.linalg.norm(x) < 0.5:
            out.count("points_excluded_singular")
            continue
        if name == "griewank" and np.any(np.cos(x / np.sqrt(np.arange(1, n + 1))) == 0.0):
            out.count("points_excluded_singular")  # (the function itself is smooth there; only an exact zero breaks the closed form)
            continue
        if name == "griewank" and np.any(np.abs(np.cos(x / np.sqrt(np.arange(1, n + 1)))) < 1e-7):
            out.count("points_within_1e-7_of_a_cosine_zero")
        pts.append(x)
    if spec["kind"] == "lattice" and pts:
        # a call that may fail (an integer array is not what every exported function accepts) comes right before the judged call at the
        # same point given as floats; before that, another point was evaluated. What the failed call leaves behind must not show.
        for x in pts:
            xi = np.round(x).astype(int)
            try:
                f(np.asarray(xi + 1, dtype=float))
                g(np.asarray(xi + 1, dtype=float))
            except Exception:
                pass
            for fn in (f, g):
                try:
                    fn(xi)
                except Exception:
                    out.count("calls_with_an_integer_array_that_raised")
            xf = xi.astype(float)
            if name == "ackley" and np.linalg.norm(xf) < 0.5:
                continue
            if name == "griewank" and np.any(np.cos(xf / np.sqrt(np.arange(1, n + 1))) == 0.0):
                continue
            check_point(f, g, xf, out, name)
            out.count("points_checked")
            out.count("points_checked_right_after_a_call_with_an_integer_array")
            if out.violations:
                out.key = f"{name}/{n}/{spec['seed']}/{spec['kind']}"
                out.sample = dict(spec=spec, last_point=xf)
                return out
    answers = None
    layout = ("contiguous", "column_of_a_matrix", "every_second_element", "reversed_view")[(spec["seed"] // 2) % 4]
    if not reuse and pts and layout != "contiguous":
        # the point is handed over as a non-contiguous 1-D view (a column of a C-ordered sample matrix, a strided slice):
        # same values, other memory layout
        answers = []
        M = np.array(pts)  # (npts, n), C order
        for k, x in enumerate(pts):
            if layout == "column_of_a_matrix":
                v = np.array(M.T, order="C")[:, k]  # column k of an (n, npts) C-ordered matrix: stride npts*8 bytes
            elif layout == "every_second_element":
                buf = np.full(2 * n, 123.456)
                buf[::2] = x
                v = buf[::2]
            else:
                v = np.array(x[::-1], copy=True)[::-1]
            fx = f(v)
            gx = np.array(g(v), copy=True)
            answers.append((fx, gx))
            out.count("points_passed_as_non_contiguous_view" if (n > 1 and not v.flags["C_CONTIGUOUS"]) else "points_passed_as_view_of_trivial_layout")
    if reuse and pts:
        # first pass: nothing but the user's own calls, all through the same array object
        buf = np.empty(n)
        answers = []
        for x in pts:
            buf[:] = x
            fx = f(buf)
            gx = np.array(g(buf), copy=True)
            answers.append((fx, gx))
    for k, x in enumerate(pts):
        check_point(f, g, x, out, name, given=None if answers is None else answers[k])
        out.count("points_checked")
        if reuse:
            out.count("points_passed_in_a_reused_buffer")
        if not np.any(x == np.round(x)):
            generic += 1
            out.count("points_generic")
        if out.violations:
            break
    out.nontrivial = generic > 0
    out.key = f"{name}/{n}/{spec['seed']}/{spec['kind']}"
    out.sample = dict(spec=spec, last_point=pts[-1] if pts else None)
    return out


def selftest():
    """A gradient with a dropped factor and a wrong shape must be flagged."""
    res = []
    o = Outcome()
    check_point(lambda x: float(np.sum(x**2)), lambda x: 1.9 * x, np.array([1.3, -2.1]), o, "bad")
    res.append(("flags wrong gradient", any(v["mech"] == "grad_mismatch" for v in o.violations)))
    o = Outcome()
    check_point(lambda x: float(np.sum(x**2)), lambda x: (2 * x)[:1], np.array([1.3, -2.1]), o, "bad")
    res.append(("flags wrong shape", any(v["mech"] == "grad_shape" for v in o.violations)))
    o = Outcome()
    check_point(lambda x: float(np.sum(x**2)), lambda x: 2 * x, np.array([1.3, -2.1]), o, "good")
    res.append(("silent on correct gradient", not o.violations))
    return res
