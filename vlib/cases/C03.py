"""C03 - the objective never increases from one accepted iterate to the next."""

from __future__ import annotations

import numpy as np

from .. import e2e, gen, probes
from ..common import Outcome, subseed

LEVEL = "exploration"
RULE = ("one case = one run with a callback recording every iterate; families convex / non-convex / badly scaled / exp wall (overflowing "
        "trial values) / finite-resolution objective, n 1..8, all boxes and starts, maxls 1..20, maxfun 1..60 (so the evaluation budget can "
        "run out inside a line search) or ample, maxcor 1..10, gradient callable (80%) or finite differences. Oracle: the objective recomputed "
        "by the harness at x0, at every callback iterate and at result.x is non-increasing, exactly. Non-trivial = run with >=1 line search "
        "that ended without satisfying its conditions (returned None or used its whole evaluation cap), or a restart leg; distinct = distinct specs. "
        "A second kind restarts from a returned result with a gradient scaler (over an unscaled, or an already scaled, checkpoint) and judges the restarted leg.")
ASSUMPTIONS = ["harness objective closures are pure, so re-evaluation reproduces the values the solver saw",
               "runs whose start value is not finite are skipped and counted"]
FAMS = gen.ALL_FAMILIES + ("exp_wall", "badly_scaled", "rosenbrock", "oscillating", "quantized", "quantized", "qp_inf_region", "qp_nan_region", "qp_nan_region", "flat")


def floors(tier):
    return {"runs": 800, "sequence_points": 4000, "line_searches": 3000, "line_searches_without_convergence": 300,
            "runs_budget_inside_search": 50, "restart_runs": 60, "runs_preceded_by_a_probe_of_another_objective_with_the_same_start_and_start_value": 100, "runs_in_25_to_140_dimensions_with_memory_above_10": 80, "runs_in_64_to_140_dimensions": 30, "runs_with_user_step_cap": 100, "runs_with_free_optimum_grazing_a_bound": 60, "short_runs_with_capped_first_step": 200, "runs_from_a_low_precision_start": 60, "restart_runs_with_scaler_and_target": 60, "__nontrivial__": 200}


def cases(tier, seed):
    rng = np.random.default_rng(subseed("C03", seed))
    nrun = 2000 if tier == "quick" else 60000
    for i in range(nrun):
        ps = gen.rand_spec(rng, FAMS, nmax=8, boxes=("none", "mixed", "mixed", "boxed", "narrow", "lower", "upper", "boxed_degenerate", "nonneg", "unit", "zero_mixed"))
        if ps["family"] == "exp_wall":
            ps["start"] = "interior"
        cfg = {
            "jac": gen.pick(rng, ["callable"] * 8 + [None, "2-point"]),
            "maxcor": int(rng.integers(1, 11)),
            "maxls": int(gen.pick(rng, [1, 1, 2, 2, 3, 5, 10, 20])),
            "maxiter": int(gen.pick(rng, [3, 8, 20, 60])),
            "maxfun": int(gen.pick(rng, list(range(1, 13)) + [20, 40, 60, 15000, 15000])),
            "ftol": float(gen.pick(rng, [0.0, 1e-12, 1e-5])),
            "gtol": 1e-9,
            "cb": "never",
        }
        if i % 13 == 12:
            # scale: dimensions and memories larger than the bulk of the cases
            ps["n"] = int(rng.integers(25, 61)) if i % 26 == 12 else int(rng.integers(61, 141))
            cfg["maxcor"] = int(rng.integers(11, 31))
            cfg["maxiter"] = int(gen.pick(rng, [60, 150]))
        if i % 4 == 1:
            cfg["max_steplength"] = float(gen.pick(rng, [0.05, 0.1, 0.2, 0.5, 1.0, 2.0]))  # the user's cap on the step length
        e2e.vary_rare_parameters(rng, cfg)
        yield {"problem": ps, "cfg": cfg}
    for i in range(120 if tier == "quick" else 3000):
        # one problem, every evaluation budget from 2 to 24: the budget is spent at every point of the run in turn, in particular exactly
        # at the end of a search that had extrapolated beyond its best trial
        ps = gen.rand_spec(rng, ("exp_valley", "exp_valley", "exp_valley", "exp_valley", "exp_wall", "oscillating", "rastrigin", "rosenbrock"), nmax=5, nmin=1,
                           boxes=("none", "none", "mixed", "lower"), starts=("interior",))
        base = {"jac": "callable", "maxcor": int(rng.integers(1, 8)), "maxls": int(gen.pick(rng, [20, 20, 5])), "maxiter": 60, "ftol": 0.0, "gtol": 1e-9, "cb": "never"}
        for m in range(2, 25):
            yield {"problem": dict(ps), "cfg": dict(base, maxfun=m)}
    for i in range(200 if tier == "quick" else 5000):
        # 64 to 100 variables on objectives whose searches often end on their evaluation cap with the best trial not the last one
        ps = gen.rand_spec(rng, ("rosenbrock", "rastrigin", "styblinski_tang", "oscillating", "qp_quartic", "ackley"), nmax=100, nmin=64,
                           boxes=("none", "mixed", "boxed", "lower"), starts=("interior", "face"))
        yield {"problem": ps, "cfg": {"jac": "callable", "maxcor": int(rng.integers(3, 21)), "maxls": int(gen.pick(rng, [2, 2, 3, 3, 5])), "maxiter": int(gen.pick(rng, [10, 30])),
                                      "maxfun": int(gen.pick(rng, [25, 60, 15000])), "ftol": 0.0, "gtol": 1e-9, "cb": "never"}}
    for i in range(400 if tier == "quick" else 8000):
        ps = gen.rand_spec(rng, ("qp", "qp_quartic", "qp_softplus", "rosenbrock"), nmax=6, boxes=("none", "none", "boxed", "lower"), starts=("interior", "face"), condmax=1e2)
        yield {"problem": ps, "probe_first": {"cond": float(np.exp(rng.uniform(0, 4))), "scale": float(10.0 ** rng.uniform(-3, 3)),
                                              "cut": gen.pick(rng, [{"maxfun": 2}, {"maxiter": 1}, {"maxfun": 3}, {"maxiter": 1, "maxls": 2}])},
               "cfg": {"jac": "callable", "maxcor": int(rng.integers(1, 11)), "maxls": int(gen.pick(rng, [2, 5, 20])), "maxiter": 40, "maxfun": 15000, "ftol": 0.0, "gtol": 1e-9, "cb": "never"}}
    # a start vector in single / half precision, the run pushed to convergence (ftol = 0): the iterates themselves are double precision
    for i in range(200 if tier == "quick" else 6000):
        ps = gen.rand_spec(rng, ("qp", "qp_quartic", "rosenbrock", "badly_scaled", "styblinski_tang"), nmax=6, boxes=("none", "mixed", "boxed", "lower"))
        yield {"problem": ps, "low_precision_start": True,
               "cfg": {"jac": "callable", "maxcor": int(rng.integers(2, 11)), "maxls": 20, "maxiter": 80, "maxfun": 15000, "ftol": 0.0, "gtol": 1e-12,
                       "cb": "never", "x0_dtype": str(gen.pick(rng, ["float32", "float32", "float16"]))}}
    # optimum grazing a bound, converged to the last digit
    for i in range(200 if tier == "quick" else 6000):
        yield {"problem": {"n": int(rng.integers(1, 7)), "seed": int(rng.integers(0, 2**31 - 1)), "cond": float(np.exp(rng.uniform(0, np.log(1e2))))},
               "near_bound": True,
               "cfg": {"jac": "callable", "maxcor": int(rng.integers(2, 11)), "maxls": 20, "maxiter": 200, "maxfun": 15000,
                       "ftol": float(gen.pick(rng, [0.0, 1e-14, 1e-12])), "gtol": 1e-12, "cb": "never"}}
    # the user's step cap acting on the very first iteration of multimodal objectives (two iterations are enough)
    for i in range(600 if tier == "quick" else 20000):
        ps = gen.rand_spec(rng, ("rastrigin", "ackley", "griewank", "oscillating", "styblinski_tang"), nmax=6, boxes=("boxed", "mixed", "none", "unit"))
        yield {"problem": ps, "first_step_capped": True,
               "cfg": {"jac": "callable", "maxcor": 3, "maxls": int(gen.pick(rng, [5, 20])), "maxiter": 2, "maxfun": 15000, "ftol": 1e-9, "gtol": 1e-9,
                       "cb": "never", "max_steplength": float(gen.pick(rng, [0.02, 0.05, 0.1, 0.2, 0.3, 0.5, 0.8]))}}
    # restarts combined with a gradient scaler (the checkpoint documentation names "some scaling must be performed before
    # starting L-BFGS-B" as a use of restarts)
    nres = 450 if tier == "quick" else 9000
    for i in range(nres):
        ps = gen.rand_spec(rng, ("qp", "rosenbrock", "rastrigin", "styblinski_tang", "qp_quartic", "beale"), nmax=6)
        cfg = {"jac": "callable", "maxcor": int(rng.integers(1, 8)), "maxls": int(gen.pick(rng, [2, 5, 20])), "maxiter": int(rng.integers(1, 5)),
               "maxfun": 15000, "ftol": 0.0, "gtol": 1e-9, "cb": "never"}
        scen = ("scaler_over_scaled_checkpoint", "scaler_over_unscaled_checkpoint", "resume_from_kept_callback_state")[i % 3]
        if scen == "resume_from_kept_callback_state":
            cfg["maxiter"] = int(rng.integers(4, 10))
        yield {"problem": ps, "cfg": cfg, "restart": {"scenario": scen, "s": float(np.exp(rng.uniform(np.log(1e-2), np.log(1e2)))),
                                                     "extra": int(rng.integers(1, 5)), "keep": int(rng.integers(0, 3)), "with_target": bool(i % 2 == 1)}}


def run_resume(spec, out):
    """A user keeps the state handed to the callback at iteration k (the object itself, as documented: "same fields as the ones
    from the return"), lets the run go on, and later resumes from the kept state. The resumed leg is a run like any other."""
    P = gen.make_problem(spec["problem"])
    cfg = dict(spec["cfg"])
    rs = spec["restart"]
    kept = {}

    def keep(i, xk, state):
        if i == rs["keep"]:
            kept["state"] = state
        return False

    a = probes.run_min(P, cfg, hooks={"on_cb": keep})
    out.count("restart_runs")
    if a.exc is not None or "state" not in kept:
        out.count("resume_not_applicable")
        return
    st = kept["state"]
    x_resume = np.array(st.x, dtype=float, copy=True)
    b = probes.run_min(P, dict(cfg, maxiter=int(st.nit) + rs["extra"]), checkpoint=st, x0=x_resume)
    if b.exc is not None:
        out.violate("resume_from_kept_state_raised", f"resume {P.spec['family']}: {b.exc!r}", scenario=rs["scenario"], family=P.spec["family"])
        return
    P2 = gen.make_problem(spec["problem"])
    P2.x0 = x_resume
    out.count("restart_runs:" + rs["scenario"])
    e2e.mon_monotone(out, P2, b, dict(family=P.spec["family"], mode="callable", scenario=rs["scenario"]))
    out.nontrivial = True
    out.key = f"restart/{P.spec['family']}/{P.spec['seed']}/{rs['scenario']}"
    out.sample = dict(spec=spec)


def run_restart(spec, out):
    if spec["restart"]["scenario"] == "resume_from_kept_callback_state":
        return run_resume(spec, out)
    P = gen.make_problem(spec["problem"])
    cfg = dict(spec["cfg"])
    rs = spec["restart"]
    first_cfg = dict(cfg, scaler=rs["s"]) if rs["scenario"] == "scaler_over_scaled_checkpoint" else cfg
    a = probes.run_min(P, first_cfg)
    out.count("restart_runs")
    if a.exc is not None:
        out.count("runs_raised")
        return
    c2 = dict(cfg, maxiter=int(a.result.nit) + rs["extra"], scaler=rs["s"])
    if rs.get("with_target"):
        c2["ftarget"] = -1e300  # an (unreachable) target value given together with the scaler on the restart leg
        out.count("restart_runs_with_scaler_and_target")
    b = probes.run_min(P, c2, checkpoint=a.result, x0=np.array(a.result.x, dtype=float, copy=True))
    if b.exc is not None:
        out.count("runs_raised")
        return
    # the restarted leg starts at the checkpoint's x
    P2 = gen.make_problem(spec["problem"])
    P2.x0 = np.array(a.result.x, dtype=float, copy=True)
    out.count("restart_runs:" + rs["scenario"])
    e2e.mon_monotone(out, P2, b, dict(family=P.spec["family"], mode="callable", scenario=rs["scenario"]))
    out.nontrivial = True
    out.key = f"restart/{P.spec['family']}/{P.spec['seed']}/{rs['scenario']}"
    out.sample = dict(spec=spec)


def run(spec):
    import lbfgsb.main as M

    out = Outcome()
    if spec.get("restart"):
        run_restart(spec, out)
        return out
    if spec.get("near_bound"):
        from .C01 import make_near_bound_optimum

        # minimiser strictly inside the box, within 1e-7..1e-5 (relative) of some bounds: the last iterates move by less than any
        # "is close to the bound" tolerance, and with a tight ftol every one of them is reported
        P = make_near_bound_optimum(spec["problem"])
        out.count("runs_with_free_optimum_grazing_a_bound")
    else:
        P = gen.make_problem(spec["problem"])
    if spec.get("probe_first"):
        # a harness that normalises every objective to f(start) = 0 and starts every run from the same point: before the judged run
        # another (shallower / steeper) objective is probed from that point with a run cut inside or right after its first line search
        pr = spec["probe_first"]
        Q = gen.make_problem(dict(spec["problem"], seed=int(spec["problem"]["seed"]) + 77, cond=float(pr["cond"]), geometry_from=dict(spec["problem"])))
        if Q.n == P.n:
            xs = np.clip(P.x0, P.lb, P.ub)
            for R_, sc_ in ((P, 1.0), (Q, float(pr["scale"]))):
                f_raw, g_raw, f_at = R_.f, R_.g, float(R_.f(xs.copy()))
                R_.f = (lambda x, f_raw=f_raw, f_at=f_at, sc_=sc_: sc_ * (f_raw(x) - f_at))
                R_.g = (lambda x, g_raw=g_raw, sc_=sc_: sc_ * g_raw(x))
            probes.run_min(Q, dict(jac="callable", maxcor=5, **pr["cut"]))
            out.count("runs_preceded_by_a_probe_of_another_objective_with_the_same_start_and_start_value")
    cfg = dict(spec["cfg"])
    if P.n >= 25:
        out.count("runs_in_25_to_140_dimensions_with_memory_above_10")
        if P.n >= 64:
            out.count("runs_in_64_to_140_dimensions")
    if spec.get("first_step_capped"):
        out.count("short_runs_with_capped_first_step")
    if spec.get("low_precision_start"):
        out.count("runs_from_a_low_precision_start")
    if P.spec["family"] == "exp_wall":
        # start on the steep side of the wall, as in the repository's abnormal-termination test
        P.x0 = np.clip(P.x0 - 3.0, P.lb, P.ub)
    st = {"n": 0, "noconv": 0, "budget": 0}
    tr_holder = {}

    def on_call(ev):
        ev["nf_before"] = tr_holder["tr"].nf if "tr" in tr_holder else None

    def on_event(ev):
        st["n"] += 1
        live = ev.get("live") or {}
        cap = live.get("max_iter")
        used = None
        sf = live.get("sf")
        if sf is not None and ev.get("nfev_before") is not None:
            used = sf.nfev - ev["nfev_before"]
        if ev["ret"] is None or (cap is not None and used is not None and used >= cap):
            st["noconv"] += 1
            if cap is not None and cap < cfg["maxls"]:
                st["budget"] += 1

    def pre(ev):
        sf = (ev.get("live") or {}).get("sf")
        ev["nfev_before"] = sf.nfev if sf is not None else None

    with probes.Intercept(M, ["line_search"], copy_args=False, on_call=pre) as ic:
        ic.on_event = on_event
        tr = probes.run_min(P, cfg)
    tags = dict(family=P.spec["family"], mode=str(cfg["jac"]))
    out.count("runs")
    if spec["cfg"].get("max_steplength") is not None:
        out.count("runs_with_user_step_cap")
    if tr.exc is not None:
        out.count("runs_raised")
        out.count("raised:" + type(tr.exc).__name__)
    if spec.get("low_precision_start") and tr.evals:
        P.x0 = np.array(np.real(tr.evals[0][1]), dtype=float)  # the start the run actually used (the low-precision vector, in double precision)
    vals = e2e.mon_monotone(out, P, tr, tags)
    out.count("line_searches", st["n"])
    out.count("line_searches_without_convergence", st["noconv"])
    if st["budget"]:
        out.count("runs_budget_inside_search")
    if ic.missing:
        out.count("probe_names_missing")
    out.nontrivial = st["noconv"] > 0 and vals is not None
    out.key = f"{P.spec['family']}/{P.n}/{P.spec['seed']}/{cfg['maxls']}/{cfg['maxfun']}/{cfg['maxcor']}"
    out.sample = dict(spec=spec, values=vals[:12] if vals else None, line_searches=st["n"], without_convergence=st["noconv"],
                      message=None if tr.result is None else tr.result.message)
    return out


def selftest():
    from scipy.optimize import OptimizeResult

    res = []
    P = gen.make_problem({"family": "qp", "n": 2, "seed": 1, "cond": 10.0, "box": "none", "start": "interior"})
    tr = probes.Trace()
    xs = [P.x0 - 0.01 * P.g(P.x0), P.x0 + 0.5 * P.g(P.x0)]  # second one is uphill
    tr.cb = [dict(xk=xs[0]), dict(xk=xs[1])]
    tr.result = OptimizeResult(x=xs[1], message="CONVERGENCE: REL_REDUCTION_OF_F_<=_FTOL")
    o = Outcome()
    e2e.mon_monotone(o, P, tr, {})
    res.append(("flags an increasing f-sequence", any(v["mech"] == "objective_increased" for v in o.violations)))
    tr.cb = [dict(xk=xs[0])]
    tr.result = OptimizeResult(x=xs[0], message="x")
    o = Outcome()
    e2e.mon_monotone(o, P, tr, {})
    res.append(("silent on a decreasing sequence", not o.violations))
    return res
