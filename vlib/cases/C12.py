"""C12 - on unconstrained problems the iterates are those of reference Algorithm 778.

The reference is ``scipy.optimize.minimize(method="L-BFGS-B")`` of the image. The
sequence of points at which the objective is evaluated is compared pairwise until the
first documented deviation of the port fires (detected from its intercepted line
searches) or the reference enters the round-off regime.
"""

from __future__ import annotations

import numpy as np

from .. import gen, probes
from ..common import Outcome, subseed
from ..oracles import EPS

LEVEL = "exploration"
RULE = ("kinds: (traj) unconstrained qp_quartic / qp_softplus / rosenbrock / qp, n 1..8, start scaled so that |g0| >= 1, maxcor 1..8, first 12 "
        "iterations: every objective evaluation point of the port vs SciPy's, relative 1e-6, until a deviation fires (trial step clipped by "
        "the first-iteration cap; returned step != last trial or failed search; |d0| < 1) or the reference's relative decrease < 1e-8; "
        "(probe) 1-D / 2-D quartics built so that the first trial's sufficient-decrease ratio is 2e-4..5e-3 and its slope ratio 0.6..0.95, "
        "where a changed line-search constant flips an accept/reject decision; (const) the constants actually handed to line_search / "
        "update_lbfgs_matrices by a default call; (box) convex box problems of C01: final value vs SciPy's. Non-trivial = trajectory compared "
        "over >=8 evaluations with >=1 multi-trial line search before any deviation, or a probe compared over >=3 evaluations; distinct = distinct specs")
ASSUMPTIONS = [
    "reference = the SciPy build of this image (1.18), same maxcor, ftol=0, gtol=1e-14, maxls=20",
    "a relative difference below 1e-6 over 12 iterations is invisible; calibrated largest difference on the unchanged tree is reported in maxima",
    "comparison stops at the first documented deviation of the port, so a tree that removes a deviation (closer to Algorithm 778) stays silent",
    "comparison also stops once more correction pairs than variables are stored (singular compact representation: both implementations are then driven by rounding noise)",
]
TOL = 1e-6


def floors(tier):
    return {"trajectories": 200, "evaluations_compared": 2500, "multi_trial_searches_compared": 150, "probes": 80, "probe_evaluations_compared": 300,
            "constant_probes": 10, "trajectories_with_gradient_reusing_forward_state": 50, "trajectories_with_starved_line_searches": 300, "trajectories_with_an_optimisation_nested_in_the_objective": 30, "trajectories_with_inert_differencing_settings": 30, "trajectories_stopped_by_a_callback_and_continued_from_the_result": 40, "failed_searches_compared_through": 3, "trajectories_with_the_absence_of_bounds_written_out": 200, "trajectories_in_25_to_60_dimensions_with_memory_up_to_24": 30, "box_final_values_compared": 60, "__nontrivial__": 120}


def cases(tier, seed):
    rng = np.random.default_rng(subseed("C12", seed))
    nt = 400 if tier == "quick" else 12000
    for i in range(nt):
        fam = gen.pick(rng, ["qp_quartic", "qp_softplus", "rosenbrock", "qp", "rosenbrock", "qp_quartic"])
        yield {"kind": "traj", "problem": {"family": fam, "n": int(rng.integers(1, 9)), "seed": int(rng.integers(0, 2**31 - 1)),
                                           "cond": float(np.exp(rng.uniform(0, np.log(1e3)))), "box": "none", "start": "interior"},
               "maxcor": int(rng.integers(1, 9)), "x0scale": float(gen.pick(rng, [0.5, 1.0, 2.0])), "hostile": bool(i % 3 == 0),
               "fscale": float(10.0 ** rng.uniform(0, 13)) if i % 5 == 1 else 1.0, "prior_is_x0": bool(i % 7 == 2), "adjoint": bool(i % 4 == 3),
               "maxls": int(gen.pick(rng, [1, 2, 2, 3])) if i % 3 == 1 else 20, "maxiter": 30 if i % 3 == 1 else 12,
               "stop_at_callback": int(rng.integers(1, 6)) if i % 4 == 2 else None,
               "nested": bool(i % 6 == 1), "inert_fd": float(gen.pick(rng, [1e-3, 1e-2, 0.1])) if i % 5 == 4 else None,
               "xunit": None}  # (variables in units of 1e-13..1e-17 were tried: the unit-length first trial of iteration 0 is then 1e13 units long and the
        #  interpolated second trial is ill-conditioned in both implementations - not comparable; the wrapper-level effects of such scales are C15's)
    for i in range(60 if tier == "quick" else 2000):
        # scale: dimensions, memories and trajectory lengths larger than the bulk of the cases (more iterations than the memory holds)
        fam = gen.pick(rng, ["qp_quartic", "qp_softplus", "rosenbrock", "qp"])
        yield {"kind": "traj", "problem": {"family": fam, "n": int(rng.integers(25, 61)), "seed": int(rng.integers(0, 2**31 - 1)),
                                           "cond": float(np.exp(rng.uniform(0, np.log(1e3)))), "box": "none", "start": "interior"},
               "maxcor": int(rng.integers(9, 25)), "x0scale": float(gen.pick(rng, [0.5, 1.0])), "hostile": bool(i % 3 == 0), "fscale": 1.0,
               "prior_is_x0": False, "adjoint": False, "maxls": 20, "maxiter": 40, "stop_at_callback": None, "nested": False, "inert_fd": None, "xunit": None,
               "large": True}
    # starved line searches on a scaled Rosenbrock valley: a search that uses its two evaluations without finding a lower value makes
    # both implementations drop their memory and restart the iteration; the comparison goes on through such restarts
    for i in range(700 if tier == "quick" else 12000):
        yield {"kind": "traj", "problem": {"family": "rosenbrock", "n": int(rng.integers(2, 7)), "seed": int(rng.integers(0, 2**31 - 1)), "cond": 1.0,
                                           "box": "none", "start": "interior"},
               "maxcor": int(rng.integers(2, 9)), "x0scale": float(gen.pick(rng, [0.5, 1.0])), "hostile": bool(i % 2 == 0), "fscale": 0.1,
               "prior_is_x0": False, "adjoint": False, "maxls": 2, "maxiter": 30, "x0_uniform": 2.0}
    npb = 160 if tier == "quick" else 4000
    for i in range(npb):
        yield {"kind": "probe", "rho": float(gen.pick(rng, [2e-4, 5e-4, 8e-4, 1.3e-3, 2e-3, 5e-3])), "sigma": float(gen.pick(rng, [0.6, 0.8, 0.95])),
               "sign": int(gen.pick(rng, [-1, 1])), "G": float(np.exp(rng.uniform(0.1, 3))), "n": int(gen.pick(rng, [1, 2])),
               "c4": float(rng.uniform(0.02, 0.3)), "maxcor": 1}
    # fixed witness of the skipped-update deviation (known finding): judged on every run
    yield {"kind": "probe", "rho": 0.005, "sigma": 0.6, "sign": -1, "G": 1.1796005582115399, "n": 2, "c4": 0.08062611799672705, "maxcor": 1}
    for i in range(16 if tier == "quick" else 64):
        yield {"kind": "const", "seed": int(rng.integers(0, 2**31 - 1))}
    nb = 100 if tier == "quick" else 4000
    for i in range(nb):
        ps = gen.rand_spec(rng, gen.CONVEX, nmax=10, boxes=("mixed", "boxed", "lower", "upper", "narrow"),
                           starts=("interior", "face", "vertex", "outward"), condmax=1e3)
        yield {"kind": "box", "problem": ps, "maxcor": int(rng.integers(1, 11))}


# ---------------------------------------------------------------------------
def adjoint_pair(f, g):
    st = {}

    def ff(z):
        st["x"] = np.array(z, copy=True)
        return f(z)

    def gg(z):
        return g(np.array(st["x"], copy=True)) if "x" in st else g(z)

    return ff, gg


def scipy_trace(f, g, x0, maxcor, maxiter=12, bounds=None, gtol=1e-14, maxls=20):
    from scipy.optimize import minimize

    pts, vals = [], []

    def fun(x):
        xr = np.array(x, copy=True)
        v = f(xr)
        pts.append(xr)
        vals.append(v)
        return v

    old = np.seterr(all="ignore")
    try:
        res = minimize(fun, np.array(x0, copy=True), jac=lambda x: g(np.array(x, copy=True)), method="L-BFGS-B", bounds=bounds,
                       options=dict(maxcor=maxcor, ftol=0.0, gtol=gtol, maxiter=maxiter, maxls=maxls, maxfun=100000))
    finally:
        np.seterr(**old)
    return pts, vals, res


def port_trace(f, g, x0, maxcor, maxiter=12, hostile=False, x0_same_object=False, maxls=20, stop_at_callback=None, nested=False, inert_fd=None, bounds_style=None):
    """Runs the port with interception of its line searches; returns (points, searches).
    hostile: the user's gradient is written into one reused work array (as many simulation codes do)."""
    import lbfgsb.main as M
    from lbfgsb import minimize_lbfgsb

    pts = []
    searches = []
    fp_sensitive = int(abs(float(np.ravel(x0)[0])) * 1e6) % 5 == 1
    inner = {"on": False}  # True while the nested optimisation of the objective runs: its own line searches and updates are not the port's

    def fun(x):
        xr = np.array(x, copy=True)
        pts.append(xr)
        if nested:
            # the objective runs a small, unrelated optimisation of its own at every evaluation (a value-function / bilevel objective)
            c_in = np.array([0.3, -0.7])
            inner["on"] = True
            try:
                minimize_lbfgsb(x0=np.array([2.0, 1.5]), fun=lambda z: float(np.sum((z - c_in) ** 4) + z @ z), jac=lambda z: 4 * (z - c_in) ** 3 + 2 * z,
                                maxiter=3, maxcor=2)
            finally:
                inner["on"] = False
        if fp_sensitive:
            # an objective that sets NumPy's floating-point error state at its first call (lazily initialised user code) and takes another
            # branch (a value lower by 1000 (1 + |f|)) whenever it later finds another state than the one it left
            if not inner.get("fp_init"):
                inner["fp_init"] = True
                np.seterr(over="warn", invalid="warn", under="warn")
            else:
                st_ = np.geterr()
                if (st_["over"], st_["invalid"], st_["under"]) != ("warn", "warn", "warn"):
                    v_ = f(xr)
                    return v_ - 1000.0 * (1.0 + abs(v_))
        return f(xr)

    def pre(ev):
        ev["inner"] = inner["on"]
        ev["first_eval"] = len(pts)
        X = (ev.get("live") or {}).get("X")
        if ev["name"] == "update_lbfgs_matrices" and X is not None and len(X):
            ev["len_before"] = len(X)
            ev["last_before"] = X[-1]

    def post(ev):
        live = ev.get("live") or {}
        searches.append(dict(first=ev["first_eval"], last=len(pts), x0=np.array(live.get("x0"), copy=True), d=np.array(live.get("d"), copy=True),
                             above_iter=live.get("above_iter"), ret=ev["ret"], ftol=live.get("ftol"), gtol=live.get("gtol"), xtol=live.get("xtol")))

    consts = {"skipped_updates_at_eval": []}

    def on_event(ev):
        if ev.get("inner"):
            return
        if ev["name"] == "line_search":
            post(ev)
        else:
            live = ev.get("live") or {}
            consts["eps"] = live.get("eps")
            X = live.get("X")
            if X is not None and ev.get("len_before") is not None and ev.get("last_before") is not None:
                # rejected candidate: the newest stored point is still the old one
                if len(X) == ev["len_before"] and X[-1] is ev["last_before"]:
                    # only a skip that the documented rule (s.y <= 2.2e-16 * y.y) prescribes counts as the known mechanism
                    # judged with the harness's own gradient at the two points, not with what the package stored
                    try:
                        sv = np.asarray(live["xk"]) - X[-1]
                        yv = g(np.array(live["xk"], copy=True)) - g(np.array(X[-1], copy=True))
                        legit = float(sv @ yv) <= 2.2e-16 * float(yv @ yv) * (1 + 1e-6)
                        if not np.any(sv) and searches and not np.array_equal(searches[-1]["x0"], np.asarray(live["xk"])):
                            # a "zero step" although the search that just ended moved the iterate: the stored base point is the
                            # iterate itself, not the point the step started from
                            legit = False
                    except Exception:
                        legit = False
                    if not legit:
                        consts.setdefault("unjustified_skips_at_eval", []).append(len(pts))
                    if legit:
                        consts["skipped_updates_at_eval"].append(len(pts))

    old = np.seterr(all="ignore")
    try:
        with probes.Intercept(M, ["line_search", "update_lbfgs_matrices"], copy_args=False, copy_ret=False, on_call=pre) as ic:
            ic.on_event = on_event
            gbuf = {}

            def jac(x):
                v = g(np.array(x, copy=True))
                if not hostile:
                    return v
                if "b" not in gbuf:
                    gbuf["b"] = np.empty_like(v)
                gbuf["b"][:] = v
                return gbuf["b"]

            kw = dict(fun=fun, jac=jac, maxcor=maxcor, ftol=0.0, gtol=1e-14, maxiter=maxiter, maxls=maxls)
            if bounds_style == "inf_array":
                kw["bounds"] = np.column_stack([np.full(np.size(x0), -np.inf), np.full(np.size(x0), np.inf)])  # "no bounds" written out with infinities
            elif bounds_style == "none_tuples":
                kw["bounds"] = [(None, None)] * int(np.size(x0))
            if inert_fd is not None:
                kw.update(eps=inert_fd, finite_diff_rel_step=inert_fd)  # differencing settings: inert with an analytic gradient
            if int(abs(float(np.ravel(x0)[0])) * 1e6) % 3 == 0:
                # traced through the user's logger at a verbosity at which every routine reports (diagnostics must not evaluate anything)
                kw.update(logger=probes.CapturingLogger("verif-c12").logger, iprint=int([99, 100, 101, 1000][int(abs(float(np.ravel(x0)[0])) * 1e6) // 3 % 4]))
                # ... a logger configured for DEBUG, for INFO, or never configured below WARNING (nothing is shown then; the run is the same)
                import logging as _lg

                kw["logger"].setLevel([_lg.DEBUG, _lg.WARNING, _lg.INFO, _lg.WARNING][int(abs(float(np.ravel(x0)[0])) * 1e6) // 12 % 4])
                consts["traced_through_logger"] = True
            if stop_at_callback is None:
                res = minimize_lbfgsb(x0=(x0 if x0_same_object else np.array(x0, copy=True)), **kw)
            else:
                # the user's callback stops the run after a few iterations; the run is then continued from the returned result
                seen = {"n": 0}

                def stopper(xk, state):
                    seen["n"] += 1
                    return seen["n"] >= stop_at_callback

                res = minimize_lbfgsb(x0=(x0 if x0_same_object else np.array(x0, copy=True)), callback=stopper, **kw)
                consts["stopped_by_callback_at_eval"] = len(pts)
                if "CALLBACK" in str(res.message):
                    res = minimize_lbfgsb(x0=np.array(res.x, copy=True), checkpoint=res, **kw)
    finally:
        np.seterr(**old)
    return pts, searches, res, consts, ic


def compare_traces(out, name, ppts, searches, spts, svals, tags, label="evaluations_compared", maxcor=None, skipped_at=(), continue_after_failed_search=False, maxls=None, fg=None, xscale=1.0):
    """Pairwise comparison with the deviation rules. Returns (#compared, #multi-trial searches fully compared, why stopped)."""
    # trial steps of every search of the port
    cut, why = None, None
    nfailed = 0
    pairs_bound = None  # upper bound on the number of stored pairs when this search starts (searches since the last memory reset)
    for s in searches:
        x0, d = s["x0"], s["d"]
        dd = float(d @ d)
        pairs_bound = int(s["above_iter"]) if pairs_bound is None else pairs_bound
        s["pairs_bound"] = pairs_bound
        pairs_now = pairs_bound
        pairs_bound = 0 if s["ret"] is None else pairs_bound + 1
        if maxcor is not None and min(pairs_now, maxcor) > x0.size:
            # more correction pairs than variables: S^T Y is singular, the compact matrices of both implementations
            # are then determined by rounding noise only (a round-off regime of its own)
            cut, why = s["first"], "more_pairs_than_variables"
            break
        alphas = [float((ppts[k] - x0) @ d / dd) if dd > 0 else np.nan for k in range(s["first"], s["last"])]
        s["alphas"] = alphas
        if dd == 0:
            cut, why = s["first"], "zero_direction"
            break
        if s["above_iter"] == 0 and np.sqrt(dd) < 1.0:
            cut, why = s["first"], "unit_first_step"
            break
        if s["above_iter"] == 0 and any(a >= 1.0 - 1e-12 for a in alphas[1:] if a == a):
            # a later trial clipped by the first-iteration cap (max step 1.0; the reference allows 1e10): compare up to,
            # not including, that trial. The first trial is 1/|d| <= 1 here, the cap cannot bind on it.
            k = next(i for i, a in enumerate(alphas) if i >= 1 and a >= 1.0 - 1e-12)
            cut, why = s["first"] + k, "first_iteration_cap"
            break
        if s["ret"] is not None and maxls is not None and len(alphas) >= maxls and not wolfe_holds(fg, s, ppts[s["last"] - 1], alphas[-1]):
            # the evaluation cap was used up and a step was returned: the port accepts the lowest trial of an unconverged search where
            # the reference restarts (the documented lowest-trial deviation)
            cut, why = s["last"], "best_trial_or_failed_search"
            break
        if s["ret"] is None and alphas and continue_after_failed_search:
            # a search that used its evaluation cap without finding a lower value: both implementations drop the memory and restart
            # the iteration from the same point (no documented deviation is involved): the comparison goes on
            nfailed += 1
            out.count("failed_searches_seen_before_any_cut")
            continue
        if s["ret"] is None or not alphas or abs(float(s["ret"]) - alphas[-1]) > 1e-12 * max(1.0, abs(alphas[-1])):
            # lowest-trial acceptance (or failed search): the trials of this search still compare, what follows does not
            cut, why = s["last"], "best_trial_or_failed_search"
            break
    limit = min(len(ppts), len(spts)) if cut is None else min(cut, len(ppts), len(spts))
    ncomp = 0
    worst_before = 0.0
    for k in range(limit):
        a, b = ppts[k], spts[k]
        err = float(np.max(np.abs(a - b)) / max(xscale, float(np.max(np.abs(b)))))
        if in_roundoff(svals, k):
            why = why or "reference_roundoff_regime"
            break
        if not (err <= TOL) and err <= 1e3 * max(worst_before, 1e-14):
            # gradual amplification of rounding differences along a long trajectory (each evaluation multiplies the difference by at
            # most ~30 in a curved valley): "coincides up to rounding" has stopped being decidable, the comparison ends here. A
            # departure caused by the algorithm is a jump of many orders of magnitude within one evaluation and is still reported.
            why = why or "rounding_drift"
            break
        worst_before = max(worst_before, err if err == err else np.inf)
        ncomp += 1
        out.count(label)
        out.maxi("max_relative_difference", err if err <= TOL else 0.0)
        if not (err <= TOL) and any(k >= e for e in skipped_at):
            # a curvature update was skipped earlier: the port forms its next pair from the last *retained* iterate,
            # Algorithm 778 from consecutive iterates (own mechanism, see known_findings.json)
            out.violate("trajectory_differs_after_skipped_update", f"{name}: objective evaluation #{k} at {a.tolist()} but the reference implementation "
                        f"evaluates at {b.tolist()} (relative difference {err:.3e}); a BFGS update was skipped at evaluation "
                        f"#{min(skipped_at)}", **tags)
            return ncomp, 0, "skipped_update"
        if not (err <= TOL):
            out.violate("trajectory_differs_from_algorithm_778", f"{name}: objective evaluation #{k} at {a.tolist()} but the reference implementation "
                        f"evaluates at {b.tolist()} (relative difference {err:.3e}); no documented deviation fired before", **tags)
            return ncomp, 0, why
    multi = 0
    for s in searches:
        if s["last"] <= ncomp and (s["last"] - s["first"]) >= 2:
            multi += 1
        if s["ret"] is None and continue_after_failed_search and s["last"] + 2 <= ncomp:
            out.count("failed_searches_compared_through")
    for i, s in enumerate(searches):
        # ... and beyond the iteration that follows the memory reset: the first trial of the second search after the failed one is the
        # first point that depends on whether the pair of the steepest-descent iteration was stored
        if s["ret"] is None and continue_after_failed_search and i + 2 < len(searches) and searches[i + 2]["first"] + 1 <= ncomp:
            out.count("failed_searches_compared_through_two_further_iterations")
    if why:
        out.count("stopped:" + why)
    return ncomp, multi, why


def wolfe_holds(fg, s, point, alpha):
    """Did the search converge at its last trial (strong Wolfe conditions with the search's own constants, margins of 1e-9 so that a
    borderline case counts as not converged)? Recomputed with the harness's own objective."""
    if fg is None or s.get("ftol") is None or s.get("gtol") is None or not (alpha == alpha):
        return False
    f, g = fg
    x0, d = s["x0"], s["d"]
    f0, g0d = f(np.array(x0, copy=True)), float(g(np.array(x0, copy=True)) @ d)
    f1, g1d = f(np.array(point, copy=True)), float(g(np.array(point, copy=True)) @ d)
    if not (g0d < 0 and np.isfinite(f1) and np.isfinite(g1d)):
        return False
    return bool(f1 <= f0 + s["ftol"] * alpha * g0d - 1e-9 * abs(f0) and abs(g1d) <= s["gtol"] * abs(g0d) * (1 - 1e-9))


def in_roundoff(svals, k):
    """True once the reference's best value has stopped improving by more than 1e-8 relative over the last evaluations."""
    if k < 3 or k >= len(svals):
        return False
    best_before = min(svals[: k - 1])
    best_now = min(svals[: k + 1])
    scale = max(abs(best_before), abs(best_now), 1.0)
    stalled = (best_before - best_now) <= 1e-8 * scale and k >= 6
    # ... and the recent values sit at the best value (two rejected trials far above it, as in a starved line search away from the
    # solution, are not the round-off regime)
    near_best = max(svals[k - 1], svals[k]) - best_now <= 1e-6 * scale
    # ... or, however early, the best value has moved by less than a few ulp of itself (a one-variable quadratic is solved in two steps)
    resolution = k >= 2 and (best_before - best_now) <= 8 * 2.220446049250313e-16 * scale and near_best
    return bool((stalled and near_best) or resolution)


def probe_objective(spec):
    G, rho, sig, sgn, c4, n = spec["G"], spec["rho"], spec["sigma"], spec["sign"], spec["c4"] * spec["G"], spec["n"]
    # f(x) = -G x + a x^2 + b x^3 + c4 x^4 with f(1) = -rho*G and f'(1) = sgn*sigma*G
    A = np.array([[1.0, 1.0], [2.0, 3.0]])
    rhs = np.array([-rho * G + G - c4, sgn * sig * G + G - 4 * c4])
    a, b = np.linalg.solve(A, rhs)

    def f(x):
        t = x[0]
        v = -G * t + a * t * t + b * t**3 + c4 * t**4
        if n == 2:
            v += 0.5 * 1e-3 * x[1] * x[1]
        return float(v)

    def g(x):
        t = x[0]
        out = np.zeros(n)
        out[0] = -G + 2 * a * t + 3 * b * t * t + 4 * c4 * t**3
        if n == 2:
            out[1] = 1e-3 * x[1]
        return out

    return f, g, np.zeros(n)


def run(spec):
    out = Outcome()
    kind = spec["kind"]
    if kind == "traj":
        P = gen.make_problem(spec["problem"])
        x0 = P.x0 * spec["x0scale"]
        if spec.get("x0_uniform"):
            x0 = np.random.default_rng(spec["problem"]["seed"]).uniform(-spec["x0_uniform"], spec["x0_uniform"], P.n)
        g0 = P.g(x0.copy())
        if np.linalg.norm(g0) < 1.0:
            x0 = x0 + 3.0 / max(np.linalg.norm(x0), 1e-3) * x0 + 1.0
        name = f"{P.spec['family']} n={P.n} maxcor={spec['maxcor']}"
        tags = dict(family=P.spec["family"], kind="traj")
        w = float(spec.get("fscale", 1.0))
        fobj, gobj = P.f, P.g
        if w != 1.0:
            # heavily weighted objective (e.g. a least-squares weight of 1e12): same algorithm, other units
            out.count("trajectories_with_weighted_objective")
            fobj, gobj = (lambda z: w * P.f(z)), (lambda z: w * P.g(z))
        x0_port = np.array(x0, copy=True)
        if spec.get("prior_is_x0"):
            # regularisation towards the initial guess, the prior being kept BY REFERENCE: the very array handed over as x0
            out.count("trajectories_whose_objective_refers_to_the_x0_array")
            lam = 0.5
            fbase, gbase = fobj, gobj
            prior_port = x0_port
            prior_ref = np.array(x0, copy=True)
            fobj = lambda z: fbase(z) + 0.5 * lam * float((z - prior_port) @ (z - prior_port))
            gobj = lambda z: gbase(z) + lam * (z - prior_port)
            fref = lambda z: fbase(z) + 0.5 * lam * float((z - prior_ref) @ (z - prior_ref))
            gref = lambda z: gbase(z) + lam * (z - prior_ref)
        else:
            fref, gref = fobj, gobj
        if spec.get("xunit"):
            # the same problem with its variables measured in units of 1e-13 .. 1e-15 (u*f(x/u), gradient g(x/u)): every point, step and
            # difference between consecutive trial points is of that size
            u = float(spec["xunit"])
            out.count("trajectories_in_tiny_length_units")
            fu, gu, fru, gru = fobj, gobj, fref, gref
            fobj, gobj = (lambda z: u * fu(z / u)), (lambda z: gu(z / u))  # objective in matching units: gradients stay O(1)
            fref, gref = (lambda z: u * fru(z / u)), (lambda z: gru(z / u))
            x0 = x0 * u
            x0_port = np.array(x0, copy=True)
        if spec.get("adjoint"):
            # forward/adjoint pattern: the gradient routine reuses the state left by the preceding objective call (the package offers no
            # combined value-and-gradient callable); each implementation gets its own pair
            out.count("trajectories_with_gradient_reusing_forward_state")
            fobj, gobj = adjoint_pair(fobj, gobj)
            fref, gref = adjoint_pair(fref, gref)
        mls, mit = int(spec.get("maxls", 20)), int(spec.get("maxiter", 12))
        if mls != 20:
            out.count("trajectories_with_starved_line_searches")
        if spec.get("large"):
            out.count("trajectories_in_25_to_60_dimensions_with_memory_up_to_24")
        ppts, searches, pres, consts, ic = port_trace(fobj, gobj, x0_port, spec["maxcor"], hostile=bool(spec.get("hostile")), x0_same_object=bool(spec.get("prior_is_x0")),
                                                      maxls=mls, maxiter=mit, stop_at_callback=spec.get("stop_at_callback"),
                                                      nested=bool(spec.get("nested")), inert_fd=spec.get("inert_fd"),
                                                      bounds_style=[None, "inf_array", None, "none_tuples"][int(P.spec["seed"]) % 4])
        if int(P.spec["seed"]) % 4 in (1, 3):
            out.count("trajectories_with_the_absence_of_bounds_written_out")
        if spec.get("nested"):
            out.count("trajectories_with_an_optimisation_nested_in_the_objective")
        if spec.get("inert_fd") is not None:
            out.count("trajectories_with_inert_differencing_settings")
        if consts.get("traced_through_logger"):
            out.count("trajectories_traced_through_a_logger")
        if consts.get("stopped_by_callback_at_eval") is not None:
            out.count("trajectories_stopped_by_a_callback_and_continued_from_the_result")
        if spec.get("hostile"):
            out.count("trajectories_with_reused_gradient_buffer")
        spts, svals, sres = scipy_trace(fref, gref, x0, spec["maxcor"], maxls=mls, maxiter=mit)
        out.count("trajectories")
        ncomp, multi, why = compare_traces(out, name, ppts, searches, spts, svals, tags, maxcor=spec["maxcor"],
                                           skipped_at=consts["skipped_updates_at_eval"], continue_after_failed_search=mls != 20, maxls=mls, fg=(fref, gref), xscale=float(spec.get("xunit") or 1.0))
        out.count("skipped_updates_seen", len(consts["skipped_updates_at_eval"]))
        if consts.get("unjustified_skips_at_eval") and not out.violations:
            out.violate("curvature_update_skipped_without_cause", f"{name}: a BFGS update was skipped at evaluation "
                        f"#{consts['unjustified_skips_at_eval'][0]} although the pair formed with the true gradients has s.y > 2.2e-16*y.y "
                        f"(Algorithm 778 stores it)", **tags)
        out.count("multi_trial_searches_compared", multi)
        out.nontrivial = ncomp >= 8 and multi >= 1
        out.key = f"traj/{P.spec['family']}/{P.n}/{P.spec['seed']}/{spec['maxcor']}"
        out.sample = dict(spec=spec, compared=ncomp, stopped=why, port_evals=len(ppts), scipy_evals=len(spts))
    elif kind == "probe":
        f, g, x0 = probe_objective(spec)
        name = f"probe rho={spec['rho']} sigma={spec['sigma']} sign={spec['sign']} G={spec['G']:.3f} n={spec['n']}"
        tags = dict(kind="probe")
        ppts, searches, pres, consts, ic = port_trace(f, g, x0, spec["maxcor"], maxiter=4)
        spts, svals, sres = scipy_trace(f, g, x0, spec["maxcor"], maxiter=4)
        out.count("probes")
        ncomp, multi, why = compare_traces(out, name, ppts, searches, spts, svals, tags, label="probe_evaluations_compared", maxcor=spec["maxcor"],
                                           skipped_at=consts["skipped_updates_at_eval"])
        out.count("skipped_updates_seen", len(consts["skipped_updates_at_eval"]))
        out.nontrivial = ncomp >= 3
        out.key = f"probe/{spec['rho']}/{spec['sigma']}/{spec['sign']}/{spec['G']}/{spec['n']}"
        out.sample = dict(spec=spec, compared=ncomp, stopped=why, first_points=[p.tolist() for p in ppts[:4]])
    elif kind == "const":
        rng = np.random.default_rng(spec["seed"])
        P = gen.make_problem({"family": "rosenbrock", "n": int(rng.integers(2, 5)), "seed": spec["seed"], "box": "none", "start": "interior"})
        import lbfgsb.main as M
        from lbfgsb import minimize_lbfgsb

        seen = {}

        def on_event(ev):
            live = ev.get("live") or {}
            if ev["name"] == "line_search":
                for k in ("ftol", "gtol", "xtol"):
                    if k in live:
                        seen.setdefault(k, set()).add(float(live[k]))
            else:
                if "eps" in live:
                    seen.setdefault("eps", set()).add(float(live["eps"]))

        with probes.Intercept(M, ["line_search", "update_lbfgs_matrices"], copy_args=False, copy_ret=False) as ic:
            ic.on_event = on_event
            minimize_lbfgsb(x0=P.x0.copy(), fun=P.f, jac=P.g, maxiter=6)
        want = {"ftol": 1e-3, "gtol": 0.9, "xtol": 0.1, "eps": 2.2e-16}
        missing = [k for k in want if k not in seen]
        if missing:
            out.count("constant_probe_unavailable")
            out.skipped = "constant_names_missing"
        else:
            out.count("constant_probes")
            for k, v in want.items():
                if seen[k] != {v}:
                    out.violate("default_constant_changed", f"default call hands {k}={sorted(seen[k])} to the inner routine; Algorithm 778 uses {v}", constant=k, kind="const")
        out.nontrivial = not missing
        out.key = f"const/{spec['seed']}"
        out.sample = dict(spec=spec, seen={k: sorted(v) for k, v in seen.items()})
    else:
        P = gen.make_problem(spec["problem"])
        name = f"{P.spec['family']} n={P.n} box={P.spec['box']} start={P.spec['start']} maxcor={spec['maxcor']}"
        tr = probes.run_min(P, dict(jac="callable", maxcor=spec["maxcor"], ftol=0.0, gtol=1e-7, maxiter=3000, maxfun=30000))
        spts, svals, sres = scipy_trace(P.f, P.g, P.x0, spec["maxcor"], maxiter=3000, bounds=P.scipy_bounds(), gtol=1e-7)
        if tr.exc is not None:
            out.violate("run_raised", f"{name}: {tr.exc!r}", kind="box")
        else:
            xs = np.clip(np.asarray(sres.x, dtype=float), P.lb, P.ub)
            if gen.pg_inf(xs, P.g(xs.copy()), P.lb, P.ub) > 1e-5:
                out.count("reference_not_converged")  # the reference itself stalled: nothing to compare with
                out.skipped = "reference_not_converged"
                out.key = f"box/{P.spec['family']}/{P.n}/{P.spec['seed']}/{spec['maxcor']}"
                return out
            fp, fs = float(tr.snap["fun"]), float(sres.fun)
            Fabs = P.meta["Fabs"](np.asarray(tr.snap["x"], dtype=float))
            tol = 1e-8 * max(1.0, abs(fs)) + 1e3 * EPS * Fabs
            out.count("box_final_values_compared")
            out.maxi("max_box_value_gap_over_tol", abs(fp - fs) / tol)
            if not (abs(fp - fs) <= tol):
                out.violate("box_optimum_differs_from_reference", f"{name}: port f={fp!r} ({tr.snap['message']}), reference f={fs!r} ({sres.message}); "
                            f"gap {abs(fp - fs):.3e} > {tol:.3e}", kind="box", family=P.spec["family"])
        out.nontrivial = True
        out.key = f"box/{P.spec['family']}/{P.n}/{P.spec['seed']}/{spec['maxcor']}"
        out.sample = dict(spec=spec)
    return out


def selftest():
    res = []
    P = gen.make_problem({"family": "qp_quartic", "n": 3, "seed": 5, "cond": 20.0, "box": "none", "start": "interior"})
    x0 = P.x0 + 2.0
    spts, svals, sres = scipy_trace(P.f, P.g, x0, 4)
    # a "port" whose second evaluation is displaced
    bad = [p.copy() for p in spts]
    bad[1] = bad[1] * (1 + 1e-3)
    searches = [dict(first=1, last=2, x0=x0, d=(spts[1] - x0) * 3.0, above_iter=1, ret=1.0 / 3.0)]
    o = Outcome()
    compare_traces(o, "selftest", bad, searches, spts, svals, {})
    res.append(("flags a displaced trial point", bool(o.violations)))
    o = Outcome()
    compare_traces(o, "selftest", [p.copy() for p in spts], searches, spts, svals, {})
    res.append(("silent on identical traces", not o.violations))
    return res
