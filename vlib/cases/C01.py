"""C01 - convex box-constrained problems are solved to a first-order (KKT) point."""

from __future__ import annotations

import itertools

import numpy as np

from .. import gen, probes
from ..common import Outcome, subseed
from ..oracles import EPS

LEVEL = "exploration"
RULE = ("strictly convex families qp / qp_quartic / qp_softplus (cond<=1e4, n 1..12), every box kind, starts interior / face / vertex / "
        "outward-gradient, maxcor 1..10, ftol=0, gtol=1e-6, maxiter 3000, maxfun 30000; plus for n<=3 (qp, two-sided box) every start "
        "activity pattern {at lb, interior, at ub} x start-gradient sign {-,0,+} per variable. Oracle: projected-gradient norm recomputed "
        "from the harness's own gradient <= max(10*gtol, 20*sqrt(L*eps*Fabs)). Non-trivial = >=2 iterations and a variable on a bound at "
        "x0 or at the returned x; distinct = distinct problem specs")
ASSUMPTIONS = [
    "resolution estimate tau_fp = sqrt(L(x)*eps*Fabs(x)) with L the largest Hessian eigenvalue bound known to the generator and Fabs the sum of |terms| of f at x",
    "threshold max(10*gtol, 20*tau_fp): calibrated, the largest pg/tau_fp seen on correct code is reported in maxima on every run",
    "harness gradient closures are exact and pure",
]
GTOL = 1e-6
FACTOR = 20.0


def floors(tier):
    return {"runs": 400, "runs_with_bound_at_start": 150, "runs_with_active_bound_at_end": 150, "outward_start_runs": 60, "lattice_least_squares_runs": 60, "runs_with_inert_differencing_settings": 100, "runs_continued_from_a_target_stop": 150, "runs_whose_gradient_is_returned_in_one_reused_array": 150, "runs_continued_from_a_target_stop_after_another_run_in_between": 60, "runs_continued_from_a_target_already_met_at_the_start_point": 40, "runs_with_user_step_cap_below_one": 60, "runs_preceded_by_another_problem_on_the_same_box": 150, "runs_warm_started_from_the_solution_of_the_preceding_problem": 60, "runs_whose_functions_are_shared_with_the_preceding_problem_and_receive_their_data_through_args": 60, "runs_with_free_optimum_grazing_a_bound": 60, "runs_in_30_to_90_dimensions_with_memory_above_10": 40, "__nontrivial__": 150}


def exhaustive(tier):
    nmax = 2 if tier == "quick" else 3
    return {"all": False, "subspaces": [f"every start activity pattern (position x start-gradient sign per variable) for n<={nmax} on box QPs"]}


def cases(tier, seed):
    rng = np.random.default_rng(subseed("C01", seed))
    nrand = 1500 if tier == "quick" else 40000
    for i in range(nrand):
        ps = gen.rand_spec(rng, gen.CONVEX, nmax=12, nmin=1,
                           boxes=("none", "mixed", "mixed", "boxed", "narrow", "lower", "upper", "boxed_degenerate", "nonneg", "unit", "zero_mixed"),
                           starts=("interior", "face", "vertex", "outward", "outward"))
        yield {"kind": "random", "problem": ps, "maxcor": int(rng.integers(1, 11)), "fd_step": float(gen.pick(rng, [1e-3, 1e-2, 0.1])) if i % 5 == 3 else None,
               # (a fraction >= 1 is a target the start point already meets: the first leg returns at once, before any gradient is computed)
               "target_frac": (float(rng.uniform(0.05, 0.7)) if i % 12 else float(gen.pick(rng, [1.0, 1.5]))) if i % 3 == 0 else None, "restart_maxcor": int(rng.integers(1, 11)),
               "step_cap": float(gen.pick(rng, [0.3, 0.5, 0.9])) if i % 10 == 4 else None, "twin_first": bool(i % 4 == 1)}
    for i in range(80 if tier == "quick" else 2500):
        # scale: dimensions, memories and active sets larger than the bulk of the cases
        ps = gen.rand_spec(rng, gen.CONVEX, nmax=90, nmin=30, boxes=("mixed", "boxed", "narrow", "lower", "boxed_degenerate", "nonneg", "none"),
                           starts=("interior", "face", "vertex", "outward"), condmax=1e3)
        yield {"kind": "random", "problem": ps, "maxcor": int(rng.integers(11, 36)), "fd_step": None, "target_frac": float(rng.uniform(0.05, 0.7)) if i % 4 == 0 else None,
               "restart_maxcor": int(rng.integers(11, 36)), "step_cap": None, "twin_first": False, "large": True}
    for i in range(200 if tier == "quick" else 6000):
        yield {"kind": "lattice", "problem": {"n": int(rng.integers(1, 7)), "seed": int(rng.integers(0, 2**31 - 1)), "w": float(gen.pick(rng, [1.0, 1.0, 1.0, 0.5, 2.0, 3.0])),
                                              "cut": bool(rng.random() < 0.4)}, "maxcor": int(rng.integers(1, 11))}
    for i in range(200 if tier == "quick" else 6000):
        yield {"kind": "near_bound", "problem": {"n": int(rng.integers(1, 9)), "seed": int(rng.integers(0, 2**31 - 1)), "cond": float(np.exp(rng.uniform(0, np.log(1e3))))},
               "maxcor": int(rng.integers(1, 11))}
    # (a "walled quadratic" family - flat quadratic plus exp walls that overflow to +inf at far trial points - was tried for seeded change
    #  C01-r5B and is NOT generated: an objective that is +inf on part of the box is outside the premise "smooth", and the unchanged tree
    #  already ends 25 of 120 such runs with two consecutive failed searches far from stationarity; see DESIGN.md 10.3, observations)
    nmax = 2 if tier == "quick" else 3
    for n in range(1, nmax + 1):
        for pos in itertools.product((0, 1, 2), repeat=n):
            for sgn in itertools.product((-1, 0, 1), repeat=n):
                for rep in range(2 if n < 3 else 1):
                    fam = ("qp", "qp_quartic", "qp_softplus")[(sum(pos) + sum(sgn) + rep) % 3]
                    yield {"kind": "pattern",
                           "problem": {"family": fam, "n": n, "seed": subseed("C01pat", seed, n, pos, sgn, rep) % (2**31),
                                       "cond": float(10 ** ((rep + sum(pos)) % 4)), "box": "boxed", "start": "pattern",
                                       "pattern": {"pos": list(pos), "sgn": list(sgn)}},
                           "maxcor": 1 + (sum(pos) * 3 + rep) % 10}


def make_lattice_lsq(spec):
    """w*sum((x-a)^2) with a, x0 and the bounds on the quarter-integer lattice, two-sided box containing the mirror image 2a-x0 of the
    start: every quantity of the first iteration is exact in floating point (for w=1 the first trial point is the mirror image, where
    the objective TIES with its start value exactly)."""
    rng = np.random.default_rng(spec["seed"])
    n = spec["n"]
    a = rng.integers(-16, 17, n) / 4.0
    dlt = rng.integers(1, 13, n) / 4.0 * rng.choice([-1.0, 1.0], n)
    x0 = a + dlt
    w = float(spec["w"])
    lo = np.minimum(x0, 2 * a - x0) - rng.integers(0, 5, n) / 4.0
    hi = np.maximum(x0, 2 * a - x0) + rng.integers(0, 5, n) / 4.0
    if spec.get("cut"):
        # on some variables the box cuts the mirror step
        cut = rng.random(n) < 0.4
        lo = np.where(cut & (dlt > 0), a - np.abs(dlt) / 2, lo)
        hi = np.where(cut & (dlt < 0), a + np.abs(dlt) / 2, hi)

    def f(x):
        return float(w * np.sum((x - a) ** 2))

    def g(x):
        return 2.0 * w * (x - a)

    meta = dict(L=lambda x: 2.0 * w, Fabs=lambda x: float(w * np.sum((x - a) ** 2)), convex=True)
    return gen.Problem(dict(family="lattice_lsq", n=n, seed=spec["seed"], box="boxed", start="lattice"), n, f, g, lo, hi, x0, meta)


def make_walled_quadratic(spec):
    """0.5*k*|x - a|^2 + sum exp(c*(x_i - w_i)): smooth and strictly convex; the flat quadratic pulls the variables far beyond the steep
    exponential walls, so long quasi-Newton steps land where the objective overflows to +inf, more than once per run."""
    rng = np.random.default_rng(spec["seed"])
    n = spec["n"]
    k = float(np.exp(rng.uniform(np.log(3e-3), np.log(5e-2))))
    a = rng.uniform(50.0, 150.0, n)
    c = float(rng.uniform(20.0, 60.0))
    w = rng.uniform(1.0, 5.0, n)
    x0 = -rng.uniform(0.0, 200.0, n)
    if spec.get("boxed"):
        lb, ub = np.full(n, -300.0), np.full(n, 200.0)
    else:
        lb, ub = np.full(n, -np.inf), np.full(n, np.inf)

    def f(x):
        with np.errstate(over="ignore"):
            return float(0.5 * k * np.sum((x - a) ** 2) + np.sum(np.exp(c * (x - w))))

    def g(x):
        with np.errstate(over="ignore"):
            return k * (x - a) + c * np.exp(c * (x - w))

    def L(x):
        with np.errstate(over="ignore"):
            return float(k + c * c * np.max(np.exp(c * (x - w))))

    def Fabs(x):
        with np.errstate(over="ignore"):
            return float(0.5 * k * np.sum((x - a) ** 2) + np.sum(np.exp(c * (x - w))))

    return gen.Problem(dict(family="walled_quadratic", n=n, seed=spec["seed"], box="boxed" if spec.get("boxed") else "none", start="far"), n, f, g, lb, ub, x0,
                       dict(L=L, Fabs=Fabs, convex=True))


def make_near_bound_optimum(spec):
    """Box QP whose unconstrained minimiser c (|c| of order 1e2..1e3) lies strictly inside the box but within delta*|bound| of some bounds
    (delta 1e-7..1e-5): the solution has FREE variables at a relative distance from their bound far below any 'is close' tolerance."""
    P = gen.make_problem({"family": "qp", "n": spec["n"], "seed": spec["seed"], "cond": spec["cond"], "box": "none", "start": "interior"})
    rng = np.random.default_rng(spec["seed"] + 1)
    n = P.n
    c = rng.uniform(100.0, 1000.0, n) * rng.choice([-1.0, 1.0], n)
    P.meta["b"][:] = P.meta["A"] @ c  # closures read b by reference: the minimiser is now c
    lb = np.full(n, -np.inf)
    ub = np.full(n, np.inf)
    for i in range(n):
        r = rng.random()
        dl = float(np.exp(rng.uniform(np.log(1e-7), np.log(9e-6)))) * abs(c[i])
        if r < 0.45:
            lb[i], ub[i] = c[i] - dl, c[i] + float(rng.uniform(20.0, 100.0))
        elif r < 0.9:
            lb[i], ub[i] = c[i] - float(rng.uniform(20.0, 100.0)), c[i] + dl
        elif r < 0.95:
            lb[i] = c[i] - float(rng.uniform(20.0, 100.0))
    x0 = np.clip(c + rng.uniform(-15.0, 15.0, n), lb, ub)
    P.lb, P.ub, P.x0 = lb, ub, x0
    P.bounds = np.column_stack([lb, ub])
    P.spec = dict(P.spec, box="near_bound_optimum", start="interior")
    return P


def judge(out, P, tr, where):
    if tr.exc is not None:
        out.violate("run_raised", f"{where}: {tr.exc!r}", family=P.spec["family"])
        return None
    x = np.array(tr.result.x, dtype=float)
    g = P.g(x)
    pg = gen.pg_inf(x, g, P.lb, P.ub)
    L = P.meta["L"](x)
    Fabs = P.meta["Fabs"](x)
    tau = float(np.sqrt(L * EPS * max(Fabs, 1e-300)))
    thr = max(10 * GTOL, FACTOR * tau)
    out.maxi("max_pg_over_tau_when_above_gtol", pg / tau if pg > GTOL else 0.0)
    out.maxi("max_iterations", tr.result.nit)
    msg = tr.result.message
    out.count("msg:" + str(msg)[:40])
    if not (pg <= thr):
        out.violate("stalled_far_from_kkt", f"{where}: returned with message {msg!r} after {tr.result.nit} iterations, {tr.result.nfev} evaluations; "
                    f"projected gradient recomputed by the caller = {pg:.3e} > max(10*gtol, 20*tau_fp) = {thr:.3e} (tau_fp={tau:.2e})",
                    family=P.spec["family"], message=str(msg))
    return pg


def run(spec):
    out = Outcome()
    if spec["kind"] == "lattice":
        P = make_lattice_lsq(spec["problem"])
        out.count("lattice_least_squares_runs")
    elif spec["kind"] == "walled":
        P = make_walled_quadratic(spec["problem"])
        out.count("runs_on_convex_objective_overflowing_at_far_trial_points")
    elif spec["kind"] == "near_bound":
        P = make_near_bound_optimum(spec["problem"])
        out.count("runs_with_free_optimum_grazing_a_bound")
    else:
        P = gen.make_problem(spec["problem"])
    cfg = dict(jac="callable", maxcor=spec["maxcor"], ftol=0.0, gtol=GTOL, maxiter=3000, maxfun=30000)
    if spec["kind"] in ("random", "pattern") and int(spec["problem"]["seed"]) % 5 == 3:
        cfg["reuse_grad_buffer"] = True  # the user's gradient code fills one preallocated array and returns it at every call
        out.count("runs_whose_gradient_is_returned_in_one_reused_array")
    if spec.get("step_cap") is not None:
        cfg["max_steplength"] = spec["step_cap"]  # the user's cap on the step length (below 1: every full step is cut)
        out.count("runs_with_user_step_cap_below_one")
    if spec.get("fd_step") is not None:
        # settings of the differencing scheme are inert when the gradient is supplied: passed at non-default values on some runs
        cfg["eps"] = spec["fd_step"]
        cfg["finite_diff_rel_step"] = spec["fd_step"]
        out.count("runs_with_inert_differencing_settings")
    if spec.get("large"):
        out.count("runs_in_30_to_90_dimensions_with_memory_above_10")
    if spec.get("twin_first") and spec["kind"] == "random":
        # another convex problem on the same box from the same start is solved first, in the same process (a parameter study): the two
        # runs share their first trial points (vertices of the box); nothing of the first run may reach the second
        tw = dict(spec["problem"], seed=int(spec["problem"]["seed"]) + 1009, geometry_from=dict(spec["problem"]))
        twin = gen.make_problem(tw)
        if twin.n == P.n:
            if int(spec["problem"]["seed"]) % 2 == 0:
                # one objective / gradient function for both problems, the data passed through `args` (a parameter study)
                cfg["via_args"] = True
                out.count("runs_whose_functions_are_shared_with_the_preceding_problem_and_receive_their_data_through_args")
            first = probes.run_min(twin, dict(cfg))
            out.count("runs_preceded_by_another_problem_on_the_same_box")
            if int(spec["problem"]["seed"]) % 4 in (0, 1) and first.result is not None:
                # ... warm-started from the solution of the preceding problem
                P.x0 = np.array(first.result.x, dtype=float, copy=True)
                out.count("runs_warm_started_from_the_solution_of_the_preceding_problem")
    hooks = None
    if spec["kind"] == "random" and int(spec["problem"]["seed"]) % 7 == 6:
        # a value-function objective: now and then an evaluation of the objective runs a small convex minimisation of its own (same default
        # line-search constants), also in the middle of a line search of the outer run
        Qn = gen.make_problem({"family": "qp", "n": 3, "seed": int(spec["problem"]["seed"]) + 17, "cond": 20.0, "box": "mixed", "start": "interior"})

        def on_f_nested(i, x):
            if i in (1, 2, 3, 5, 8, 13, 21, 34):
                probes.run_min(Qn, dict(jac="callable", maxcor=3, maxiter=6, maxfun=100))

        hooks = {"on_f": on_f_nested}
        out.count("runs_whose_objective_runs_a_minimisation_of_its_own")
    tr = probes.run_min(P, cfg, hooks=hooks)
    where = f"{P.spec['family']} n={P.n} box={P.spec.get('box')} start={P.spec.get('start')} maxcor={spec['maxcor']}"
    pg = judge(out, P, tr, where)
    if spec.get("target_frac") is not None and tr.result is not None and not out.violations:
        # the same problem solved in two legs: first down to a target value between f(x0) and the optimum, then continued from the
        # returned result under the premise of the statement (gradient tolerance only, ample budget, possibly another memory size)
        f0v = P.f(np.clip(P.x0, P.lb, P.ub))
        fs = float(tr.result.fun)
        if np.isfinite(f0v) and f0v > fs:
            leg1 = probes.run_min(P, dict(cfg, ftarget=fs + spec["target_frac"] * (f0v - fs)))
            if leg1.result is not None and "TARGET" in str(leg1.result.message):
                out.count("runs_continued_from_a_target_stop")
                if spec["target_frac"] >= 1.0:
                    out.count("runs_continued_from_a_target_already_met_at_the_start_point")
                if int(P.spec["seed"]) % 2 == 0:
                    # between the two legs the process solves something else (here: the same problem to the end, which reaches lower
                    # objective values than the first leg did)
                    probes.run_min(P, cfg)
                    out.count("runs_continued_from_a_target_stop_after_another_run_in_between")
                leg2 = probes.run_min(P, dict(cfg, maxcor=spec.get("restart_maxcor", spec["maxcor"])), checkpoint=leg1.result,
                                      x0=np.array(leg1.result.x, dtype=float, copy=True))
                judge(out, P, leg2, where + " continued from a target stop")
    out.count("runs")
    at_start = bool(np.any((P.x0 == P.lb) | (P.x0 == P.ub)))
    g0 = P.g(P.x0)
    outward = bool(np.any(((P.x0 == P.lb) & (g0 > 0)) | ((P.x0 == P.ub) & (g0 < 0))))
    if at_start:
        out.count("runs_with_bound_at_start")
    if outward:
        out.count("outward_start_runs")
    at_end = False
    nit = 0
    if tr.result is not None:
        xe = tr.result.x
        at_end = bool(np.any(((xe == P.lb) | (xe == P.ub)) & (P.lb < P.ub)))
        nit = int(tr.result.nit)
        if at_end:
            out.count("runs_with_active_bound_at_end")
    out.nontrivial = nit >= 2 and (at_start or at_end)
    out.key = f"{spec['kind']}/{P.spec['family']}/{P.n}/{P.spec['seed']}/{spec['maxcor']}"
    out.sample = dict(spec=spec, x0=P.x0, lb=P.lb, ub=P.ub, nit=nit, pg=pg,
                      message=None if tr.result is None else tr.result.message)
    return out


def selftest():
    class R:
        pass

    res = []
    P = gen.make_problem({"family": "qp", "n": 3, "seed": 1, "cond": 10.0, "box": "boxed", "start": "interior"})
    tr = probes.Trace()
    from scipy.optimize import OptimizeResult

    tr.result = OptimizeResult(x=P.x0.copy(), message="ABNORMAL_TERMINATION_IN_LNSRCH", nit=3, nfev=9)
    o = Outcome()
    judge(o, P, tr, "selftest")
    res.append(("flags a far-from-stationary return", any(v["mech"] == "stalled_far_from_kkt" for v in o.violations)))
    # exact solution of the box QP by projected gradient iterations
    x = P.x0.copy()
    lam = P.meta["L"](x)
    for _ in range(20000):
        x = np.clip(x - P.g(x) / lam, P.lb, P.ub)
    tr.result = OptimizeResult(x=x, message="CONVERGENCE", nit=3, nfev=9)
    o = Outcome()
    judge(o, P, tr, "selftest")
    res.append(("silent at a KKT point", not o.violations))
    return res
