"""C08 - the Cauchy point is the first local minimiser along the projected path.

Events: arguments / return value of ``get_cauchy_point`` (i) on synthetic inputs
(exhaustive structural patterns for small n, random inputs, tied breakpoints) and
(ii) intercepted inside real runs.  Oracle: dense reference (oracles.ref_gcp).
"""

from __future__ import annotations

import itertools

import numpy as np

from .. import gen, probes
from ..common import Outcome, subseed
from ..oracles import has_pairs, EPS, dense_bfgs, dense_from_compact, middle_cond, model_tol, model_value, ref_gcp

LEVEL = "exploration"
RULE = ("synthetic: every structural pattern per variable {at lb, interior, at ub} x {g<0, g=0, g>0} x {both bounds, lower only, "
        "upper only, none} for n<=2 (quick) / n<=3 (thorough) x memory {0,1,m pairs} x {random magnitudes, tied breakpoints, "
        "minimiser on a breakpoint}; random inputs n 1..10 with 0..maxcor pairs; plus every get_cauchy_point call intercepted in "
        "real runs. Non-trivial = input with >=1 variable on a bound with outward gradient and >=1 breakpoint crossed; distinct = distinct inputs (hash)")
ASSUMPTIONS = [
    "reference: breakpoints + exact 1-D minimisation of the dense model per segment (Byrd-Lu-Nocedal section 4)",
    "point tolerance 1e-9*max(1,|x|,|step|) for cond(B)<=1e8 plus 64x the rounding amplification of incrementally updated f', f'' (ratio of first to last segment curvature); calibrated, see maxima; breakpoints within 1e-10 relative of t* are exempt from the exact-pinning clause",
    "inputs with zero projected gradient are outside the statement's premise and skipped",
]
PT_TOL = 1e-9
C_TOL = 1e-7
KMAX = 1e8


def floors(tier):
    return {"gcp_judged": 3000, "outward_on_bound": 800, "breakpoints_crossed_inputs": 800, "c_checked": 1500,
            "intercepted_calls": 200, "tie_inputs": 600, "inputs_with_theta_exactly_one": 40, "inputs_with_empty_memory_and_theta_not_one": 100, "grazing_inputs": 10000, "inputs_with_direction_exactly_orthogonal_to_the_memory": 300, "inputs_with_models_used_in_turn": 800, "grazing_inputs_after_crossed_breakpoints": 5000, "runs_with_objective_redefined": 40, "inputs_through_bound_arrays_refilled_in_place_after_an_unconstrained_call": 500, "direct_calls_traced_through_a_debug_level_logger": 2000, "direct_calls_traced_through_an_info_level_logger": 1000, "runs_traced_through_a_debug_level_logger": 10, "runs_with_a_user_step_cap": 10, "runs_with_objective_redefined_between_checkpoint_and_restart": 15, "__nontrivial__": 200}


def exhaustive(tier):
    nmax = 2 if tier == "quick" else 3
    return {"all": False, "subspaces": [f"all valid per-variable (position, gradient sign, bound finiteness) patterns for n<={nmax} "
                                         "x memory {0,1,m} x 3 magnitude variants"]}


# ---------------------------------------------------------------------------
def judge_gcp(out, x, g, lb, ub, mats, B, xcp, c, where, tags):
    n = x.size
    if not probes.in_box(x, lb, ub):
        out.count("skipped_infeasible_input")  # premise of the statement broken upstream (C02's business)
        return False
    pg = gen.pg_inf(x, g, lb, ub)
    if not (pg > 0):
        out.count("skipped_zero_projection")
        return False
    kappa = float(np.linalg.cond(B))
    if not np.isfinite(kappa) or kappa > KMAX:
        out.count("skipped_ill_conditioned")
        return False
    kmid = middle_cond(mats)
    if kmid > 1e12:
        out.count("skipped_ill_conditioned_memory")  # (numerically) dependent pairs: products with the compact form carry no accuracy
        return False
    kappa = kappa + kmid
    try:
        ref = ref_gcp(x, g, lb, ub, B)
    except RuntimeError:
        out.count("skipped_unbounded_model")
        return False
    out.count("gcp_judged")
    xcp = np.asarray(xcp, dtype=float)
    if xcp.shape != x.shape or not np.all(np.isfinite(xcp)):
        out.violate("gcp_not_finite", f"{where}: Cauchy point {xcp!r}", **tags)
        return True
    # 1. feasibility, exact
    if not probes.in_box(xcp, lb, ub):
        i = int(np.argmax((xcp < lb) | (xcp > ub)))
        out.violate("gcp_infeasible", f"{where}: x_cp[{i}]={xcp[i]!r} outside [{lb[i]!r},{ub[i]!r}]", **tags)
        return True
    # 2. variables that start on a bound with outward gradient never move; pinned ones sit exactly on the bound
    t = ref["t"]
    outward = (t == 0)
    if np.any(outward):
        out.count("outward_on_bound")
        if not np.array_equal(xcp[outward], x[outward]):
            out.violate("outward_variable_moved", f"{where}: variable on a bound with outward gradient moved: x={x.tolist()} x_cp={xcp.tolist()}", **tags)
            return True
    if ref["knife"]:
        # the segment minimiser coincides with a breakpoint to 1e-9: whether the search stops just before it or fixes the variable and
        # goes on is decided by rounding, and the two outcomes are different points. Judged: feasibility (above, exact), membership
        # of the projected path, and no increase of the model
        out.count("stop_or_continue_decision_at_threshold")
        tt = []
        thi = []  # per free variable: the largest path parameter its position is compatible with (its displacement t*g_i is resolved to a few ulp of x_i)
        for i in range(n):
            inside = lb[i] < xcp[i] < ub[i]
            if g[i] != 0 and inside:
                tt.append((x[i] - xcp[i]) / g[i])
                thi.append(tt[-1] + 64 * EPS * max(1.0, abs(float(x[i]))) / abs(float(g[i])))
            elif g[i] == 0 and xcp[i] != x[i]:
                out.violate("gcp_off_the_projected_path", f"{where}: variable {i} has zero gradient but moved", **tags)
                return True
        if tt and not (max(tt) - min(tt) <= 1e-9 * max(abs(max(tt)), 1e-300) + 64 * EPS * max(1.0, float(np.max(np.abs(x)))) / max(float(np.min(np.abs(g[g != 0]))), 1e-300)):
            out.violate("gcp_off_the_projected_path", f"{where}: the free variables of x_cp correspond to different path parameters t in [{min(tt)!r}, {max(tt)!r}]", **tags)
            return True
        tpar = min(thi) if thi else np.inf
        for i in range(n):
            on = (xcp[i] == lb[i] and g[i] > 0) or (xcp[i] == ub[i] and g[i] < 0)
            if on and np.isfinite(t[i]) and t[i] > 0 and tt and not (t[i] <= tpar * (1 + 1e-8)):
                out.violate("gcp_off_the_projected_path", f"{where}: variable {i} sits on its bound although the path reaches it at t={t[i]!r} > {tpar!r}", **tags)
                return True
        mv = model_value(B, g, x, xcp)
        if not (mv <= model_tol(B, g, x, xcp, rel=1e-12)):
            out.violate("model_increase", f"{where}: m(x_cp)-m(x)={mv:.3e} > 0", **tags)
        return True
    scale0 = max(1.0, float(np.max(np.abs(x))))
    cancel_regime = 64 * ref["cancellation"] > PT_TOL * scale0
    if cancel_regime:
        # the curvature of the last segment is below the rounding noise of the incrementally updated f'' (the
        # Algorithm-778 safeguard f'' >= eps*f''_org is then in charge): which breakpoints are passed is not decidable
        out.count("pinning_not_judged_in_cancellation_regime")
    for i in np.nonzero(ref["pinned"] & ~outward)[0]:
        if cancel_regime:
            break
        bound = ub[i] if g[i] < 0 else lb[i]
        if xcp[i] != bound:
            out.violate("not_pinned_on_reached_bound", f"{where}: variable {i} reaches its bound at t={t[i]!r} < t*={ref['tstar']!r} but "
                        f"x_cp[{i}]={xcp[i]!r} != {bound!r}", **tags)
            return True
    if ref["crossed"] > 0:
        out.count("breakpoints_crossed_inputs")
    out.count("near_tie_exemptions", int(np.count_nonzero(ref["near"])))
    # 3. the point itself
    scale = max(1.0, float(np.max(np.abs(x))), float(np.max(np.abs(ref["xcp"] - x))))
    err = float(np.max(np.abs(xcp - ref["xcp"])))
    tol = PT_TOL * scale * max(1.0, kappa / 1e4) + 64 * ref["cancellation"]
    out.maxi("max_point_err_over_tol", err / tol)
    if not (err <= tol):
        out.violate("gcp_differs_from_reference", f"{where}: x_cp={xcp.tolist()} but first local minimiser along P(x-tg) is {ref['xcp'].tolist()} "
                    f"(t*={ref['tstar']!r}, err {err:.3e}); x={x.tolist()} g={g.tolist()} lb={lb.tolist()} ub={ub.tolist()}", **tags)
        return True
    # 4. model value never larger than at x
    mv = model_value(B, g, x, xcp)
    if not (mv <= model_tol(B, g, x, xcp, rel=1e-12)):
        out.violate("model_increase", f"{where}: m(x_cp)-m(x)={mv:.3e} > 0", **tags)
        return True
    # 5. auxiliary vector
    free = (xcp > lb) & (xcp < ub)
    if np.any(free) and has_pairs(mats):
        # the displacement is taken from the reference path (accumulated t*d, no cancellation), so the check
        # stays meaningful when the step is at the rounding level of x
        z = ref["z"]
        want = mats.W.T @ z
        cs = float(np.max(np.abs(mats.W).T @ np.abs(z))) + 1e-300
        cerr = float(np.max(np.abs(np.asarray(c) - want))) if want.size else 0.0
        out.count("c_checked")
        out.maxi("max_c_err_over_scale", cerr / cs)
        ctol = C_TOL * cs * max(1.0, kappa / 1e4) + 64 * ref["cancellation"] * float(np.max(np.abs(mats.W))) * n
        if not (cerr <= ctol):
            out.violate("aux_vector_not_Wt_step", f"{where}: c={np.asarray(c).tolist()} but W^T(x_cp-x)={want.tolist()} (err {cerr:.3e}, scale {cs:.3e}); "
                        f"x={x.tolist()} g={g.tolist()} lb={lb.tolist()} ub={ub.tolist()}", **tags)
            return True
    elif np.any(free):
        out.count("c_trivial_no_memory")
    return True


# ---------------------------------------------------------------------------
# synthetic inputs
# ---------------------------------------------------------------------------
def make_memory(rng, n, npairs, convex=True, unit_theta=False, scale=1.0, idle=None, xunit=1.0, eps_update=None):
    """Real LBFGSB_MATRICES built by the package from accepted pairs; returns (mats, B_dense) or None.
    unit_theta: the newest pair lies in a unit-curvature plane (y == s exactly), so theta == 1.0 with a non-empty memory."""
    from collections import deque

    from lbfgsb.bfgsmats import LBFGSB_MATRICES, update_lbfgs_matrices

    mats = LBFGSB_MATRICES(n)
    if npairs == 0:
        return mats, mats.theta * np.eye(n)
    if unit_theta and n >= 3:
        dg = np.concatenate([[1.0, 1.0], 2.0 ** rng.integers(-2, 4, n - 2)])
        A = np.diag(dg)
        # couple the non-unit block so that the memory term W M W^T is not diagonal
        if n >= 4:
            A[2, 3] = A[3, 2] = 0.25 * min(dg[2], dg[3])
    else:
        unit_theta = False
        A = gen.rand_spd(rng, n, float(np.exp(rng.uniform(0, np.log(1e3)))))
        if eps_update is not None:
            # a memory built under a demanding curvature threshold (the user's eps_SY): curvatures between 0.3 and 1.2, so that s.y > eps*y.y holds
            A = gen.rand_spd(rng, n, 4.0) * 0.3
    if not convex and not unit_theta:
        A = A - 0.3 * np.eye(n)
    if scale != 1.0 and not unit_theta:
        A = A * scale  # objective measured in other units: the Cauchy point does not depend on them
    if idle is not None and len(idle):
        # variables the objective does not depend on: their rows of S, Y (hence of W) are exactly zero
        A = A.copy()
        A[idle, :] = 0.0
        A[:, idle] = 0.0
    x = rng.standard_normal(n) if not unit_theta else rng.integers(-8, 9, n) / 4.0
    if xunit != 1.0 and not unit_theta:
        x = x * xunit  # variables measured in tiny (or huge) length units: every stored step is of that size
    X, G = deque([x.copy()]), deque([A @ x])
    tries = 0
    while len(X) - 1 < npairs and tries < 4 * npairs + 4:
        tries += 1
        if unit_theta:
            step = rng.integers(-8, 9, n) / 8.0
            if len(X) - 1 == npairs - 1:
                step[2:] = 0.0  # the newest step stays in the unit-curvature plane: y = s, theta = 1 exactly
                if not np.any(step[:2]):
                    step[0] = 0.5
            x = x + step
        else:
            step = rng.standard_normal(n) * np.exp(rng.uniform(-2, 0.5)) * (xunit if not unit_theta else 1.0)
            if idle is not None and len(idle):
                step[idle] = 0.0
            x = x + step
        mats = update_lbfgs_matrices(x.copy(), A @ x, X, G, max(npairs, 1), mats, False) if eps_update is None else \
            update_lbfgs_matrices(x.copy(), A @ x, X, G, max(npairs, 1), mats, False, float(eps_update))
    S = [X[i + 1] - X[i] for i in range(len(X) - 1)]
    Y = [G[i + 1] - G[i] for i in range(len(G) - 1)]
    if not S:
        return mats, mats.theta * np.eye(n)
    theta = float(Y[-1] @ Y[-1]) / float(S[-1] @ Y[-1])
    Bd = dense_bfgs(S, Y, theta, n)
    Bc = dense_from_compact(mats, n)
    if not np.linalg.norm(Bc - Bd) <= 1e-6 * np.linalg.norm(Bd):
        return None  # memory itself wrong: C10's business
    return mats, Bd


POS = (0, 1, 2)  # at lb, interior, at ub
SGN = (-1, 0, 1)
FIN = ("both", "lower", "upper", "none")


def valid_var_patterns():
    outp = []
    for pos in POS:
        for s in SGN:
            for fin in FIN:
                if pos == 0 and fin in ("upper", "none"):
                    continue
                if pos == 2 and fin in ("lower", "none"):
                    continue
                outp.append((pos, s, fin))
    return outp


VARP = valid_var_patterns()


def build_pattern_input(rng, pats, variant):
    n = len(pats)
    lb = np.full(n, -np.inf)
    ub = np.full(n, np.inf)
    x = np.zeros(n)
    g = np.zeros(n)
    for i, (pos, s, fin) in enumerate(pats):
        c = float(np.round(rng.normal() * 2, 3)) if variant != "tie" else float(rng.integers(-3, 4))
        w = float(np.exp(rng.uniform(-1.5, 1.5))) if variant != "tie" else 1.0
        if fin in ("both", "lower"):
            lb[i] = c - w
        if fin in ("both", "upper"):
            ub[i] = c + w
        if pos == 0:
            x[i] = lb[i]
        elif pos == 2:
            x[i] = ub[i]
        else:
            x[i] = c if variant == "tie" else c + (rng.random() - 0.5) * w
        mag = float(np.exp(rng.uniform(-1.5, 1.5)))
        if variant == "tie":
            # every finite breakpoint at t = 1 (powers of two keep the arithmetic exact)
            mag = 1.0 if pos == 1 else 2.0
        g[i] = s * mag
    return x, g, lb, ub


def cases(tier, seed):
    yield {"kind": "witness"}
    nmax = 2 if tier == "quick" else 3
    for n in range(1, nmax + 1):
        allp = list(itertools.product(range(len(VARP)), repeat=n))
        chunk = 48
        for off in range(0, len(allp), chunk):
            yield {"kind": "patterns", "n": n, "offset": off, "count": chunk, "seed": subseed("C08p", seed, n, off) % (2**31)}
    nr = 250 if tier == "quick" else 8000
    for i in range(nr):
        yield {"kind": "random", "seed": subseed("C08r", seed, i) % (2**31), "count": 20}
    nt = 150 if tier == "quick" else 5000
    for i in range(nt):
        yield {"kind": "ties", "seed": subseed("C08t", seed, i) % (2**31), "count": 20}
    for i in range(60 if tier == "quick" else 2000):
        yield {"kind": "orth", "seed": subseed("C08o", seed, i) % (2**31), "count": 20}
    for i in range(60 if tier == "quick" else 2000):
        yield {"kind": "alt", "seed": subseed("C08a", seed, i) % (2**31), "count": 10}
    for i in range(400 if tier == "quick" else 12000):
        yield {"kind": "graze", "seed": subseed("C08g", seed, i) % (2**31), "count": 20}
    nruns = 150 if tier == "quick" else 4000
    rng = np.random.default_rng(subseed("C08runs", seed))
    fams = ("qp", "qp_quartic", "qp_softplus", "rosenbrock", "styblinski_tang", "rastrigin")
    for i in range(nruns):
        ps = gen.rand_spec(rng, fams, nmax=10, boxes=("mixed", "boxed", "narrow", "lower", "upper", "boxed_degenerate"),
                           starts=("face", "vertex", "outward", "interior"))
        yield {"kind": "run", "problem": ps, "maxcor": int(rng.integers(1, 8)), "maxiter": int(rng.integers(5, 30)),
               "eps_SY": float(gen.pick(rng, [2.2e-16, 2.2e-16, 1e-3, 1e-2, 0.1]))}
    # runs whose objective is redefined on the fly (update_fun_def rewriting the stored gradients; demanding curvature test): the
    # matrices handed to the Cauchy search are then rebuilt from a filtered history, possibly with the newest pair rejected
    for i in range(nruns // 2 + (300 if tier == "quick" else 6000)):
        ps = gen.rand_spec(rng, ("qp", "qp_quartic"), nmax=8, nmin=2, boxes=("mixed", "boxed", "lower", "none"), starts=("interior", "face", "vertex"), condmax=1e3)
        if i >= nruns // 2:
            # restarts on a strongly perturbed objective with a demanding curvature test: the pair (last restored point -> x) is often rejected
            yield {"kind": "run", "problem": ps, "maxcor": int(rng.integers(2, 7)), "maxiter": int(rng.integers(6, 12)),
                   "switch": {"switch_at": int(rng.integers(2, 7)), "variant": "indefinite", "vseed": int(rng.integers(0, 2**31 - 1)),
                              "strength": float(rng.uniform(1.0, 4.0)), "eps_SY": float(gen.pick(rng, [1e-2, 0.1, 0.3])), "on_restart": bool(i % 2 == 0)}}
            continue
        yield {"kind": "run", "problem": ps, "maxcor": int(rng.integers(1, 7)), "maxiter": int(rng.integers(6, 16)),
               "switch": {"switch_at": int(rng.integers(1, 7)), "variant": gen.pick(rng, ["reg", "indefinite", "indefinite"]),
                          "vseed": int(rng.integers(0, 2**31 - 1)), "strength": float(rng.uniform(0.3, 3.0)),
                          "eps_SY": float(gen.pick(rng, [2.2e-16, 1e-2, 0.1, 0.3])), "on_restart": bool(i % 2 == 1)}}


_LOGCFG = {"n": 0, "debug": None, "info": None, "counts": {}}


WITNESS_F2_CANCELS = {  # captured from a real run (C13 thorough sweep, seed 1): the curvature along the only free, unbounded variable
    # (y_0/s_0 = 1.7e-8) is 3e-19 times theta, and theta*d.d - p'Mp cancels to exactly 0.0
    "x": ["0x1.6d35b1de870c8p+2", "0x1.849935eb6e812p-1", "0x1.9bf21ad46bc6bp-5"],
    "g": ["-0x1.21a8c00000000p-27", "0x1.7c6aa08a2ad86p+2", "0x1.843be91698b0fp+7"],
    "lb": ["-0x1.4b49ff4d3a773p-2", "0x1.849935eb6e812p-1", "0x1.9bf21ad46bc6bp-5"],
    "s": ["0x1.61c8dde82f4a7p+2", "0x0.0p+0", "0x0.0p+0"],
    "y": ["0x1.9d0745e974000p-24", "0x1.4dc1591de2a1fp+1", "0x1.6ff34ceb6e100p+7"],
}


def witness_case(out, keys):
    """One stored pair whose curvature along the only free (and unbounded) variable is far below eps*theta: the second derivative of the
    model along the path, theta*d.d - p'Mp, is pure cancellation. Whatever it rounds to, the routine must return a finite feasible point
    that does not increase the model."""
    from collections import deque

    from lbfgsb.bfgsmats import LBFGSB_MATRICES, update_lbfgs_matrices

    W_ = {k: np.array([float.fromhex(v) for v in a]) for k, a in WITNESS_F2_CANCELS.items()}
    n = 3
    rng = np.random.default_rng(7)
    for rep in range(40):
        sc = 1.0 if rep == 0 else float(np.exp(rng.uniform(-3, 3)))  # the same geometry in other units of f (exact for powers of two)
        if rep % 2 == 1:
            sc = float(2.0 ** int(rng.integers(-8, 9)))
        x, g, lb, s_, y_ = W_["x"], W_["g"] * sc, W_["lb"], W_["s"], W_["y"] * sc
        ub = np.full(n, np.inf)
        xa = x - s_
        X, G = deque([xa.copy()]), deque([np.zeros(n)])
        mats = update_lbfgs_matrices(x.copy(), y_.copy(), X, G, 5, LBFGSB_MATRICES(n), False)
        if not has_pairs(mats):
            out.count("witness_pair_rejected")
            continue
        out.count("inputs_whose_path_curvature_is_pure_cancellation")
        try:
            xcp, c = call_gcp(x, g, lb, ub, mats)
        except Exception as e:
            out.violate("gcp_raised", f"witness (curvature along the free variable 3e-19 * theta, units x{sc:g}): get_cauchy_point raised {e!r}", source="witness")
            return
        xcp = np.asarray(xcp, dtype=float)
        if not (np.all(np.isfinite(xcp)) and np.all(np.isfinite(np.asarray(c, dtype=float)))):
            out.violate("gcp_not_finite", f"witness (units x{sc:g}): Cauchy point {xcp.tolist()} / auxiliary vector {np.asarray(c).tolist()}", source="witness")
            return
        if not probes.in_box(xcp, lb, ub):
            out.violate("gcp_infeasible", f"witness (units x{sc:g}): x_cp={xcp.tolist()} outside the box", source="witness")
            return
        if not np.array_equal(xcp[1:], x[1:]):
            out.violate("outward_variable_moved", f"witness (units x{sc:g}): variables resting on their bound with outward gradient moved: {xcp.tolist()}", source="witness")
            return
        B = dense_from_compact(mats, n)
        mv = model_value(B, g, x, xcp)
        if not (mv <= model_tol(B, g, x, xcp, rel=1e-12)):
            out.violate("model_increase", f"witness (units x{sc:g}): m(x_cp)-m(x)={mv:.3e} > 0", source="witness")
            return
    keys.add("witness/f2_cancels")


def call_gcp(x, g, lb, ub, mats):
    """The routine under every tracing configuration a caller may choose (verbosity is not part of the mathematics): silent three
    times out of six, otherwise a logger at DEBUG or INFO level with iprint 99 / 101 / 1000."""
    import logging

    from lbfgsb.cauchy import get_cauchy_point

    if _LOGCFG["debug"] is None:
        _LOGCFG["debug"] = probes.CapturingLogger("verif-c08-debug")
        _LOGCFG["info"] = probes.CapturingLogger("verif-c08-info")
        _LOGCFG["info"].logger.setLevel(logging.INFO)
    k = _LOGCFG["n"] % 6
    _LOGCFG["n"] += 1
    iprint, lg = [(-1, None), (1000, "debug"), (-1, None), (101, "info"), (-1, None), (99, "debug")][k]
    if lg is not None:
        del _LOGCFG[lg].records[:]
        _LOGCFG["counts"][lg] = _LOGCFG["counts"].get(lg, 0) + 1
    # the iteration number is a display argument; the solver passes 0 in the first iteration of a fresh run (empty memory) and the
    # checkpoint's number in the first iteration of a continuation (memory empty or not)
    it = [0, 1, 7][_LOGCFG["n"] % 3] if not has_pairs(mats) else [1, 3, 0][_LOGCFG["n"] % 3]
    # a caller that keeps one pair of bound arrays per dimension and refills them in place for every call (every other call here)
    if _LOGCFG.get("force_bounds") is not None:
        lbb, ubb = _LOGCFG["force_bounds"]  # the caller's own pair of arrays, refilled in place between two calls
        lbb[:] = lb
        ubb[:] = ub
    elif _LOGCFG["n"] % 2 == 0:
        nn = int(x.size)
        if nn not in _LOGCFG.setdefault("bounds", {}):
            _LOGCFG["bounds"][nn] = (np.empty(nn), np.empty(nn))
        lbb, ubb = _LOGCFG["bounds"][nn]
        lbb[:] = lb
        ubb[:] = ub
    else:
        lbb, ubb = lb.copy(), ub.copy()
    xa, ga = x.copy(), g.copy()
    if _LOGCFG["n"] % 4 == 1:
        # inputs the caller has frozen (flags.writeable = False): the routine works on its own arrays
        lbb, ubb = lbb.copy(), ubb.copy()
        for a in (xa, ga, lbb, ubb):
            a.setflags(write=False)
        _LOGCFG["counts"]["readonly"] = _LOGCFG["counts"].get("readonly", 0) + 1
    return get_cauchy_point(xa, ga, lbb, ubb, mats, it, iprint, None if lg is None else _LOGCFG[lg].logger)


def is_nontrivial(x, g, lb, ub, ref):
    return bool(np.any(ref["t"] == 0) and ref["crossed"] > 0)


def one_input(out, x, g, lb, ub, mats, B, where, tags, keys):
    try:
        if _LOGCFG["n"] % 6 in (1, 5):
            out.count("direct_calls_traced_through_a_debug_level_logger")
        elif _LOGCFG["n"] % 6 == 3:
            out.count("direct_calls_traced_through_an_info_level_logger")
        xcp, c = call_gcp(x, g, lb, ub, mats)
    except Exception as e:
        if gen.pg_inf(x, g, lb, ub) > 0:
            out.violate("gcp_raised", f"{where}: get_cauchy_point raised {e!r}; x={x.tolist()} g={g.tolist()} lb={lb.tolist()} ub={ub.tolist()}", **tags)
        return
    if judge_gcp(out, x, g, lb, ub, mats, B, xcp, c, where, tags):
        try:
            ref = ref_gcp(x, g, lb, ub, B)
            if is_nontrivial(x, g, lb, ub, ref):
                from ..common import digest

                keys.add(digest(x, g, lb, ub, B))
        except RuntimeError:
            pass


def run(spec):
    out = Outcome()
    keys = set()
    old = np.seterr(all="ignore")
    try:
        if spec["kind"] == "patterns":
            n = spec["n"]
            rng = np.random.default_rng(spec["seed"])
            allp = list(itertools.product(range(len(VARP)), repeat=n))[spec["offset"]: spec["offset"] + spec["count"]]
            mems = {}
            for npairs in (0, 1, 3):
                mm = make_memory(rng, n, npairs)
                if mm is not None:
                    mems[npairs] = mm
            last = None
            for idxs in allp:
                pats = [VARP[i] for i in idxs]
                for variant in ("random", "tie", "onbreak"):
                    for npairs, (mats, B) in mems.items():
                        x, g, lb, ub = build_pattern_input(rng, pats, "tie" if variant == "tie" else "random")
                        if variant == "onbreak":
                            # scale g so that the unconstrained minimiser of the first segment falls exactly on the first breakpoint
                            r0 = None
                            try:
                                r0 = ref_gcp(x, g, lb, ub, B)
                            except RuntimeError:
                                pass
                            if r0 is not None:
                                tt = r0["t"][(r0["t"] > 0) & np.isfinite(r0["t"])]
                                d = np.where(r0["t"] > 0, -g, 0.0)
                                if tt.size and d @ B @ d > 0:
                                    t1 = tt.min()
                                    dt = float((d @ d) / (d @ B @ d))
                                    # x(t) = x - t g ; rescaling g by a leaves the path but moves t: want dtmin(a) == t1(a)
                                    a = dt / t1
                                    g = g * a if np.isfinite(a) and a > 0 else g
                        out.count("pattern_inputs")
                        one_input(out, x, g, lb, ub, mats, B, f"pattern {pats} variant={variant} pairs={npairs}",
                                  dict(source="pattern", variant=variant), keys)
                        last = dict(pattern=pats, variant=variant, pairs=npairs, x=x, g=g, lb=lb, ub=ub)
                        if out.violations:
                            break
                    if out.violations:
                        break
                if out.violations:
                    break
            out.sample = dict(spec=spec, last_input=last)
        elif spec["kind"] == "random":
            rng = np.random.default_rng(spec["seed"])
            last = None
            for j in range(spec["count"]):
                n = int(rng.integers(1, 11))
                maxcor = int(rng.integers(1, 8))
                if j % 6 == 5:
                    # scale: dimensions and memories larger than the bulk of the inputs
                    n = int(rng.integers(20, 61))
                    maxcor = int(rng.integers(8, 21))
                    out.count("inputs_in_20_to_60_dimensions_with_memory_up_to_20")
                npairs = int(rng.integers(0, maxcor + 1))
                unit = bool(rng.random() < 0.15)
                scale = float(10.0 ** rng.uniform(-9, 9)) if (not unit and rng.random() < 0.3) else 1.0
                mm = make_memory(rng, n, npairs, convex=bool(rng.random() < 0.7), unit_theta=unit, scale=scale)
                if mm is None:
                    out.count("skipped_memory_inconsistent")
                    continue
                mats, B = mm
                if unit and mats.theta == 1.0 and has_pairs(mats):
                    out.count("inputs_with_theta_exactly_one")
                if not has_pairs(mats) and rng.random() < 0.6:
                    # an empty memory whose scaling is not 1 (a model theta*I is a positive-definite limited-memory model like any other)
                    mats.theta = float(gen.pick(rng, [0.25, 0.5, 3.0, 17.5, 1e3]))
                    B = mats.theta * np.eye(n)
                    out.count("inputs_with_empty_memory_and_theta_not_one")
                lb, ub = gen.rand_box(rng, n, gen.pick(rng, ["mixed", "boxed", "narrow", "lower", "upper", "none", "boxed_degenerate"]))
                x = gen.rand_x0(rng, lb, ub, gen.pick(rng, ["interior", "face", "vertex"]))
                g = rng.standard_normal(n) * np.exp(rng.uniform(-2, 3)) * scale
                if scale != 1.0:
                    out.count("rescaled_inputs")
                g[rng.random(n) < 0.15] = 0.0
                g = np.where((g == 0) & (rng.random(n) < 0.5), -0.0, g)  # a zero component is as often -0.0 (e.g. -2*(a - x) at x == a) as +0.0
                if rng.random() < 0.25:
                    # tied breakpoints: several variables reach their bounds at the same t
                    t0 = float(2.0 ** rng.integers(-3, 3)) / scale
                    for i in range(n):
                        if g[i] > 0 and np.isfinite(lb[i]) and x[i] > lb[i] and rng.random() < 0.7:
                            g[i] = (x[i] - lb[i]) / t0
                        elif g[i] < 0 and np.isfinite(ub[i]) and x[i] < ub[i] and rng.random() < 0.7:
                            g[i] = (x[i] - ub[i]) / t0
                out.count("random_inputs")
                if j % 5 == 2:
                    # one pair of bound arrays kept by the caller: first describing an unconstrained problem, then refilled in place with
                    # this input's box
                    _LOGCFG["force_bounds"] = (np.empty(n), np.empty(n))
                    try:
                        xf = rng.standard_normal(n)
                        one_input(out, xf, rng.standard_normal(n) + 0.1, np.full(n, -np.inf), np.full(n, np.inf), mats, B,
                                  f"random n={n} pairs={npairs} (unconstrained, caller's bound arrays)", dict(source="random"), keys)
                        if not out.violations:
                            one_input(out, x, g, lb, ub, mats, B, f"random n={n} pairs={npairs} (caller's bound arrays refilled in place)", dict(source="random"), keys)
                        out.count("inputs_through_bound_arrays_refilled_in_place_after_an_unconstrained_call")
                    finally:
                        _LOGCFG["force_bounds"] = None
                else:
                    one_input(out, x, g, lb, ub, mats, B, f"random n={n} pairs={npairs}", dict(source="random"), keys)
                last = dict(n=n, pairs=npairs, x=x, g=g, lb=lb, ub=ub)
                if out.violations:
                    break
            out.sample = dict(spec=spec, last_input=last)
        elif spec["kind"] == "orth":
            # dyadic data: the initial direction is EXACTLY orthogonal to every stored s and y (W^T d == 0 bit for bit) although the moving
            # variables have non-zero rows in W; a breakpoint is crossed before the minimiser, after which the memory does matter
            from collections import deque

            from lbfgsb.bfgsmats import LBFGSB_MATRICES, update_lbfgs_matrices

            rng = np.random.default_rng(spec["seed"])
            last = None
            for j in range(spec["count"]):
                n = int(rng.integers(3, 8))
                idx = rng.permutation(n)
                npairs = 1 if n < 5 or rng.random() < 0.5 else 2
                x = rng.integers(-8, 9, n) / 4.0
                X, G = deque([x.copy()]), deque([rng.integers(-8, 9, n) / 4.0])
                mats = LBFGSB_MATRICES(n)
                g = rng.integers(1, 9, n) / 4.0 * rng.choice([-1.0, 1.0], n)
                for q in range(npairs):
                    a, b = int(idx[2 * q]), int(idx[2 * q + 1])
                    sv = np.zeros(n)
                    sv[a], sv[b] = 0.5, -0.5
                    c = float(2.0 ** rng.integers(0, 3))
                    xn, gn = X[-1] + sv, G[-1] + c * sv
                    mats = update_lbfgs_matrices(xn.copy(), gn.copy(), X, G, npairs, mats, False)
                    g[b] = g[a]  # equal components: s.g == 0 and y.g == 0 exactly
                x = X[-1].copy()
                S = [X[i + 1] - X[i] for i in range(len(X) - 1)]
                Y = [G[i + 1] - G[i] for i in range(len(G) - 1)]
                if not S or not has_pairs(mats):
                    continue
                theta = float(Y[-1] @ Y[-1]) / float(S[-1] @ Y[-1])
                B = dense_bfgs(S, Y, theta, n)
                if np.any(mats.W.T @ g != 0):
                    out.count("skipped_not_exactly_orthogonal")
                    continue
                lb, ub = np.full(n, -np.inf), np.full(n, np.inf)
                a0 = int(idx[0])
                tb = float(2.0 ** -rng.integers(2, 5)) / theta  # a breakpoint well before the minimiser of the first segment (1/theta)
                if g[a0] > 0:
                    lb[a0] = x[a0] - g[a0] * tb
                else:
                    ub[a0] = x[a0] - g[a0] * tb
                out.count("inputs_with_direction_exactly_orthogonal_to_the_memory")
                one_input(out, x, g, lb, ub, mats, B, f"orth n={n} pairs={npairs}", dict(source="orth"), keys)
                last = dict(n=n, pairs=npairs, x=x, g=g, lb=lb, ub=ub)
                if out.violations:
                    break
            out.sample = dict(spec=spec, last_input=last)
        elif spec["kind"] == "alt":
            # several models built first and used in turn (a caller holding two optimisation states): each Cauchy point belongs to the
            # matrices it is computed with, whatever was computed in between
            rng = np.random.default_rng(spec["seed"])
            last = None
            for j in range(spec["count"]):
                n = int(rng.integers(2, 9))
                npairs = int(rng.integers(1, 5))
                m1, m2 = make_memory(rng, n, npairs, convex=True), make_memory(rng, n, npairs, convex=True)
                if m1 is None or m2 is None:
                    out.count("skipped_memory_inconsistent")
                    continue
                ins = []
                for mats, B in (m1, m2):
                    lb, ub = gen.rand_box(rng, n, gen.pick(rng, ["mixed", "boxed", "lower", "upper", "none"]))
                    xx = gen.rand_x0(rng, lb, ub, gen.pick(rng, ["interior", "face"]))
                    gg = rng.standard_normal(n) * float(np.exp(rng.uniform(-1, 2)))
                    ins.append((xx, gg, lb, ub, mats, B))
                for which in (0, 1, 0, 1):
                    xx, gg, lb, ub, mats, B = ins[which]
                    out.count("inputs_with_models_used_in_turn")
                    one_input(out, xx, gg, lb, ub, mats, B, f"alt n={n} pairs={npairs} model {which}", dict(source="alt"), keys)
                    if out.violations:
                        break
                last = dict(n=n, pairs=npairs)
                if out.violations:
                    break
            out.sample = dict(spec=spec, last_input=last)
        elif spec["kind"] == "graze":
            # the minimiser of the first segment falls within a few ulp of the next breakpoint: the final move x + t*d of the
            # variable that is about to reach its bound lands on, just inside or just beyond the bound
            rng = np.random.default_rng(spec["seed"])
            last = None
            for j in range(spec["count"]):
                n = int(rng.integers(1, 9))
                npairs = int(rng.integers(0, 5))
                mm = make_memory(rng, n, npairs, convex=True)
                if mm is None:
                    out.count("skipped_memory_inconsistent")
                    continue
                mats, B = mm
                x = rng.standard_normal(n) * float(np.exp(rng.uniform(-1, 2)))
                g = rng.standard_normal(n) * float(np.exp(rng.uniform(-1, 2)))
                gBg = float(g @ (B @ g))
                if not (gBg > 0) or not np.all(g != 0):
                    continue
                lb = np.full(n, -np.inf)
                ub = np.full(n, np.inf)
                # breakpoints are added one at a time: the earlier ones well inside the path (they are crossed), the last one at the
                # minimiser of the segment it ends, give or take a few ulp (after crossed breakpoints the path parameter is an
                # accumulated sum, so that x + t*d may overshoot the grazed bound)
                order = rng.permutation(n)[: int(rng.integers(1, min(n, 4) + 1))]
                ok = True
                for q, i in enumerate(order):
                    try:
                        tstar = ref_gcp(x, g, lb, ub, B)["tstar"]
                    except RuntimeError:
                        ok = False
                        break
                    if not (tstar > 0 and np.isfinite(tstar)):
                        ok = False
                        break
                    lastone = q == len(order) - 1
                    if lastone:
                        break
                    bnd = x[i] - g[i] * tstar * float(rng.uniform(0.2, 0.8))
                    if g[i] > 0:
                        lb[i] = bnd
                    else:
                        ub[i] = bnd
                if not ok or not probes.in_box(x, lb, ub):
                    continue
                i = order[-1]
                for k in (-2, -1, 0, 1, 2):
                    lbk, ubk = lb.copy(), ub.copy()
                    bnd = x[i] - g[i] * (tstar * (1.0 + k * EPS))
                    if g[i] > 0:
                        lbk[i] = bnd
                    else:
                        ubk[i] = bnd
                    if not probes.in_box(x, lbk, ubk):
                        continue
                    if len(order) >= 2:
                        out.count("grazing_inputs_after_crossed_breakpoints")
                    out.count("grazing_inputs")
                    one_input(out, x, g, lbk, ubk, mats, B, f"graze n={n} pairs={npairs} k={k}", dict(source="graze"), keys)
                    last = dict(n=n, pairs=npairs, x=x, g=g, lb=lbk, ub=ubk)
                    if out.violations:
                        break
                if out.violations:
                    break
            out.sample = dict(spec=spec, last_input=last)
        elif spec["kind"] == "witness":
            witness_case(out, keys)
            out.sample = dict(spec=spec)
        elif spec["kind"] == "ties":
            # exact ties: dyadic data, so that several variables reach their bounds at exactly the same t
            rng = np.random.default_rng(spec["seed"])
            last = None
            for j in range(spec["count"]):
                n = int(rng.integers(2, 9))
                npairs = int(rng.integers(1, 6))
                mm = make_memory(rng, n, npairs, convex=True)
                if mm is None:
                    out.count("skipped_memory_inconsistent")
                    continue
                mats, B = mm
                t0 = float(2.0 ** rng.integers(-3, 2))
                x = rng.integers(-16, 17, n) / 8.0
                g = rng.integers(1, 33, n) / 16.0 * rng.choice([-1.0, 1.0], n)
                lb = np.full(n, -np.inf)
                ub = np.full(n, np.inf)
                tied = rng.random(n) < 0.7
                for i in range(n):
                    tt = t0 if tied[i] else t0 * float(2.0 ** rng.integers(1, 4))
                    if rng.random() < 0.15:
                        continue  # unbounded in its direction of motion
                    if g[i] > 0:
                        lb[i] = x[i] - tt * g[i]
                    else:
                        ub[i] = x[i] - tt * g[i]
                out.count("tie_inputs")
                one_input(out, x, g, lb, ub, mats, B, f"ties n={n} pairs={npairs} t0={t0}", dict(source="ties"), keys)
                last = dict(n=n, pairs=npairs, t0=t0, x=x, g=g, lb=lb, ub=ub)
                if out.violations:
                    break
            out.sample = dict(spec=spec, last_input=last)
        else:
            import lbfgsb.main as M

            P = gen.make_problem(spec["problem"])

            def on_event(ev):
                a = ev["args"]
                if a is None:
                    out.count("probe_args_unavailable")
                    return
                out.count("intercepted_calls")
                mats = a["mats"]
                B = dense_from_compact(mats, P.n)
                xcp, c = ev["ret"]
                n0 = len(out.violations)
                if judge_gcp(out, a["x"], a["grad"], a["lb"], a["ub"], mats, B, xcp, c,
                             f"run {spec['problem']['family']} call #{ic.calls['get_cauchy_point']}", dict(source="run")):
                    try:
                        ref = ref_gcp(a["x"], a["grad"], a["lb"], a["ub"], B)
                        if is_nontrivial(a["x"], a["grad"], a["lb"], a["ub"], ref):
                            from ..common import digest

                            keys.add(digest(a["x"], a["grad"], B))
                    except RuntimeError:
                        pass
                if not np.array_equal(ev["live"]["x"], a["x"]) or not np.array_equal(ev["live"]["grad"], a["grad"]):
                    out.violate("gcp_mutated_its_inputs", "get_cauchy_point modified x or grad in place", source="run")
                del n0

            cfg = dict(jac="callable", maxcor=spec["maxcor"], maxiter=spec["maxiter"], ftol=0.0, gtol=1e-10, maxfun=3000, eps_SY=spec.get("eps_SY", 2.2e-16))
            if int(P.spec["seed"]) % 4 == 2:
                cfg["max_steplength"] = float([0.1, 0.5, 1.0, 0.05][int(P.spec["seed"]) // 4 % 4])  # the user's cap on the line-search step (no business of the Cauchy search)
                out.count("runs_with_a_user_step_cap")
            if int(P.spec["seed"]) % 3 == 1:
                cfg.update(logger=True, iprint=[101, 1000, 99][int(P.spec["seed"]) % 9 // 3])  # traced through the user's (DEBUG-level) logger
                out.count("runs_traced_through_a_debug_level_logger")
            with probes.Intercept(M, ["get_cauchy_point"]) as ic:
                ic.on_event = on_event
                if spec.get("switch") and spec["switch"].get("on_restart"):
                    # the objective changes between two runs: checkpoint of the first, update function rewriting the restored gradients
                    # at its initial call of the second (matrices force-rebuilt on a fresh object, possibly with the newest pair rejected)
                    from . import C13

                    sw = dict(spec, **spec["switch"])
                    sw["stop_at"] = sw["switch_at"]
                    C13.run_switch_on_restart(sw, Outcome())
                    tr = probes.Trace()
                    out.count("runs_with_objective_redefined")
                    out.count("runs_with_objective_redefined_between_checkpoint_and_restart")
                elif spec.get("switch"):
                    from . import C13

                    tr = C13.switch_trace(dict(spec, **spec["switch"]))
                    out.count("runs_with_objective_redefined")
                else:
                    tr = probes.run_min(P, cfg)
            for ev in ic.events:
                if "exc" in ev:
                    out.violate("gcp_raised", f"run: get_cauchy_point raised {ev['exc']!r}", source="run")
            out.count("runs")
            out.sample = dict(spec=spec, calls=ic.calls.get("get_cauchy_point", 0),
                              message=None if tr.result is None else tr.result.message)
    finally:
        np.seterr(**old)
    out.nontrivial = len(keys) > 0
    out.keys = keys
    out.count("nontrivial_inputs", len(keys))
    return out


def selftest():
    res = []
    rng = np.random.default_rng(11)
    mats, B = make_memory(rng, 3, 2)
    x = np.array([0.0, 0.5, 0.5])
    lb = np.array([0.0, 0.0, 0.0])
    ub = np.array([1.0, 1.0, 1.0])
    g = np.array([1.0, 2.0, -0.5])  # var0 on lb, outward
    ref = ref_gcp(x, g, lb, ub, B)
    good = ref["xcp"]
    c = mats.W.T @ (good - x)
    o = Outcome()
    judge_gcp(o, x, g, lb, ub, mats, B, good, c, "selftest", {})
    res.append(("silent on the reference point", not o.violations))
    o = Outcome()
    bad = good.copy()
    bad[1] = np.nextafter(lb[1], -1.0)
    judge_gcp(o, x, g, lb, ub, mats, B, bad, c, "selftest", {})
    res.append(("flags a point one ulp outside the box", any(v["mech"] == "gcp_infeasible" for v in o.violations)))
    o = Outcome()
    bad = x - 0.5 * ref["tstar"] * np.where(ref["t"] > 0, g, 0)
    bad = np.clip(bad, lb, ub)
    judge_gcp(o, x, g, lb, ub, mats, B, bad, mats.W.T @ (bad - x), "selftest", {})
    res.append(("flags a point that is not the first minimiser", any(v["mech"] in ("gcp_differs_from_reference", "not_pinned_on_reached_bound") for v in o.violations)))
    o = Outcome()
    judge_gcp(o, x, g, lb, ub, mats, B, good, c + 1e-3, "selftest", {})
    res.append(("flags a wrong auxiliary vector", any(v["mech"] == "aux_vector_not_Wt_step" for v in o.violations)))
    return res
