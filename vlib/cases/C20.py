"""C20 - failures of user callables surface unchanged and leave nothing behind.

Fault enumeration: for a clean baseline run the number of calls of each user callable is
counted; then one run per (callable kind, call index) is made in which exactly that call
raises a prepared exception object.
"""

from __future__ import annotations

import numpy as np

from .. import fresh, gen, probes
from ..common import Outcome, subseed

LEVEL = "fault_enumeration"
RULE = ("one case = one small problem (qp / rosenbrock / styblinski_tang / rastrigin, boxes, n 2..4, maxiter<=5) in gradient mode callable / "
        "None / 2-point with all seven user callables present (objective, gradient, callback, update function, gradient scaler, callable "
        "ftarget, callable gtol), followed by a restart from the returned result with two more iterations. Every call index of every callable, in the first run and in the restarted run, is one injection point; the injected exception type rotates over a "
        "10-type alphabet (+ StopIteration, judged under its own mechanism). Oracle: the exception reaching the caller *is* the injected "
        "object, no result is returned, and a clean re-run afterwards has the digest computed in a fresh interpreter. Non-trivial = injection "
        "at call index >= 2 (inside the iteration, not at set-up); distinct = distinct (problem, kind, index)")
ASSUMPTIONS = [
    "fault alphabet: private Exception subclass, TypeError, IndexError, ValueError, AssertionError, ZeroDivisionError, FloatingPointError, LinAlgError, KeyError, RuntimeError (+ StopIteration)",
    "fresh-interpreter baseline computed once per problem by python -m vlib.fresh",
]
FAMS = ("qp", "rosenbrock", "styblinski_tang", "rastrigin")
KINDS = ("f", "g", "cb", "ufd", "scaler", "ftarget", "gtol")


class HarnessFault(Exception):
    pass


def alphabet():
    return [HarnessFault, TypeError, IndexError, ValueError, AssertionError, ZeroDivisionError, FloatingPointError,
            np.linalg.LinAlgError, KeyError, RuntimeError, StopIteration]


def floors(tier):
    return {"injections": 1500, "injections_inside_iteration": 800, "clean_reruns_compared": 1500, "problems": 40, "problems_whose_step_arrays_are_shared_by_all_calls": 5, "problems_in_32_or_more_dimensions": 5, "problems_with_a_variable_fixed_by_equal_bounds": 5, "problems_with_verbose_logging": 10,
            "injections_in_restarted_runs": 200, "kind:f": 300, "kind:g": 100, "kind:cb": 50, "kind:ufd": 50, "kind:scaler": 20, "kind:ftarget": 20, "kind:gtol": 20,
            "__nontrivial__": 800}


def exhaustive(tier):
    return {"all": False, "subspaces": ["every call index of every user callable of every explored run (one injection each)"]}


def cases(tier, seed):
    rng = np.random.default_rng(subseed("C20", seed))
    nprob = 64 if tier == "quick" else 2000
    for i in range(nprob):
        ps = gen.rand_spec(rng, FAMS, nmax=4, nmin=2, boxes=("none", "mixed", "boxed", "boxed_degenerate"), starts=("interior", "face"))
        yield {"problem": ps, "mode": gen.pick(rng, ["callable", "callable", None, "2-point"]), "maxcor": int(rng.integers(1, 5)),
               "maxiter": int(rng.integers(2, 6)), "rot": int(rng.integers(0, 11)),
               "iprint": int(gen.pick(rng, [0, 1, 99, 100, 101])) if i % 3 == 1 else None, "maxls": int(gen.pick(rng, [2, 3, 5, 5])), "fd_arrays": bool(i % 2 == 0)}
    for i in range(8 if tier == "quick" else 200):
        # scale: 32 to 48 variables (finite-difference sweeps of that many stencil points), memory above 10; one call index in `stride`
        # of the objective is injected, every call of the other callables
        ps = gen.rand_spec(rng, FAMS, nmax=48, nmin=32, boxes=("none", "mixed", "boxed", "boxed_degenerate"), starts=("interior", "face"))
        yield {"problem": ps, "mode": gen.pick(rng, [None, "2-point", "callable"]), "maxcor": int(rng.integers(11, 21)), "maxiter": int(rng.integers(2, 5)),
               "rot": int(rng.integers(0, 11)), "iprint": None, "maxls": int(gen.pick(rng, [2, 3, 5])), "fd_arrays": False, "stride": 9, "maxfun": int(gen.pick(rng, [150, 400, 10000]))}


def make_cfg(spec):
    cfg = dict(jac=spec["mode"], maxcor=spec["maxcor"], maxiter=spec["maxiter"], maxls=int(spec.get("maxls", 5)), ftol=0.0, gtol=1e-10, gtol_callable=True,
               ftarget=-1e300, ftarget_callable=True, cb="never", ufd="identity", scaler=2.0, maxfun=int(spec.get("maxfun", 10000)))
    if spec.get("fd_arrays") and spec["mode"] != "callable":
        cfg.update(fd_steps_as_strided_arrays=True, eps=1e-7, finite_diff_rel_step=1e-6 if spec["mode"] is not None else None)
    if spec.get("iprint") is not None:
        # verbose tracing through a user-supplied logger: the code paths that format diagnostics run while the fault travels
        cfg.update(logger=True, iprint=spec["iprint"])
    if int(spec["problem"]["seed"]) % 3 == 1:
        cfg["reuse_value_buffer"] = True  # the objective hands its value back in a one-element array (accepted like a float)
    return cfg


def inject_hooks(kind, index, exc):
    def at(i, *a):
        if i == index:
            raise exc

    return {{"f": "on_f", "g": "on_g", "cb": "on_cb", "ufd": "on_ufd", "scaler": "on_scaler", "ftarget": "on_ftarget", "gtol": "on_gtol"}[kind]: at}


def judge_injection(out, tr, exc, kind, index, where, tags):
    if tr.result is not None:
        out.violate("fault_swallowed", f"{where}: {type(exc).__name__} raised by {kind} call #{index} was swallowed: the run returned "
                    f"{tr.result.message!r}", **tags)
        return
    if tr.exc is None:
        out.violate("fault_vanished", f"{where}: neither result nor exception", **tags)
        return
    if tr.exc is not exc:
        out.violate("fault_converted", f"{where}: {type(exc).__name__}({exc}) raised by {kind} call #{index} reached the caller as "
                    f"{type(tr.exc).__name__}({tr.exc})", **tags)


def run(spec):
    out = Outcome()
    P = gen.make_problem(spec["problem"])
    cfg = make_cfg(spec)
    name = f"{P.spec['family']} n={P.n} mode={spec['mode']}"
    # fresh-interpreter baseline
    want = fresh.fresh_digests([{"problem": spec["problem"], "cfg": cfg}])[0]
    base = probes.run_min(P, cfg)
    out.count("problems")
    if spec.get("iprint") is not None:
        out.count("problems_with_verbose_logging")
    if base.exc is not None or want.startswith("raised"):
        out.count("baseline_raised")
        out.sample = dict(spec=spec, raised=repr(base.exc))
        return out
    have = fresh.digest_state(base.snap)
    if have != want:
        out.violate("baseline_differs_from_fresh_process", f"{name}: in-process fault-free run differs from the fresh-interpreter run", kind="baseline", exc="none")
        return out
    counts = {"f": base.nf, "g": base.ng, "cb": len(base.cb), "ufd": len(base.ufd), "scaler": len(base.scaler_calls),
              "ftarget": base.ftarget_calls, "gtol": base.gtol_calls}
    shared = {}
    if spec.get("fd_arrays") and spec["mode"] != "callable" and int(P.spec["seed"]) % 2 == 0:
        # the user keeps ONE pair of step arrays (contiguous float64) and hands the same objects to every call of the study: the
        # injected run and the fault-free call that follows share them (same values as the baseline's)
        shared["fd_step_objects"] = {"eps": np.full(P.n, float(cfg.get("eps") or 1e-8)),
                                     "rel": np.full(P.n, float(cfg["finite_diff_rel_step"])) if cfg.get("finite_diff_rel_step") is not None else None}
        out.count("problems_whose_step_arrays_are_shared_by_all_calls")
    types = alphabet()
    keys = set()
    pos = spec["rot"]
    stride = int(spec.get("stride", 1))
    if P.n >= 32:
        out.count("problems_in_32_or_more_dimensions")
    if np.any(P.lb == P.ub):
        out.count("problems_with_a_variable_fixed_by_equal_bounds")
    for kind in KINDS:
        for index in range(0, counts[kind], stride if kind == "f" else 1):
            etype = types[pos % len(types)]
            pos += 1
            exc = etype(f"injected into {kind} call #{index}")
            tags = dict(kind=kind, exc=etype.__name__, mode=str(spec["mode"]), fd=spec["mode"] != "callable")
            tr = probes.run_min(P, cfg, hooks=dict(inject_hooks(kind, index, exc), **shared), catch=(Exception,))
            out.count("injections")
            out.count("kind:" + kind)
            out.count("exc:" + etype.__name__)
            judge_injection(out, tr, exc, kind, index, f"{name} maxiter={spec['maxiter']}", tags)
            if index >= 2 or kind in ("cb",):
                out.count("injections_inside_iteration")
                keys.add(f"{P.spec['family']}/{P.spec['seed']}/{spec['mode']}/{kind}/{index}")
            # nothing left behind: identical fault-free call equals the fresh-process result
            if kind in ("f", "g") and index in (0, 2):
                # ... made from another thread (a worker pool whose task failed and is retried by another worker)
                import threading

                box = {}
                th = threading.Thread(target=lambda: box.setdefault("tr", probes.run_min(P, cfg, hooks=dict(shared))), daemon=True)
                th.start()
                th.join(60.0)
                out.count("clean_reruns_made_from_another_thread")
                if th.is_alive() or "tr" not in box:
                    out.violate("state_left_behind", f"{name}: after {etype.__name__} in {kind} call #{index} an identical fault-free call made from another thread "
                                f"has not returned after 60 s (something the failed call holds is never released)", **tags)
                    break
                again = box["tr"]
            else:
                again = probes.run_min(P, cfg, hooks=dict(shared))
            out.count("clean_reruns_compared")
            if again.exc is not None or fresh.digest_state(again.snap) != want:
                out.violate("state_left_behind", f"{name}: after {etype.__name__} in {kind} call #{index} an identical fault-free call "
                            f"{'raised ' + repr(again.exc) if again.exc is not None else 'returns a different result than in a fresh process'}", **tags)
            if len(out.violations) >= 4:
                break
        if len(out.violations) >= 4:
            break
    # phase 2: the same enumeration on a restart from the returned result (history restoration, early-return path)
    if len(out.violations) < 4 and base.result is not None:
        ck = base.result
        rcfg = dict(cfg, maxiter=int(ck.nit) + 2)
        rwant = fresh.fresh_digests([{"problem": spec["problem"], "cfg": cfg, "restart": {"maxiter": int(ck.nit) + 2}}])[0]

        same_obj = int(P.spec["seed"]) % 2 == 1  # the usual idiom x0=res.x, checkpoint=res: the start array *is* the checkpoint's
        if same_obj:
            rcfg["x0_same_object"] = True
            out.count("restarts_started_from_the_checkpoints_own_array")

        def restart(hooks=None):
            return probes.run_min(P, rcfg, hooks=hooks, checkpoint=ck, x0=ck.x if same_obj else np.array(ck.x, dtype=float, copy=True))

        rb = restart()
        if rb.exc is None and not rwant.startswith("raised") and fresh.digest_state(rb.snap) == rwant:
            rcounts = {"f": rb.nf, "g": rb.ng, "cb": len(rb.cb), "ufd": len(rb.ufd), "scaler": len(rb.scaler_calls),
                       "ftarget": rb.ftarget_calls, "gtol": rb.gtol_calls}
            for kind in KINDS:
                for index in range(0, rcounts[kind], stride if kind == "f" else 1):
                    etype = types[pos % len(types)]
                    pos += 1
                    exc = etype(f"injected into {kind} call #{index} of the restarted run")
                    tags = dict(kind=kind, exc=etype.__name__, mode=str(spec["mode"]), fd=spec["mode"] != "callable", restart=True)
                    tr = restart(inject_hooks(kind, index, exc))
                    out.count("injections")
                    out.count("injections_in_restarted_runs")
                    out.count("kind:" + kind)
                    judge_injection(out, tr, exc, kind, index, f"{name} restart from nit={ck.nit}", tags)
                    again = restart()
                    out.count("clean_reruns_compared")
                    if again.exc is not None or fresh.digest_state(again.snap) != rwant:
                        out.violate("state_left_behind", f"{name}: after {etype.__name__} in {kind} call #{index} of a restarted run an identical "
                                    f"fault-free restart differs from the fresh-process result", **tags)
                    keys.add(f"{P.spec['family']}/{P.spec['seed']}/{spec['mode']}/restart/{kind}/{index}")
                    if len(out.violations) >= 4:
                        break
                if len(out.violations) >= 4:
                    break
        elif rb.exc is None and not rwant.startswith("raised"):
            out.violate("baseline_differs_from_fresh_process", f"{name}: in-process fault-free restart differs from the fresh-interpreter restart", kind="baseline", exc="none")
    if spec["mode"] != "callable" and counts["f"] > 1 and len(out.violations) < 4:
        # dedicated probe: StopIteration raised on a finite-difference stencil point (objective call #1)
        exc = StopIteration("injected into f call #1 (stencil)")
        tr = probes.run_min(P, cfg, hooks=inject_hooks("f", 1, exc))
        out.count("injections")
        out.count("stopiteration_stencil_probes")
        judge_injection(out, tr, exc, "f", 1, f"{name} maxiter={spec['maxiter']}", dict(kind="f", exc="StopIteration", mode=str(spec["mode"]), fd=True))
    out.keys = keys
    out.nontrivial = bool(keys)
    out.sample = dict(spec=spec, calls=counts)
    return out


def selftest():
    from scipy.optimize import OptimizeResult

    res = []
    e = ValueError("x")
    tr = probes.Trace()
    tr.exc = e
    o = Outcome()
    judge_injection(o, tr, e, "f", 3, "selftest", {})
    res.append(("silent when the injected object surfaces", not o.violations))
    tr.exc = ValueError("x")
    o = Outcome()
    judge_injection(o, tr, e, "f", 3, "selftest", {})
    res.append(("flags a converted exception (equal but not identical)", any(v["mech"] == "fault_converted" for v in o.violations)))
    tr.exc = None
    tr.result = OptimizeResult(message="ok")
    o = Outcome()
    judge_injection(o, tr, e, "f", 3, "selftest", {})
    res.append(("flags a swallowed exception", any(v["mech"] == "fault_swallowed" for v in o.violations)))
    return res
