"""C10 - the limited-memory matrix is the BFGS matrix of the stored pairs and stays SPD.

Two event sources: (i) histories of candidate updates driven directly through
``update_lbfgs_matrices``; (ii) every update intercepted inside real runs, plus the
matrix object actually handed to the Cauchy/subspace routines (with the live X/G deques
read from the caller frame).
"""

from __future__ import annotations

import copy

import numpy as np

from .. import gen, probes
from ..common import Outcome, subseed
from ..oracles import EPS, ShadowMemory, dense_bfgs, dense_from_compact, schur_cond

LEVEL = "exploration"
RULE = ("direct: seeded histories of up to 40 candidate (x,g) updates (convex / indefinite / zero-step / negative-curvature "
        "/ borderline candidates), n 1..12, maxcor 1..10, judged after every candidate against a shadow FIFO memory and a dense "
        "BFGS recursion; runs: every update_lbfgs_matrices call intercepted inside real minimisations and every matrix handed "
        "to the Cauchy routine; filter: direct calls of the curvature filter on rewritten histories (newest point kept, order-preserving selection, every retained pair with curvature). Non-trivial = history (or run) with >=1 rejected candidate and >=1 eviction; distinct = distinct case seeds")
ASSUMPTIONS = [
    "comparison tolerance 1e3*(cond(B)+cond(middle matrix))*eps relative (Frobenius), calibrated: largest observed ratio "
    "err/((cond(B)+cond(M^-1))*eps) is 5.6 on 7000 updates; updates with cond(B) > 1e10 or cond(M^-1) > 1e12 are skipped and counted",
    "curvature decisions within 1e-10*|s||y| of the threshold are skipped as degenerate and counted",
    "the solver's matrix is obtained from its own middle-matrix product applied to the identity (dense_from_compact)",
]
TOLF = 1e3
KMAX = 1e10
KMID_MAX = 1e12


def floors(tier):
    return {"updates_judged": 3000, "accepted": 1500, "rejected": 200, "evictions": 300, "dense_compared": 1500,
            "used_matrices_checked": 300, "restarted_runs": 20, "restarted_runs_with_smaller_memory": 10, "restored_histories_checked": 20, "runs_with_reused_gradient_buffer": 40, "runs_with_a_callback_overwriting_the_state_it_is_handed": 30, "runs_ended_by_their_evaluation_budget": 30, "runs_with_objective_redefined": 60, "filter_calls_judged": 1000, "filter_calls_dropping_points": 300, "pairs_of_histories_advanced_in_turn": 60, "matrices_re-read_before_their_next_update": 3000, "__nontrivial__": 30}


# ---------------------------------------------------------------------------
# the oracle for one update
# ---------------------------------------------------------------------------
def mats_fields(m):
    return {k: copy.deepcopy(getattr(m, k)) for k in ("S", "Y", "D", "L", "W", "invMfactors", "theta")}


def fields_equal(a, b):
    for k in a:
        va, vb = a[k], b[k]
        if isinstance(va, tuple):
            if len(va) != len(vb) or not all(np.array_equal(p, q) for p, q in zip(va, vb)):
                return k
        elif isinstance(va, np.ndarray):
            if va.shape != vb.shape or not np.array_equal(va, vb):
                return k
        elif va != vb:
            return k
    return None


def has_pairs_like(mats):
    from ..oracles import has_pairs

    return has_pairs(mats)


def compare_dense(out, mats, X, G, n, where, tags, eps=None):
    """dense(compact) vs dense BFGS of the pairs in the deques; SPD; secant."""
    S = [X[i + 1] - X[i] for i in range(len(X) - 1)]
    Y = [G[i + 1] - G[i] for i in range(len(G) - 1)]
    if eps is not None:
        for j, (sv, yv) in enumerate(zip(S, Y)):
            sy, yy = float(sv @ yv), float(yv @ yv)
            if abs(sy - eps * yy) <= 1e-10 * float(np.linalg.norm(sv) * np.linalg.norm(yv)):
                continue  # within rounding of the threshold
            if not (sy > eps * yy):
                out.violate("stored_pair_fails_curvature_condition", f"{where}: stored pair {j} has s.y={sy!r} <= eps*y.y={eps * yy!r} (eps={eps:g})", **tags)
                return
    if not S:
        Bc = dense_from_compact(mats, n)
        if not (mats.theta > 0 and np.array_equal(Bc, mats.theta * np.eye(n))):
            out.violate("empty_memory_not_scaled_identity", f"{where}: no pair stored but B is not theta*I (theta={mats.theta})", **tags)
        out.count("empty_memory_checked")
        return
    for j, (s, y) in enumerate(zip(S, Y)):
        if not (s @ y > 0):
            out.violate("stored_pair_without_curvature", f"{where}: stored pair {j} has s.y={s @ y!r}", **tags)
            return
    theta = float(Y[-1] @ Y[-1]) / float(S[-1] @ Y[-1])
    Bd = dense_bfgs(S, Y, theta, n)
    kappa = float(np.linalg.cond(Bd))
    if not np.isfinite(kappa) or kappa > KMAX:
        out.count("skipped_ill_conditioned")
        return
    # conditioning of the inverse middle matrix [[-D, L^T], [L, theta S^T S]] (rebuilt here from the pairs):
    # it governs the rounding error of theta*I - W M W^T, in particular when more pairs than variables are stored
    Sm, Ym = np.array(S).T, np.array(Y).T
    SY = Sm.T @ Ym
    Minv = np.block([[-np.diag(np.diag(SY)), np.tril(SY, -1).T], [np.tril(SY, -1), theta * (Sm.T @ Sm)]])
    kmid = max(float(np.linalg.cond(Minv)), schur_cond(Sm.T, Ym.T, theta))  # incl. the matrix the algorithm factorises
    if not np.isfinite(kmid) or kmid > KMID_MAX:
        out.count("skipped_ill_conditioned")
        return
    kappa_all = kappa + kmid
    Bc = dense_from_compact(mats, n)
    nb = float(np.linalg.norm(Bd))
    tol = TOLF * kappa_all * EPS
    if len(S) > n:
        # more pairs than variables: the matrix the algorithm factorises is singular in exact arithmetic (rank <= n) and invertible by
        # rounding only; its computed condition number underestimates the amplification (thorough sweep, seed 1: 4 pairs in 2 variables,
        # computed condition 3e9, error 6 times the bound). Judged with a bound 100 times wider: gross errors still show
        tol *= 100.0
        out.count("dense_compared_with_more_pairs_than_variables")
    err = float(np.linalg.norm(Bc - Bd)) / nb
    out.count("dense_compared")
    out.maxi("max_err_over_kappa_eps", err / (kappa_all * EPS))
    if not (abs(mats.theta - theta) <= 64 * EPS * abs(theta)):
        out.violate("theta_not_yy_over_sy", f"{where}: theta={mats.theta!r}, newest pair gives y.y/s.y={theta!r}", **tags)
        return
    if not (err <= tol):
        out.violate("compact_differs_from_dense_bfgs", f"{where}: ||B_compact-B_dense||/||B_dense||={err:.3e} > {tol:.3e} (cond {kappa:.2e}, {len(S)} pairs)", **tags)
        return
    asym = float(np.linalg.norm(Bc - Bc.T)) / nb
    if not (asym <= tol):
        out.violate("not_symmetric", f"{where}: asymmetry {asym:.3e}", **tags)
        return
    # positive definite up to the reconstruction accuracy: the smallest eigenvalue of the dense reference is
    # ||B||/cond; the solver's matrix may differ from it by tol*||B||, so only a deficit beyond that is a finding
    lam_min = float(np.linalg.eigvalsh((Bc + Bc.T) / 2)[0])
    out.count("spd_checked")
    if not (lam_min > -tol * nb) or (tol * kappa < 0.1 and not lam_min > 0):
        out.violate("not_positive_definite", f"{where}: smallest eigenvalue of the solver's matrix {lam_min:.3e} (||B||={nb:.3e}, cond of reference {kappa:.2e}, tol {tol:.2e})", **tags)
        return
    sec = float(np.linalg.norm(Bc @ S[-1] - Y[-1])) / max(float(np.linalg.norm(Y[-1])), 1e-300)
    out.maxi("max_secant_over_kappa_eps", sec / (kappa_all * EPS))
    if not (sec <= 10 * tol):
        out.violate("secant_equation", f"{where}: ||B s - y||/||y|| = {sec:.3e} > {tol:.3e}", **tags)


def judge_update(out, pre_X, pre_G, pre_fields, xk, gk, maxcor, eps, post_X, post_G, post_mats, where, tags, forced=False):
    n = xk.size
    sh = ShadowMemory(pre_X[0], pre_G[0], maxcor, eps)
    sh.X = [np.array(v, copy=True) for v in pre_X]
    sh.G = [np.array(v, copy=True) for v in pre_G]
    before = len(sh.X)
    accepted, degenerate = sh.offer(xk, gk)
    if degenerate:
        out.count("skipped_degenerate_curvature")
        return None
    out.count("updates_judged")
    post_X = [np.asarray(v) for v in post_X]
    post_G = [np.asarray(v) for v in post_G]
    same_mem = (len(post_X) == len(sh.X) and len(post_G) == len(sh.G)
                and all(np.array_equal(a, b) for a, b in zip(post_X, sh.X))
                and all(np.array_equal(a, b) for a, b in zip(post_G, sh.G)))
    if len(post_X) > maxcor + 1 or len(post_G) > maxcor + 1:
        out.violate("memory_exceeds_maxcor", f"{where}: {len(post_X) - 1} pairs stored with maxcor={maxcor}", **tags)
        return accepted
    if not accepted:
        out.count("rejected")
        if not same_mem:
            out.violate("rejected_pair_changed_memory", f"{where}: candidate fails s.y > eps*y.y but the history changed "
                        f"(len {before}->{len(post_X)})", **tags)
            return accepted
        if not forced:
            k = fields_equal(pre_fields, mats_fields(post_mats))
            if k is not None:
                out.violate("rejected_pair_changed_matrix", f"{where}: rejected candidate modified mats.{k}", **tags)
        return accepted
    out.count("accepted")
    if before == maxcor + 1:
        out.count("evictions")
    if not same_mem and len(post_X) == 1 and np.array_equal(post_X[0], sh.X[-1]) and np.array_equal(post_G[0], sh.G[-1]) and not has_pairs_like(post_mats):
        # the memory was refreshed (newest point kept, scaled identity): what the solver does, like Algorithm 778, when the matrix
        # theta*S'S + L D^-1 L' it has to factorise is not numerically positive definite (repository fix dc83f52). Legitimate only then.
        S_, Y_ = sh.pairs()
        th_ = float(Y_[-1] @ Y_[-1]) / float(S_[-1] @ Y_[-1])
        if schur_cond(np.array(S_), np.array(Y_), th_) > 1e12 or len(S_) > n:
            out.count("memory_refreshed_on_numerically_singular_memory")
            return None
        out.violate("memory_refreshed_without_cause", f"{where}: the memory was emptied although the matrix to factorise is well conditioned", **tags)
        return accepted
    if not same_mem:
        if len(post_X) == len(sh.X):
            what = "stored history differs from (previous history + candidate, oldest evicted)"
        else:
            what = f"history length {len(post_X)} != expected {len(sh.X)}"
        out.violate("memory_not_fifo_of_accepted", f"{where}: {what}", **tags)
        return accepted
    m = len(post_X) - 1
    if post_mats.S.shape != (n, m) or post_mats.Y.shape != (n, m):
        out.violate("matrix_shapes", f"{where}: S{post_mats.S.shape} Y{post_mats.Y.shape} for n={n}, m={m}", **tags)
        return accepted
    compare_dense(out, post_mats, post_X, post_G, n, where, tags)
    return accepted


# ---------------------------------------------------------------------------
# candidates
# ---------------------------------------------------------------------------
def candidate_stream(rng, n, length, f32=False):
    """Yields (x, g) with a mix of curvature situations. f32: the gradients are handed over in single precision (a user's gradient code
    working in float32), with candidates whose step and gradient difference are orthogonal to one part in 1e6..1e8."""
    if f32:
        for xx, gg in _candidate_stream(rng, n, length, True):
            yield xx, gg.astype(np.float32)
        return
    yield from _candidate_stream(rng, n, length, False)


def _candidate_stream(rng, n, length, f32):
    A = gen.rand_spd(rng, n, float(np.exp(rng.uniform(0, np.log(1e4)))))
    Q, _ = np.linalg.qr(rng.standard_normal((n, n)))
    ev = rng.standard_normal(n) * 3
    Aind = (Q * ev) @ Q.T
    Aind = (Aind + Aind.T) / 2
    b = rng.standard_normal(n)
    x = rng.standard_normal(n)
    mode_w = rng.dirichlet(np.ones(5))
    if rng.random() < 0.3:
        # objective in other units (weights of 1e12, variables in micro-units, ...): the matrix scales with it, nothing else changes
        sc = float(10.0 ** rng.uniform(-13, 13))
        A, Aind, b = A * sc, Aind * sc, b * sc

    def grad(x, which):
        return (A if which == 0 else Aind) @ x - b

    which = 0
    far = bool(rng.random() < 0.2) and not f32
    if far:
        # iterates far from the origin relative to the steps between them (|x| ~ 1e6..1e9, |s| ~ 1e-3): the step is known exactly
        # (differences of nearby doubles are exact) although x.y and x_old.y are huge
        x = x * float(10.0 ** rng.uniform(6, 9))
    g = grad(x, which)
    yield x.copy(), g.copy()
    for _ in range(length):
        r = rng.random()
        cum = np.cumsum(mode_w)
        if (far or f32) and rng.random() < 0.6:
            # a candidate whose step and gradient difference are orthogonal to one part in 1e5..1e7 (on either side of zero)
            sstep = rng.standard_normal(n) * 1e-3
            x_new = x + sstep
            sstep = x_new - x  # the step as the doubles define it
            y = rng.standard_normal(n) * float(np.linalg.norm(g) / np.sqrt(n) + 1.0)
            ss = float(sstep @ sstep)
            if ss > 0:
                y = y - float(y @ sstep) / ss * sstep
                y = y + float(rng.choice([-1.0, 1.0])) * float(10.0 ** (rng.uniform(-8.5, -6.5) if f32 else rng.uniform(-7, -5))) * float(np.linalg.norm(y)) / np.sqrt(ss) * sstep
            x = x_new
            g = g + y
            yield x.copy(), g.copy()
            continue
        if r < cum[0]:  # convex step
            x = x + rng.standard_normal(n) * np.exp(rng.uniform(-3, 1))
            g = grad(x, 0)
        elif r < cum[1]:  # indefinite Hessian: may or may not have curvature
            x = x + rng.standard_normal(n) * np.exp(rng.uniform(-3, 1))
            g = grad(x, 1)
        elif r < cum[2]:  # zero step: the same point again, with the same gradient or (noisy / redefined objective) another one
            g = g.copy()
            k = rng.random()
            if k < 0.4:
                g = g + rng.standard_normal(n) * float(np.linalg.norm(g) / np.sqrt(n) + 1e-300) * 0.1
            elif k < 0.55:
                # the objective is not differentiable / not defined here: a gradient with inf or nan components is offered once
                bad = g.copy()
                bad[int(rng.integers(0, n))] = float(gen.pick(rng, [np.nan, np.inf, -np.inf]))
                yield x.copy(), bad
                continue
        elif r < cum[3]:  # exact negative curvature
            s = rng.standard_normal(n)
            x = x + s
            g = g - np.abs(rng.normal()) * s + 0.01 * rng.standard_normal(n)
        else:  # tiny curvature relative to y.y (still far from the eps threshold)
            s = rng.standard_normal(n) * 1e-3
            y = rng.standard_normal(n) * float(np.linalg.norm(g) / np.sqrt(n) + 1e-300)
            y = y - (y @ s) / (s @ s) * s + float(np.exp(rng.uniform(-8, -2))) * s / (s @ s)
            x = x + s
            g = g + y
        yield x.copy(), g.copy()


RUN_FAMILIES = ("rosenbrock", "beale", "rastrigin", "styblinski_tang", "oscillating", "qp", "qp_quartic", "badly_scaled", "ackley")


def cases(tier, seed):
    nd = 640 if tier == "quick" else 12000
    nr = 400 if tier == "quick" else 6000
    for i in range(nd):
        yield {"kind": "direct", "seed": subseed("C10d", seed, i) % (2**31)}
    nf = 200 if tier == "quick" else 6000
    for i in range(nf):
        yield {"kind": "filter", "seed": subseed("C10f", seed, i) % (2**31), "count": 30}
    rng = np.random.default_rng(subseed("C10r", seed))
    for i in range(nr):
        ps = gen.rand_spec(rng, RUN_FAMILIES, nmax=10)
        if i % 9 == 8:
            ps["n"] = int(rng.integers(25, 61))  # scale: dimensions and memories larger than the bulk of the cases
        yield {"kind": "run", "problem": ps, "maxcor": int(rng.integers(1, 8)) if i % 9 != 8 else int(rng.integers(11, 26)), "maxls": int(gen.pick(rng, [2, 3, 5, 20])),
               "maxiter": int(rng.integers(8, 40)), "restart_after": int(rng.integers(2, 9)) if i % 3 == 0 else 0,
               "restart_maxcor_drop": int(rng.integers(0, 4)), "reuse_grad_buffer": bool(i % 4 == 1),
               "eps_SY": float(gen.pick(rng, [2.2e-16, 2.2e-16, 1e-3, 1e-2, 0.1]))}
    for i in range(nr // 2):
        ps = gen.rand_spec(rng, ("qp", "qp_quartic"), nmax=8, nmin=2, boxes=("mixed", "boxed", "lower", "none"), starts=("interior", "face", "vertex"), condmax=1e3)
        yield {"kind": "run", "problem": ps, "maxcor": int(rng.integers(1, 7)), "maxiter": int(rng.integers(6, 16)), "maxls": 20,
               "switch": {"switch_at": int(rng.integers(1, 7)), "variant": gen.pick(rng, ["reg", "indefinite", "indefinite"]),
                          "vseed": int(rng.integers(0, 2**31 - 1)), "strength": float(rng.uniform(0.3, 3.0)),
                          "eps_SY": float(gen.pick(rng, [2.2e-16, 1e-2, 0.05, 0.1])),
                          "rewrite": gen.pick(rng, ["new_deque", "same_deque", "same_arrays"])}}


def factorised_matrix_cond(pre_X, pre_G, xk, gk, maxcor, eps):
    sh = ShadowMemory(pre_X[0], pre_G[0], maxcor, eps)
    sh.X = [np.array(v, copy=True) for v in pre_X]
    sh.G = [np.array(v, copy=True) for v in pre_G]
    sh.offer(xk, gk)
    S, Y = sh.pairs()
    if not S:
        return 1.0
    theta = float(Y[-1] @ Y[-1]) / float(S[-1] @ Y[-1])
    return schur_cond(np.array(S), np.array(Y), theta)


def run_direct(spec, out):
    from collections import deque

    from lbfgsb.bfgsmats import LBFGSB_MATRICES, update_lbfgs_matrices

    rng = np.random.default_rng(spec["seed"])
    n = int(rng.integers(1, 13))
    maxcor = int(rng.integers(1, 11))
    if spec["seed"] % 7 == 3:
        # scale: dimensions and memories larger than the bulk of the streams
        n = int(rng.integers(20, 61))
        maxcor = int(rng.integers(11, 26))
        out.count("streams_in_20_to_60_dimensions_with_memory_up_to_25")
    length = int(rng.integers(5, 41))
    eps = float(gen.pick(rng, [2.2e-16, 2.2e-16, 1e-8, 1e-3]))
    # one history, or (one stream in four) two independent histories of the same dimension and memory size advanced in turn, as two
    # optimisations alive at the same time do (a run nested in the objective of another, interleaved runs)
    nstreams = 2 if spec["seed"] % 4 == 1 else 1
    if nstreams == 2:
        out.count("pairs_of_histories_advanced_in_turn")
    st = []
    for q in range(nstreams):
        stream = candidate_stream(rng, n, length, f32=bool(spec["seed"] % 5 == 2))
        if q == 0 and spec["seed"] % 5 == 2:
            out.count("streams_with_single_precision_gradients")
        x0, g0 = next(stream)
        st.append(dict(stream=stream, X=deque([x0.copy()]), G=deque([g0.copy()]), mats=LBFGSB_MATRICES(n), done=False))
    nrej = nev = 0
    k = -1
    while not all(h["done"] for h in st) and not out.violations:
        k += 1
        for q, h in enumerate(st):
            if h["done"]:
                continue
            try:
                xk, gk = next(h["stream"])
            except StopIteration:
                h["done"] = True
                continue
            X, G, mats = h["X"], h["G"], h["mats"]
            pre_X = [v.copy() for v in X]
            pre_G = [v.copy() for v in G]
            pre_fields = mats_fields(mats)
            if h.get("post_fields") is not None:
                # between two updates of this history nothing of its matrix may have moved (whatever else was updated meanwhile)
                out.count("matrices_re-read_before_their_next_update")
                ch = fields_equal(h["post_fields"], pre_fields)
                if ch is not None:
                    out.violate("matrix_changed_between_updates", f"direct n={n} maxcor={maxcor} candidate {k}: field {ch} of the limited-memory matrix of this "
                                f"history changed between two of its updates" + (" (another history of the same size was updated in between)" if nstreams == 2 else ""),
                                source="direct")
                    break
            try:
                ret = update_lbfgs_matrices(xk.copy(), gk.copy(), X, G, maxcor, mats, False, eps)
            except Exception as e:
                h["done"] = True
                if isinstance(e, np.linalg.LinAlgError) and factorised_matrix_cond(pre_X, pre_G, xk, gk, maxcor, eps) > 1e12:
                    # theta*S^T S + L D^-1 L^T is positive definite in exact arithmetic but its condition number exceeds what a
                    # double precision Cholesky factorisation can certify: outside the numerical premise of the statement
                    out.count("update_raised_on_numerically_singular_memory")
                    continue
                if len(pre_X) > n:
                    # more pairs than variables after this candidate: theta*S^T S + L D^-1 L^T is singular in exact arithmetic,
                    # its Cholesky factorisation succeeds or fails on rounding noise (outside the statement's SPD premise)
                    out.count("update_raised_with_more_pairs_than_variables")
                    continue
                out.violate("update_raised", f"direct n={n} maxcor={maxcor} candidate {k}: update_lbfgs_matrices raised {e!r}", source="direct")
                break
            c0 = (out.counters.get("rejected", 0), out.counters.get("evictions", 0))
            judge_update(out, pre_X, pre_G, pre_fields, xk, gk, maxcor, eps, list(X), list(G), ret,
                         f"direct n={n} maxcor={maxcor} candidate {k}" + (f" (history {q} of two advanced in turn)" if nstreams == 2 else ""), dict(source="direct"))
            nrej += out.counters.get("rejected", 0) - c0[0]
            nev += out.counters.get("evictions", 0) - c0[1]
            h["mats"] = ret
            h["post_fields"] = mats_fields(ret)
            if out.violations:
                break
            if nstreams == 2:
                # what the OTHER history's matrix describes must not have moved: its fields are compared again before its next update
                pass
    out.nontrivial = nrej > 0 and nev > 0
    out.key = f"direct/{spec['seed']}"
    out.sample = dict(spec=spec, n=n, maxcor=maxcor, candidates=length, eps=eps, rejected=nrej, evictions=nev)


def run_real(spec, out):
    import lbfgsb.main as M

    P = gen.make_problem(spec["problem"])
    state = {"last_ret": None, "reset_expected": False, "nrej": 0, "nev": 0}

    def on_event(ev):
        if ev["name"] == "update_lbfgs_matrices":
            a = ev["args"]
            if a is None:
                out.count("probe_args_unavailable")
                return
            live = ev["live"]
            if state.get("post_history") is not None and not a.get("is_force_update") and not spec.get("switch"):
                # between two updates the stored history belongs to the solver alone: what this update finds is what the previous one left
                # (unless a failed line search reset it to its last point)
                pX, pG = state["post_history"]
                cX, cG = list(a["X"]), list(a["G"])
                out.count("histories_re-read_at_the_next_update")
                same = len(cX) == len(pX) and all(np.array_equal(u, v, equal_nan=True) for u, v in zip(cX, pX)) and all(np.array_equal(u, v, equal_nan=True) for u, v in zip(cG, pG))
                reset = len(cX) == 1 and len(pX) >= 1 and np.array_equal(cX[0], pX[-1], equal_nan=True) and np.array_equal(cG[0], pG[-1], equal_nan=True)
                if not (same or reset) and not out.violations:
                    out.violate("history_changed_between_updates", f"run {spec['problem']['family']} update #{ic.calls['update_lbfgs_matrices']}: the stored points / gradients "
                                f"this update starts from are not the ones the previous update left ({len(pX)} -> {len(cX)} points)", source="run")
            pre_fields = mats_fields(a["mats"])
            c0 = (out.counters.get("rejected", 0), out.counters.get("evictions", 0))
            judge_update(out, list(a["X"]), list(a["G"]), pre_fields, a["xk"], a["gk"], a["maxcor"], a["eps"],
                         list(live["X"]), list(live["G"]), ev["ret_live"],
                         f"run {spec['problem']['family']} update #{ic.calls['update_lbfgs_matrices']}",
                         dict(source="run"), forced=bool(a.get("is_force_update")))
            state["nrej"] += out.counters.get("rejected", 0) - c0[0]
            state["nev"] += out.counters.get("evictions", 0) - c0[1]
            state["last_ret"] = ev["ret_live"]
            state["post_history"] = ([np.array(v, copy=True) for v in live["X"]], [np.array(v, copy=True) for v in live["G"]])
        elif ev["name"] == "get_cauchy_point":
            fr = ev.get("frame") or {}
            if ev.get("frame_fn") != "minimize_lbfgsb" or "X" not in fr or "G" not in fr:
                out.count("frame_probe_unavailable")
                return
            mats = ev["live"]["mats"]
            Xl, Gl = list(fr["X"]), list(fr["G"])
            exp = state.pop("expect_history", None)
            if exp is not None:
                # first Cauchy search of a restarted run: the history in use must be the checkpoint's most recent pairs, ending at its x
                keep = min(exp["maxcor"], exp["sk"].shape[0])
                want = exp["sk"][exp["sk"].shape[0] - keep:]
                got = np.array([Xl[i + 1] - Xl[i] for i in range(len(Xl) - 1)]).reshape(len(Xl) - 1, P.n)
                out.count("restored_histories_checked")
                tol = 64 * EPS * exp["scale"]
                if got.shape != want.shape or not np.array_equal(Xl[-1], exp["x"]) or (want.size and not np.max(np.abs(got - want)) <= tol):
                    out.violate("restored_history_not_most_recent_pairs", f"restart with maxcor={exp['maxcor']} from a checkpoint holding {exp['sk'].shape[0]} pairs: the history "
                                f"in use at the first iteration has {got.shape[0]} pairs which are not the checkpoint's most recent ones (max dev "
                                f"{(float(np.max(np.abs(got - want))) if got.shape == want.shape and want.size else float('nan')):.3e}, tolerance {tol:.1e})", source="restart")
                    return
            out.count("used_matrices_checked")
            compare_dense(out, mats, Xl, Gl, P.n, f"matrix handed to get_cauchy_point (call #{ic.calls['get_cauchy_point']})",
                          dict(source="used"), eps=float(spec.get("eps_SY", 2.2e-16)))

    cfg = dict(jac="callable", maxcor=spec["maxcor"], maxls=spec["maxls"], maxiter=spec["maxiter"], ftol=0.0, gtol=1e-9, maxfun=2000,
               eps_SY=spec.get("eps_SY", 2.2e-16))
    if spec.get("reuse_grad_buffer"):
        cfg["reuse_grad_buffer"] = True  # the user's gradient fills and returns one preallocated array
        out.count("runs_with_reused_gradient_buffer")
    if int(P.spec["seed"]) % 4 == 3 and not spec.get("switch"):
        cfg.update(hostile_user=True, cb="never")  # a callback (and functions) overwriting every array they are handed, state.x and state.jac included
        out.count("runs_with_a_callback_overwriting_the_state_it_is_handed")
    if int(P.spec["seed"]) % 5 == 2 and not spec.get("switch"):
        cfg["maxfun"] = int([6, 10, 17, 30][int(P.spec["seed"]) // 5 % 4])  # an evaluation budget that ends the run (the last update of such a run is an update like any other)
        out.count("runs_ended_by_their_evaluation_budget")
    with probes.Intercept(M, ["update_lbfgs_matrices", "get_cauchy_point"], frame_vars=("X", "G"), on_event=None) as ic:
        # on_event needs ic in scope: attach after construction
        ic.on_event = on_event
        if spec.get("switch"):
            # the objective is redefined on the fly: the stored gradients are rewritten (new deque, same deque, or same arrays) and filtered
            from . import C13

            out.count("runs_with_objective_redefined")
            tr = C13.switch_trace(dict(spec, **spec["switch"]))
        elif spec.get("restart_after"):
            # the same monitors keep watching while the run is continued from a checkpoint (restored history)
            first = probes.run_min(P, dict(cfg, maxiter=spec["restart_after"]))
            if first.exc is None and first.result.nit == spec["restart_after"]:
                out.count("restarted_runs")
                ck = first.result
                m_ck = ck.hess_inv.sk.shape[0]
                cfg2 = dict(cfg)
                if spec.get("restart_maxcor_drop") and m_ck >= 2:
                    cfg2["maxcor"] = max(1, m_ck - int(spec["restart_maxcor_drop"]))  # a smaller memory than the checkpoint holds
                    out.count("restarted_runs_with_smaller_memory")
                state["post_history"] = None  # (a new call: its history is the one restored from the checkpoint)
                state["expect_history"] = dict(sk=np.array(ck.hess_inv.sk, copy=True), x=np.array(ck.x, copy=True), maxcor=cfg2["maxcor"],
                                               scale=float(np.max(np.abs(ck.x)) + np.max(np.abs(np.cumsum(ck.hess_inv.sk[::-1], axis=0))) if m_ck else 1.0))
                tr = probes.run_min(P, cfg2, checkpoint=ck, x0=np.array(ck.x, dtype=float, copy=True))
            else:
                tr = first
        else:
            tr = probes.run_min(P, cfg)
    if ic.missing:
        out.count("probe_names_missing", len(ic.missing))
    for ev in ic.events:
        if ev["name"] == "update_lbfgs_matrices" and "exc" in ev:
            a = ev.get("args") or {}
            try:
                numerically_singular = isinstance(ev["exc"], np.linalg.LinAlgError) and factorised_matrix_cond(
                    list(a["X"]), list(a["G"]), a["xk"], a["gk"], a["maxcor"], a["eps"]) > 1e12
            except Exception:
                numerically_singular = False
            if numerically_singular:
                # curvatures spanning more decades than a double precision Cholesky factorisation can certify: the solver refreshes its
                # memory (repository fix dc83f52, as Algorithm 778 does); outside the numerical premise of the statement
                out.count("update_raised_on_numerically_singular_memory")
                continue
            out.violate("update_raised", f"run {spec['problem']['family']}: update_lbfgs_matrices raised {ev['exc']!r}", source="run")
    if tr.exc is not None:
        out.count("runs_raised")
    out.count("runs")
    out.nontrivial = state["nrej"] > 0 and state["nev"] > 0
    out.key = f"run/{spec['problem']['family']}/{spec['problem']['seed']}"
    out.sample = dict(spec=spec, updates=ic.calls.get("update_lbfgs_matrices", 0), rejected=state["nrej"], evictions=state["nev"],
                      message=None if tr.result is None else tr.result.message)


def judge_filter(out, X, G, Xf, Gf, eps, where, tags):
    """make_X_and_G_respect_strong_wolfe on a (rewritten) history: the newest point stays, the result is an order-preserving
    sub-history, every consecutive retained pair has s.y > eps*y.y, and no retained-able... (which points survive is otherwise free)."""
    out.count("filter_calls_judged")
    Xf, Gf = list(Xf), list(Gf)
    if len(Xf) != len(Gf) or len(Xf) < 1:
        out.violate("filter_output_shape", f"{where}: {len(Xf)} points / {len(Gf)} gradients", **tags)
        return
    if not (np.array_equal(Xf[-1], X[-1]) and np.array_equal(Gf[-1], G[-1])):
        out.violate("filter_dropped_newest_point", f"{where}: the newest stored point is not retained", **tags)
        return
    # order-preserving subsequence of the input (matched on both x and g)
    pos = -1
    for a, b in zip(Xf, Gf):
        nxt = None
        for k in range(pos + 1, len(X)):
            if np.array_equal(X[k], a) and np.array_equal(G[k], b):
                nxt = k
                break
        if nxt is None:
            out.violate("filter_output_not_a_subhistory", f"{where}: the filtered history is not an order-preserving selection of the stored points", **tags)
            return
        pos = nxt
    for k in range(len(Xf) - 1):
        sv, yv = Xf[k + 1] - Xf[k], Gf[k + 1] - Gf[k]
        sy, yy = float(sv @ yv), float(yv @ yv)
        if abs(sy - eps * yy) <= 1e-10 * float(np.linalg.norm(sv) * np.linalg.norm(yv)):
            out.count("skipped_degenerate_curvature")
            continue
        if not (sy > eps * yy):
            out.violate("filter_keeps_pair_without_curvature", f"{where}: retained pair {k} has s.y={sy!r} <= eps*y.y={eps * yy!r}", **tags)
            return
    if len(Xf) < len(X):
        out.count("filter_calls_dropping_points")


def run_filter(spec, out):
    from collections import deque

    from lbfgsb.bfgsmats import make_X_and_G_respect_strong_wolfe

    rng = np.random.default_rng(spec["seed"])
    ndrop = 0
    for j in range(spec["count"]):
        n = int(rng.integers(1, 9))
        m = int(rng.integers(1, 11))
        long_history = bool(j % 3 == 2)
        if long_history:
            # scale: histories of 12 to 45 pairs in 20 to 50 dimensions, of which the new objective invalidates only a few
            n = int(rng.integers(20, 51))
            m = int(rng.integers(12, 46))
            out.count("filter_calls_on_histories_of_12_to_45_pairs")
        A = gen.rand_spd(rng, n, float(np.exp(rng.uniform(0, np.log(1e3)))))
        X = [rng.standard_normal(n)]
        for _ in range(m):
            X.append(X[-1] + rng.standard_normal(n) * np.exp(rng.uniform(-2, 0.5)))
        # gradients of a new objective for which part of the history has lost its curvature
        Q, _ = np.linalg.qr(rng.standard_normal((n, n)))
        ev = rng.standard_normal(n) * float(np.exp(rng.uniform(-1, 2)))
        if long_history:
            ev[int(rng.integers(1, 4)):] = 0.0  # negative curvature in one to three directions only: most pairs keep theirs
            ev[: 3] = -np.abs(ev[: 3]) * float(np.exp(rng.uniform(0, 2)))
        Aind = A + (Q * ev) @ Q.T * float(rng.uniform(0.3, 3.0))
        Aind = (Aind + Aind.T) / 2
        G = [Aind @ x for x in X]
        eps = float(gen.pick(rng, [2.2e-16, 2.2e-16, 1e-3, 1e-1]))
        Xd, Gd = deque(v.copy() for v in X), deque(v.copy() for v in G)
        try:
            Xf, Gf = make_X_and_G_respect_strong_wolfe(Xd, Gd, eps)
        except Exception as e:
            out.violate("filter_raised", f"filter n={n} m={m}: {e!r}", source="filter")
            return
        c0 = out.counters.get("filter_calls_dropping_points", 0)
        judge_filter(out, X, G, Xf, Gf, eps, f"filter n={n} points={m + 1} eps={eps:g}", dict(source="filter"))
        ndrop += out.counters.get("filter_calls_dropping_points", 0) - c0
        if not (len(Xd) == len(X) and all(np.array_equal(a, b) for a, b in zip(Xd, X))):
            out.violate("filter_modified_its_input", f"filter n={n}: the input deques were modified", source="filter")
        if out.violations:
            return
    out.nontrivial = ndrop > 0
    out.key = f"filter/{spec['seed']}"
    out.sample = dict(spec=spec, calls=spec["count"], dropping=ndrop)


def run(spec):
    out = Outcome()
    old = np.seterr(all="ignore")
    try:
        if spec["kind"] == "filter":
            run_filter(spec, out)
        elif spec["kind"] == "direct":
            run_direct(spec, out)
        else:
            run_real(spec, out)
    finally:
        np.seterr(**old)
    return out


def selftest():
    from collections import deque

    from lbfgsb.bfgsmats import LBFGSB_MATRICES, update_lbfgs_matrices

    res = []
    rng = np.random.default_rng(5)
    n, maxcor = 4, 2
    A = gen.rand_spd(rng, n, 50.0)
    xs = [rng.standard_normal(n) for _ in range(5)]
    gs = [A @ x for x in xs]
    X, G = deque([xs[0]]), deque([gs[0]])
    mats = LBFGSB_MATRICES(n)
    for k in range(1, 4):
        mats = update_lbfgs_matrices(xs[k].copy(), gs[k].copy(), X, G, maxcor, mats, False)
    # swapped correction pair in the stored history
    o = Outcome()
    Xb, Gb = [v.copy() for v in X], [v.copy() for v in G]
    Xb[0], Xb[1] = Xb[1], Xb[0]
    Gb[0], Gb[1] = Gb[1], Gb[0]
    compare_dense(o, mats, Xb, Gb, n, "selftest", {})
    res.append(("flags a matrix that is not the BFGS matrix of the stored pairs", bool(o.violations)))
    # memory with the newest instead of the oldest evicted
    o = Outcome()
    pre_X, pre_G = [v.copy() for v in X], [v.copy() for v in G]
    post_X = pre_X[:-1] + [xs[4]]
    post_G = pre_G[:-1] + [gs[4]]
    judge_update(o, pre_X, pre_G, mats_fields(mats), xs[4], gs[4], maxcor, 2.2e-16, post_X, post_G, mats, "selftest", {})
    res.append(("flags wrong eviction", any(v["mech"] == "memory_not_fifo_of_accepted" for v in o.violations)))
    o = Outcome()
    compare_dense(o, mats, list(X), list(G), n, "selftest", {})
    res.append(("silent on a correct matrix", not o.violations))
    return res
