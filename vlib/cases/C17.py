"""C17 - a gradient scaler is equivalent to minimising the explicitly scaled objective."""

from __future__ import annotations

import numpy as np

from .. import gen, probes
from ..common import Outcome, subseed
from ..e2e import MESSAGES

LEVEL = "exploration"
RULE = ("one case = a pair of runs on the same problem: A with gradient_scaler returning s, B without scaler on the objective s*f with "
        "gradient s*grad f (s log-uniform in [1e-3,1e3], or the value of the packaged projected-gradient unit scaler); all families, n 1..8, "
        "boxes, small and large maxls, callable gradient (finite differences of s*f are not bitwise s times finite differences of f); plus a third run A' with ftarget between the start and the "
        "optimum. Oracle: the two evaluation logs (kind and point) and all numeric fields of every callback state and of the result are "
        "bit-identical; the scaler is invoked once with (clipped x0, unscaled gradient, bounds); a TARGET stop implies fun/s <= ftarget and "
        "every earlier state had fun/s > ftarget. Non-trivial = pair with >=3 iterations and s outside [0.5,2]; distinct = distinct specs")
ASSUMPTIONS = ["harness closures pure; s*f and s*grad f are formed as float multiplications of the unscaled values (same operation the wrapper performs)"]
CMP = ("x", "fun", "jac", "nfev", "njev", "nit", "message", "status", "success", "sk", "yk")


def floors(tier):
    return {"pairs_compared": 300, "evaluation_points_compared": 5000, "callback_states_compared": 1500, "scaler_argument_checks": 300,
            "target_runs": 100, "pairs_stopped_by_their_callback_between_the_scaled_and_the_unscaled_target": 40, "target_runs_with_the_target_a_few_ulp_below_a_visited_value": 100, "target_stops": 30, "packaged_scaler_pairs": 20, "finite_difference_pairs": 40,
            "pairs_with_identity_update_function": 40, "pairs_with_a_factor_within_1e-5_of_one": 30, "pairs_with_an_update_function_switching_on_a_ridge_term": 40, "pairs_with_reused_gradient_buffer": 40, "pairs_from_a_start_beyond_unit_step_resolution": 20, "pairs_with_infinite_trial_values": 8, "__nontrivial__": 100}


def cases(tier, seed):
    rng = np.random.default_rng(subseed("C17", seed))
    npair = 700 if tier == "quick" else 20000
    for i in range(npair):
        ps = gen.rand_spec(rng, gen.ALL_FAMILIES, nmax=8)
        cfg = {
            "jac": "callable",  # the statement compares with "the objective s*f with gradient s*grad f": an explicit gradient
            "maxcor": int(rng.integers(1, 11)),
            "maxls": int(gen.pick(rng, [2, 3, 5, 20, 20])),
            "maxiter": int(gen.pick(rng, [3, 6, 12, 30])),
            "maxfun": int(gen.pick(rng, [6, 9, 13, 20, 100, 15000])),
            "ftol": float(gen.pick(rng, [0.0, 1e-12, 1e-6])),
            "gtol": float(gen.pick(rng, [1e-9, 1e-5, 1e-5, 1e2])),
            "cb": "never",
        }
        if i % 13 == 12:
            # scale: dimensions and memories larger than the bulk of the cases
            ps["n"] = int(rng.integers(25, 61))
            cfg["maxcor"] = int(rng.integers(11, 31))
        s = "packaged" if rng.random() < 0.2 else float(np.exp(rng.uniform(np.log(1e-3), np.log(1e3))))
        if i % 4 == 3:
            # finite-difference gradients: with s a power of two the scaling commutes with the differencing bit for bit
            cfg["jac"] = gen.pick(rng, [None, "2-point", "3-point"])
            s = float(2.0 ** int(rng.integers(-9, 10)))
        if i % 10 == 4:
            # a start beyond the resolution of a unit step: the first trial point rounds back onto x0
            ps = gen.rand_spec(rng, ("qp", "sphere", "quartic", "qp_softplus"), nmax=6, boxes=("none", "lower", "upper"), starts=("interior",))
            ps["start_scale"] = float(gen.pick(rng, [1e17, 1e18, 1e20]))
            cfg["jac"] = "callable"
            s = float(np.exp(rng.uniform(np.log(1.5), np.log(1e3))))
        elif i % 10 == 7:
            # an objective that is +inf outside its domain (x > 0), reached by trial points
            ps = gen.rand_spec(rng, ("log_barrier", "qp_inf_region", "qp_inf_region"), nmax=6, boxes=("none", "none", "upper"), starts=("interior",))
            cfg["jac"] = "callable"
            s = float(np.exp(rng.uniform(np.log(1e-3), np.log(0.3))))
        elif i % 10 == 9 and cfg["jac"] == "callable":
            # a very large or very small factor (1e6 .. 1e15 either way), or exactly 1.0 (a scaler that scales nothing)
            s = float(gen.pick(rng, [1.0, float(10.0 ** rng.uniform(6, 15)), float(10.0 ** -rng.uniform(6, 15))]))
        elif i % 10 == 1 and cfg["jac"] == "callable":
            # a factor that differs from 1 in the 6th to 13th digit only: it is a factor like any other
            s = float(1.0 + float(rng.choice([-1.0, 1.0])) * 10.0 ** rng.uniform(-13, -5.5))
        if cfg["jac"] == "callable" and i % 5 == 2:
            cfg["reuse_grad_buffer"] = True  # the user's gradient fills and returns one preallocated array (in both runs of the pair)
        yield {"problem": ps, "cfg": cfg, "s": s, "target_frac": float(rng.uniform(0.1, 0.9)), "ufd_identity": bool(i % 5 == 0), "target_ulps": int(rng.integers(1, 4)),
               "ufd_ridge": float(np.exp(rng.uniform(np.log(0.05), np.log(5.0)))) if i % 5 == 2 else None}


def compare_runs(out, A, B, where, tags):
    """A: with scaler; B: explicitly scaled objective."""
    if (A.exc is None) != (B.exc is None):
        out.violate("one_run_raised", f"{where}: scaler run {'raised ' + repr(A.exc) if A.exc else 'returned'}, scaled-objective run "
                    f"{'raised ' + repr(B.exc) if B.exc else 'returned'}", **tags)
        return False
    if A.exc is not None:
        out.count("both_raised")
        return False
    n = min(len(A.evals), len(B.evals))
    for i in range(n):
        out.count("evaluation_points_compared")
        if A.evals[i][0] != B.evals[i][0] or not np.array_equal(A.evals[i][1], B.evals[i][1]):
            out.violate("visited_points_differ", f"{where}: evaluation #{i} differs: scaler run {A.evals[i][0]}@{np.real(A.evals[i][1]).tolist()} vs "
                        f"scaled objective {B.evals[i][0]}@{np.real(B.evals[i][1]).tolist()}", **tags)
            return False
    if len(A.evals) != len(B.evals):
        out.violate("visited_points_differ", f"{where}: {len(A.evals)} vs {len(B.evals)} evaluations", **tags)
        return False
    if len(A.cb) != len(B.cb):
        out.violate("callback_count_differs", f"{where}: {len(A.cb)} vs {len(B.cb)} callbacks", **tags)
        return False
    for i, (ra, rb) in enumerate(zip(A.cb, B.cb)):
        out.count("callback_states_compared")
        bad = probes.diff_states(ra["snap"], rb["snap"], fields=CMP)
        if bad:
            out.violate("state_differs", f"{where}: callback state #{i}: fields {bad} differ "
                        f"({ {k: (probes.human_short(ra['snap'][k]), probes.human_short(rb['snap'][k])) for k in bad[:2]} })", **tags)
            return False
    bad = probes.diff_states(A.snap, B.snap, fields=CMP)
    if bad:
        out.violate("result_differs", f"{where}: result fields {bad} differ "
                    f"({ {k: (probes.human_short(A.snap[k]), probes.human_short(B.snap[k])) for k in bad[:2]} })", **tags)
        return False
    return True


def check_scaler_args(out, P, A, where, tags):
    out.count("scaler_argument_checks")
    if len(A.scaler_calls) != 1:
        out.violate("scaler_call_count", f"{where}: gradient scaler invoked {len(A.scaler_calls)} times", **tags)
        return
    x, g, lb, ub = A.scaler_calls[0]
    x0c = np.clip(P.x0, P.lb, P.ub)
    if not (np.array_equal(x, x0c) and np.array_equal(lb, P.lb) and np.array_equal(ub, P.ub)):
        out.violate("scaler_arguments", f"{where}: scaler received x={x.tolist()} lb={lb.tolist()} ub={ub.tolist()}, expected the clipped start and the bounds", **tags)
        return
    if A.cfg_mode == "callable":
        gexp = P.g(x0c.copy())
        if not np.array_equal(g, gexp):
            out.violate("scaler_arguments", f"{where}: scaler received gradient {g.tolist()}, the unscaled gradient at x0 is {gexp.tolist()}", **tags)


def check_target(out, A, s, T, where, tags):
    """target stop tested on the unscaled value."""
    if A.exc is not None:
        return
    out.count("target_runs")
    states = [r["snap"] for r in A.cb]
    if A.snap["message"] == MESSAGES["TARGET"]:
        out.count("target_stops")
        if not (A.snap["fun"] / s <= T):
            out.violate("target_tested_on_scaled_value", f"{where}: TARGET stop with fun/s = {A.snap['fun'] / s!r} > ftarget = {T!r} (s={s!r})", **tags)
            return
        for i, st in enumerate(states):
            if st["fun"] / s <= T and not np.array_equal(st["x"], A.snap["x"]):
                out.violate("target_missed_earlier", f"{where}: callback state #{i} already had fun/s = {st['fun'] / s!r} <= ftarget = {T!r} but the run continued", **tags)
                return
    else:
        if np.isfinite(A.snap["fun"]) and A.snap["fun"] / s <= T and A.snap["nit"] > 0:
            # the final point meets the target although another reason is reported; only a finding when the target
            # was the first criterion met (iteration/evaluation limits and projected gradient may legitimately win)
            out.count("target_met_but_other_reason")


class Ridged:
    """Problem-like view whose objective gains the term lam/2 |x|^2 once .on is set (a regularisation switched on by the update function
    at its first call)."""

    def __init__(self, P, lam):
        self.P, self.lam, self.on = P, float(lam), False
        self.n, self.lb, self.ub, self.x0, self.bounds, self.spec, self.meta = P.n, P.lb, P.ub, P.x0, P.bounds, P.spec, P.meta

    def f(self, x):
        return self.P.f(x) + (0.5 * self.lam * float(x @ x) if self.on else 0.0)

    def g(self, x):
        return self.P.g(x) + (self.lam * x if self.on else 0.0)


def ridge_update(R, s):
    """The user's update function, written for the units the solver works in (everything it is handed is s times the user's values)."""
    from collections import deque

    def ufd(x, f0, f0_old, grad, X, G):
        if R.on:
            return f0, f0_old, grad, G
        R.on = True
        lam = R.lam * s
        xo = np.asarray(X[-1], dtype=float) if len(X) else np.asarray(x, dtype=float)
        Gn = deque(np.asarray(gi, dtype=float) + lam * np.asarray(xi, dtype=float) for xi, gi in zip(X, G))
        return f0 + 0.5 * lam * float(x @ x), f0_old + 0.5 * lam * float(xo @ xo), np.asarray(grad, dtype=float) + lam * np.asarray(x, dtype=float), Gn

    return ufd


def run(spec):
    out = Outcome()
    P = gen.make_problem(spec["problem"])
    cfg = dict(spec["cfg"])
    tags = dict(family=P.spec["family"], mode=str(cfg["jac"]))
    name = f"{P.spec['family']} n={P.n} mode={cfg['jac']} maxls={cfg['maxls']}"
    if spec["s"] == "packaged":
        from lbfgsb import get_gradient_projection_unit_scaling as pk

        old = np.seterr(all="ignore")
        x0c = np.clip(P.x0, P.lb, P.ub)
        if cfg["jac"] == "callable":
            s = float(pk(x0c, P.g(x0c.copy()), P.lb, P.ub))
        else:
            s = None
        np.seterr(**old)
        if s is None or not np.isfinite(s) or s <= 0:
            out.skipped = "packaged_scaler_not_applicable"
            return out
        out.count("packaged_scaler_pairs")
        scaler_cfg = "packaged"
        # "projected-gradient unit scaling": the scaled projected gradient has unit max-norm
        pg0 = gen.pg_inf(x0c, P.g(x0c.copy()), P.lb, P.ub)
        if not abs(s * pg0 - 1.0) <= 1e-12:
            out.violate("packaged_scaler_not_unit", f"{name}: packaged scaler returned {s!r} but the projected gradient at x0 has max-norm {pg0!r} (product {s * pg0!r})", **tags)
    else:
        s = float(spec["s"])
        scaler_cfg = s
    old = np.seterr(all="ignore")
    f0 = P.f(np.clip(P.x0, P.lb, P.ub))
    np.seterr(**old)
    if not np.isfinite(f0):
        out.skipped = "nonfinite_start_value"
        return out
    if spec["s"] != "packaged" and 0 < abs(float(spec["s"]) - 1.0) < 1e-5:
        out.count("pairs_with_a_factor_within_1e-5_of_one")
    if spec.get("ufd_identity"):
        cfg["ufd"] = "identity"  # an update function that returns its inputs must not change any of this
        out.count("pairs_with_identity_update_function")
    if cfg["jac"] != "callable":
        out.count("finite_difference_pairs")
    if P.spec.get("start_scale"):
        out.count("pairs_from_a_start_beyond_unit_step_resolution")
    if P.spec["family"] in ("log_barrier", "qp_inf_region"):
        out.count("pairs_on_domain_restricted_objective")
    if spec.get("ufd_ridge") and cfg["jac"] == "callable" and spec["s"] != "packaged" and not spec.get("ufd_identity") and not P.spec.get("start_scale"):
        # the scaler together with an update function that really redefines the objective (a ridge term switched on at its first call,
        # written for the solver's units): the pair of runs must still coincide, and the scaler still sees the start gradient of the
        # objective as it was handed over
        out.count("pairs_with_an_update_function_switching_on_a_ridge_term")
        RA, RB = Ridged(P, spec["ufd_ridge"]), Ridged(P, spec["ufd_ridge"])
        A = probes.run_min(RA, dict(cfg, scaler=scaler_cfg), hooks={"ufd": ridge_update(RA, s)})
        A.cfg_mode = cfg["jac"]
        B = probes.run_min(RB, dict(cfg, explicit_scale=s), hooks={"ufd": ridge_update(RB, s)})
    else:
        if cfg.get("jac") == "callable" and int(P.spec["seed"]) % 6 == 2:
            # the user's gradient code fills one preallocated array, and the scaler runs it once more (a curvature probe) before answering
            cfg = dict(cfg, reuse_grad_buffer=True, scaler_probe=True)
            out.count("pairs_whose_scaler_overwrites_the_users_gradient_buffer")
        if int(P.spec["seed"]) % 6 == 4:
            cfg = dict(cfg, fp_sensitive=True)  # an objective that sets and relies on NumPy's floating-point error state
            out.count("pairs_with_an_objective_relying_on_the_floating_point_error_state")
        A = probes.run_min(P, dict(cfg, scaler=scaler_cfg))
        A.cfg_mode = cfg["jac"]
        B = probes.run_min(P, dict(cfg, explicit_scale=s))
    if A.exc is None and any(k == "f" and not np.isfinite(v) for k, p, v in A.evals):
        out.count("pairs_with_infinite_trial_values")
    out.count("pairs_compared")
    tagsS = dict(tags, packaged=spec["s"] == "packaged")
    ok = compare_runs(out, A, B, f"{name} s={s!r}", tagsS)
    if A.exc is None:
        check_scaler_args(out, P, A, name, tagsS)
    nit = A.snap["nit"] if A.exc is None else 0
    # target on the unscaled value
    if ok and A.exc is None and nit >= 1 and np.isfinite(A.snap["fun"]):
        fend = A.snap["fun"] / s
        T = fend + spec["target_frac"] * (f0 - fend)
        if fend < T < f0:
            At = probes.run_min(P, dict(cfg, scaler=scaler_cfg, ftarget=float(T)))
            check_target(out, At, s, float(T), f"{name} s={s!r}", tagsS)
    # ... and with the target placed a few units in the last place BELOW the unscaled value of a visited iterate: that iterate does not
    # meet it, the run must go on past it exactly as the run on s*f with the target s*T does... (judged on the stop only)
    if ok and A.exc is None and len(A.cb) >= 2 and spec["s"] != "packaged":
        kk = len(A.cb) // 2
        fk = float(A.cb[kk]["snap"]["fun"]) / s
        if np.isfinite(fk):
            T2 = fk
            for _ in range(int(spec.get("target_ulps", 2))):
                T2 = float(np.nextafter(T2, -np.inf))
            A2 = probes.run_min(P if not spec.get("ufd_ridge") else P, dict(cfg, scaler=scaler_cfg, ftarget=T2)) if not spec.get("ufd_ridge") else None
            if A2 is not None and A2.exc is None:
                out.count("target_runs_with_the_target_a_few_ulp_below_a_visited_value")
                if A2.snap["message"] == MESSAGES["TARGET"] and not (A2.snap["fun"] / s <= T2):
                    out.violate("target_tested_on_scaled_value", f"{name} s={s!r}: TARGET stop with fun/s = {A2.snap['fun'] / s!r} > ftarget = {T2!r} "
                                f"(the target sits {spec.get('target_ulps', 2)} ulp below the value of iterate {kk + 1})", **tagsS)
    # ... and with a callback that stops the run at an iterate whose scaled value is below the target while its unscaled value is above it:
    # the user asked to stop, the target is not met
    if ok and A.exc is None and len(A.cb) >= 2 and spec["s"] != "packaged" and s < 1.0 and not spec.get("ufd_ridge"):
        kk = len(A.cb) // 2
        fk = float(A.cb[kk]["snap"]["fun"]) / s
        if np.isfinite(fk) and fk > 0:
            T3 = 0.5 * (s * fk + fk)
            A3 = probes.run_min(P, dict(cfg, scaler=scaler_cfg, ftarget=T3, cb=kk + 1))
            B3 = probes.run_min(P, dict(cfg, explicit_scale=s, ftarget=s * T3, cb=kk + 1))
            out.count("pairs_stopped_by_their_callback_between_the_scaled_and_the_unscaled_target")
            compare_runs(out, A3, B3, f"{name} s={s!r} stopped by its callback at iteration {kk + 1} with a target between s*f and f", tagsS)
    if cfg.get("reuse_grad_buffer"):
        out.count("pairs_with_reused_gradient_buffer")
    # (a scaler introduced on a restart leg is NOT compared with an explicitly scaled continuation: the restored history holds the
    #  unscaled gradients of the first leg while the current gradient is scaled, so the two are different runs already on the unchanged
    #  tree; the statement speaks of runs, not of continuations. What such a leg reports is judged by C04.)
    out.nontrivial = bool(ok and nit >= 3 and not (0.5 <= s <= 2.0))
    out.key = f"{P.spec['family']}/{P.n}/{P.spec['seed']}/{cfg['jac']}/{cfg['maxls']}/{spec['s']}"
    out.sample = dict(spec=spec, s=s, nit=nit, evaluations=len(A.evals))
    return out


def selftest():
    res = []
    P = gen.make_problem({"family": "qp", "n": 3, "seed": 4, "cond": 10.0, "box": "none", "start": "interior"})
    cfg = dict(jac="callable", maxiter=4, cb="never", gtol=1e-9, ftol=0.0)
    A = probes.run_min(P, dict(cfg, scaler=3.0))
    B = probes.run_min(P, dict(cfg, explicit_scale=3.0))
    o = Outcome()
    compare_runs(o, A, B, "selftest", {})
    # informational only (depends on the tree under test); the synthetic checks below are the liveness tests
    B2 = probes.run_min(P, dict(cfg, explicit_scale=3.0000001))
    o = Outcome()
    compare_runs(o, A, B2, "selftest", {})
    res.append(("flags two runs that are not bit-identical", bool(o.violations)))
    o = Outcome()
    A.snap = dict(A.snap, message=MESSAGES["TARGET"], fun=30.0)
    A.cb = []
    check_target(o, A, 3.0, 9.0, "selftest", {})
    res.append(("flags a target tested on the scaled value", any(v["mech"] == "target_tested_on_scaled_value" for v in o.violations)))
    return res
