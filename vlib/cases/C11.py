"""C11 - line-search steps are feasible, within budget and strictly downhill.

Direct calls of ``lbfgsb.linesearch.line_search`` on a real ``ScalarFunction`` whose
user functions are logged.
"""

from __future__ import annotations

import numpy as np

from .. import gen, probes
from ..common import Outcome, digest, subseed
from ..oracles import EPS, max_feasible_step

LEVEL = "exploration"
RULE = ("one case = 12 direct line_search calls: objective in {box QP, oscillating QP, pure sinusoid, exp wall, QP reported with finite resolution (plateaus)}, n 1..5, random box, "
        "x feasible (interior/face/vertex), d = P(x - t g) - x, iteration index in {0,1,5}, evaluation cap 1..20, tolerances "
        "(ftol,gtol,xtol) varied around the defaults, gradient mode callable or 2-point. Non-trivial = call whose first trial is not "
        "accepted (>=2 evaluations) or that fails (None); distinct = distinct inputs (hash)")
ASSUMPTIONS = [
    "f0 and g0 handed to the line search are the wrapper's own values at x0 (as in the solver)",
    "the returned step is matched to a logged evaluation point within 8 ulp of x0 + alpha*d",
    "max feasible step recomputed independently; alpha may exceed it by at most 4 eps relative",
]
FAMS = ("qp", "oscillating", "sinus", "exp_wall", "qp_quartic", "quantized", "offset", "offset", "partial_nan", "partial_inf", "nan_band", "nan_band")


def floors(tier):
    return {"calls": 2500, "multi_trial_calls": 500, "returned_none": 40, "points_checked": 6000, "step_at_max": 100, "calls_with_a_nan_trial_value": 80, "calls_with_an_optimisation_nested_in_the_objective": 150, "calls_with_single_precision_point": 150, "searches_inside_runs_checked": 1000, "searches_inside_runs_using_their_whole_cap": 200, "runs_with_the_factorisation_checking_switch": 60, "calls_on_a_wrapper_whose_last_point_is_not_the_start": 300, "calls_with_a_subnormal_direction_component_limiting_the_step": 150, "__nontrivial__": 500}


def make_objective(rng, fam, n):
    if fam == "sinus":
        om = rng.uniform(0.5, 9.0, n)
        ph = rng.uniform(0, 2 * np.pi, n)
        amp = rng.uniform(0.2, 3.0, n)

        def f(x):
            return float(np.sum(amp * np.sin(om * x + ph)))

        def g(x):
            return amp * om * np.cos(om * x + ph)

        return f, g
    if fam == "offset":
        # a tiny smooth variation on top of a huge constant: along short steps the decrease is lost to rounding
        A = gen.rand_spd(rng, n, float(np.exp(rng.uniform(0, 3))))
        b = rng.standard_normal(n)
        C = float(10.0 ** rng.integers(6, 12))
        w = float(10.0 ** rng.uniform(-12, -6))

        def f(x):
            return float(C + w * (0.5 * x @ A @ x - b @ x))

        def g(x):
            return w * (A @ x - b)

        return f, g
    if fam == "quantized":
        # objective reported with finite resolution (plateaus): trial values can tie with f0 exactly
        A = gen.rand_spd(rng, n, float(np.exp(rng.uniform(0, 3))))
        b = rng.standard_normal(n)
        q = float(2.0 ** rng.integers(2, 12))

        def f(x):
            return float(np.round((0.5 * x @ A @ x - b @ x) * q) / q)

        def g(x):
            return A @ x - b

        return f, g
    spec = {"family": fam, "n": n, "seed": int(rng.integers(0, 2**31 - 1)), "cond": float(np.exp(rng.uniform(0, 6))), "box": "none", "start": "interior"}
    P = gen.make_problem(spec)
    return P.f, P.g


def judge_call(out, x0, d, lb, ub, f0, cap, above_iter, max_user, ret, log, where, tags):
    """log: list of (kind, point, value) recorded during the call."""
    fpts = [(p, v) for k, p, v in log if k == "f"]
    out.count("calls")
    # 1. feasibility of every evaluated point, exact
    for k, p, v in log:
        out.count("points_checked")
        if not probes.in_box(p, lb, ub):
            i = int(np.argmax((p < lb) | (p > ub)))
            out.violate("trial_outside_box", f"{where}: {k}-evaluation at component {i} = {p[i]!r} outside [{lb[i]!r},{ub[i]!r}] "
                        f"(x0={x0.tolist()}, d={d.tolist()})", what="evaluated_point", **tags)
            return
        if np.any(np.isnan(p)):
            out.violate("trial_nan", f"{where}: NaN evaluation point", **tags)
            return
    # 2. budget
    if len(fpts) > cap:
        out.violate("budget_exceeded", f"{where}: {len(fpts)} objective evaluations with cap {cap}", **tags)
        return
    if any(v != v for _, v in fpts):
        out.count("calls_with_a_nan_trial_value")
    if len(fpts) >= 2 or ret is None:
        out.count("multi_trial_calls" if len(fpts) >= 2 else "first_trial_failed")
    # 3. return value
    if ret is None:
        out.count("returned_none")
        return
    a = float(ret)
    amax = max_feasible_step(x0, d, lb, ub, max_user)
    if not (a > 0 and np.isfinite(a)):
        out.violate("step_not_positive", f"{where}: returned step {ret!r}", **tags)
        return
    if not (a <= amax * (1 + 4 * EPS)):
        out.violate("step_beyond_max_feasible", f"{where}: returned step {a!r} > max feasible step {amax!r}", **tags)
        return
    if a >= amax * (1 - 4 * EPS):
        out.count("step_at_max")
    target = x0 + a * d
    tol = 8 * EPS * np.maximum(np.abs(target), np.maximum(np.abs(x0), 1e-300))
    match = None
    for p, v in fpts:
        if np.all(np.abs(p - target) <= tol):
            match = (p, v)
    if match is None:
        out.violate("step_not_an_evaluated_trial", f"{where}: returned step {a!r} is not one of the {len(fpts)} evaluated trial points", **tags)
        return
    if not (match[1] < f0):
        out.violate("step_not_downhill", f"{where}: returned step {a!r} has f={match[1]!r} >= f0={f0!r} "
                    f"(trial values {[v for _, v in fpts]})", **tags)
        return
    if match[1] > min(v for _, v in fpts if v == v):
        out.count("returned_step_not_lowest_trial")


def cases(tier, seed):
    nc = 400 if tier == "quick" else 16000
    for i in range(nc):
        yield {"seed": subseed("C11", seed, i) % (2**31), "count": 12}
    rng = np.random.default_rng(subseed("C11runs", seed))
    for i in range(300 if tier == "quick" else 8000):
        # the line searches of whole runs, every option of the solver that reaches them varied (starved caps, evaluation budgets ending
        # inside a search, user step caps, the factorisation-checking switch, loggers, restarts)
        ps = gen.rand_spec(rng, ("rosenbrock", "rastrigin", "styblinski_tang", "qp", "qp_quartic", "beale", "exp_wall", "qp_inf_region"), nmax=6, nmin=1)
        cfg = {"jac": "callable", "maxcor": int(rng.integers(1, 9)), "maxls": int(gen.pick(rng, [1, 2, 2, 3, 5, 20])), "maxiter": int(rng.integers(3, 25)),
               "maxfun": int(gen.pick(rng, [4, 7, 12, 25, 15000])), "ftol": 0.0, "gtol": 1e-10, "cb": "never",
               "is_check_factorization": bool(i % 3 == 0), "max_steplength": float(gen.pick(rng, [1e8, 1e8, 1.0, 0.3]))}
        if i % 4 == 1:
            cfg.update(logger=True, iprint=int(gen.pick(rng, [0, 99, 101])))
        yield {"kind": "in_run", "problem": ps, "cfg": cfg, "restart_after": int(rng.integers(1, 4)) if i % 2 == 0 else 0}


def run_in_run(spec, out):
    """Every line search of a real run, observed at the boundary of `line_search`: the objective evaluations made between entry and exit
    (counted by the user's objective itself) never exceed the cap the routine was given, and every point evaluated meanwhile is in the box."""
    import lbfgsb.main as M

    P = gen.make_problem(spec["problem"])
    cfg = dict(spec["cfg"])
    holder = {}
    nsearch = {"n": 0, "full": 0}
    ridge = None
    if int(P.spec["seed"]) % 4 == 1 and cfg.get("jac", "callable") == "callable":
        # the objective carries a ridge term whose weight an update function lowers during the run (the value at the current point drops):
        # every later search is judged against the objective as it is defined when the search is made
        w = {"v": float(1.0 + int(P.spec["seed"]) % 7)}
        P0_ = P
        P = gen.Problem(dict(P0_.spec, ridge=True), P0_.n, (lambda x: P0_.f(x) + 0.5 * w["v"] * float(x @ x)), (lambda x: P0_.g(x) + w["v"] * x),
                        P0_.lb, P0_.ub, P0_.x0, dict(P0_.meta))
        calls = {"n": 0}

        def ridge(x, f0, f0_old, grad, X, G):
            calls["n"] += 1
            if calls["n"] in (2, 5):
                from collections import deque as _dq

                w["v"] *= 0.1
                xo = np.array(X[-1], copy=True) if len(X) else np.array(x, copy=True)
                return P.f(np.array(x, copy=True)), P.f(xo), P.g(np.array(x, copy=True)), _dq(P.g(np.array(p_, copy=True)) for p_ in X)
            return f0, f0_old, grad, G

        out.count("runs_whose_update_function_lowers_the_objective_during_the_run")

    def pre(ev):
        ev["nf_before"] = holder["tr"].nf if "tr" in holder else None

    def on_event(ev):
        live = ev.get("live") or {}
        cap = live.get("max_iter")
        tr = holder.get("tr")
        if tr is None or cap is None or ev.get("nf_before") is None:
            out.count("probe_args_unavailable")
            return
        used = tr.nf - ev["nf_before"]
        nsearch["n"] += 1
        out.count("searches_inside_runs_checked")
        if used >= cap:
            nsearch["full"] += 1
            out.count("searches_inside_runs_using_their_whole_cap")
        if used > cap and not out.violations:
            out.violate("budget_exceeded", f"in a run of {P.spec['family']} n={P.n} (maxls={cfg['maxls']}, maxfun={cfg['maxfun']}, is_check_factorization="
                        f"{cfg['is_check_factorization']}): a line search given a cap of {cap} made {used} objective evaluations", family=P.spec["family"], mode="in_run")
        # the step that comes back leads to an objective value strictly below the one at the point the search started from (both
        # recomputed here from the user's objective; NaN / inf regions excepted)
        ret = ev.get("ret")
        x0v, dv = live.get("x0"), live.get("d")
        if ret is not None and x0v is not None and dv is not None and not out.violations:
            xs = np.array(x0v, dtype=float, copy=True)
            raw = xs + float(ret) * np.asarray(dv, dtype=float)
            # the returned step is at most the largest feasible one: x0 + step*d is in the box up to the rounding of that very expression
            slack = 16 * np.finfo(float).eps * np.maximum(1.0, np.maximum(np.abs(xs), np.abs(raw)))
            out.count("steps_returned_inside_runs_checked_against_the_box")
            if np.all(np.isfinite(raw)) and not (np.all(raw >= P.lb - slack) and np.all(raw <= P.ub + slack)):
                j = int(np.argmax(np.maximum(P.lb - raw, raw - P.ub)))
                out.violate("step_beyond_max_feasible", f"in a run of {P.spec['family']} n={P.n}: the line search started at {xs.tolist()} along d={np.asarray(dv).tolist()} returned "
                            f"the step {float(ret)!r}: x0 + step*d has component {j} = {raw[j]!r} outside [{P.lb[j]!r}, {P.ub[j]!r}]", family=P.spec["family"], mode="in_run")
            pt = np.clip(raw, P.lb, P.ub)
            olde = np.seterr(all="ignore")
            f_s, f_e = float(P.f(xs.copy())), float(P.f(pt.copy()))
            np.seterr(**olde)
            if np.isfinite(f_s) and np.isfinite(f_e):
                out.count("steps_returned_inside_runs_checked_for_decrease")
                if not (f_e < f_s):
                    out.violate("step_not_downhill", f"in a run of {P.spec['family']} n={P.n}: a line search started at a point with f={f_s!r} returned the step {float(ret)!r} "
                                f"leading to f={f_e!r}", family=P.spec["family"], mode="in_run")
        for k, p_, v in tr.evals[-used:] if used > 0 else []:
            if not probes.in_box(np.real(p_), P.lb, P.ub) and not out.violations:
                out.violate("trial_outside_box", f"in a run of {P.spec['family']}: a point evaluated during a line search lies outside the box: {np.real(p_).tolist()}",
                            what="evaluated_point", family=P.spec["family"], mode="in_run")

    def go(c, **kw):
        tr = probes.Trace()
        holder["tr"] = tr
        kwargs = probes.build_kwargs(P, c, tr, **kw)
        old = np.seterr(all="ignore")
        try:
            from lbfgsb import minimize_lbfgsb

            tr.result = minimize_lbfgsb(**kwargs)
        except AssertionError as e:
            tr.exc = e
            out.count("runs_ended_by_the_factorisation_checking_switch" if c.get("is_check_factorization") else "runs_raised")
        except Exception as e:
            tr.exc = e
            out.count("runs_raised")
        finally:
            np.seterr(**old)
        return tr

    with probes.Intercept(M, ["line_search"], copy_args=False, on_call=pre) as ic:
        ic.on_event = on_event
        kept = []
        hk = {"on_cb": (lambda i, xk, st: kept.append(st) and False)}
        if ridge is not None:
            hk["ufd"] = ridge
        first = go(dict(cfg, maxiter=spec["restart_after"]) if spec.get("restart_after") else cfg, hooks=hk)
        if spec.get("restart_after") and first.result is not None and first.result.nit == spec["restart_after"]:
            out.count("runs_continued_from_a_checkpoint")
            ck = first.result
            if len(kept) >= 2 and int(P.spec["seed"]) % 2 == 0:
                ck = kept[0]  # ... from a state the callback kept several iterations before the end, as after a crash
                out.count("runs_continued_from_an_early_kept_state")
            go(dict(cfg, plain_inputs=True), checkpoint=ck, x0=np.array(ck.x, dtype=float, copy=True))
    out.count("runs_observed")
    if cfg.get("is_check_factorization"):
        out.count("runs_with_the_factorisation_checking_switch")
    out.nontrivial = nsearch["full"] > 0
    out.key = f"in_run/{P.spec['family']}/{P.spec['seed']}/{cfg['maxls']}/{cfg['maxfun']}"
    out.sample = dict(spec=spec, searches=nsearch["n"])
    return out


def nan_band_call(rng):
    """A ridge function phi(u.(x - x0)) along the search direction: a short dip right after the start, then a rise above the start value
    that is still descending one full step away, and in between a band where the objective is undefined (NaN, or +inf): a finite trial
    higher than the start comes first, a later trial falls into the band."""
    n = int(rng.integers(1, 4))
    x0 = rng.uniform(-1, 1, n)
    u = rng.standard_normal(n)
    u /= float(np.linalg.norm(u))
    L = float(np.exp(rng.uniform(-1, 1.5)))  # length of the direction handed over
    a, b = sorted(rng.uniform(0.05, 0.95, 2))
    if b - a < 0.1:
        b = min(0.97, a + 0.3)
    cdip, k, m = float(rng.uniform(1.5, 4.0)), float(rng.uniform(40, 200)), float(rng.uniform(0.2, 1.0))
    top, slope = float(rng.uniform(0.3, 2.0)), float(rng.uniform(0.5, 3.0))
    bad = float("nan") if rng.random() < 0.6 else float("inf")

    def tt(x):
        return float(u @ (x - x0)) / L

    def f(x):
        t = tt(x)
        if a <= t <= b:
            return bad
        if t < a:
            return -cdip * t * np.exp(-k * t) + m * t
        return top - slope * (t - 1.0)

    def g(x):
        t = tt(x)
        if a <= t <= b:
            return np.full(n, np.nan)
        if t < a:
            return (-cdip * (1.0 - k * t) * np.exp(-k * t) + m) / L * u
        return -slope / L * u

    lb = np.where(rng.random(n) < 0.5, x0 - rng.uniform(1, 5, n), -np.inf)
    ub = np.where(rng.random(n) < 0.5, x0 + rng.uniform(1, 5, n) + 4 * L, np.inf)
    lb = np.minimum(lb, x0 - 4 * L)
    return "nan_band", n, f, g, lb, ub, x0, L * u


def one_call(rng):
    fam = gen.pick(rng, FAMS)
    if fam == "nan_band":
        return nan_band_call(rng)
    n = int(rng.integers(1, 6))
    f, g = make_objective(rng, "qp" if fam.startswith("partial") else fam, n)
    lb, ub = gen.rand_box(rng, n, gen.pick(rng, ["mixed", "boxed", "narrow", "lower", "upper", "none", "mixed"]))
    x0 = gen.rand_x0(rng, lb, ub, gen.pick(rng, ["interior", "face", "vertex"]))
    if fam == "exp_wall":
        x0 = np.clip(x0 - 2.0, lb, ub)
    g0 = g(x0)
    t = float(np.exp(rng.uniform(-4, 3))) if fam not in ("quantized", "offset") else float(np.exp(rng.uniform(-12, 0)))
    if fam == "offset":
        t = t / max(float(np.linalg.norm(g0)), 1e-300) * float(np.exp(rng.uniform(-6, 2)))
    d = np.clip(x0 - t * g0, lb, ub) - x0
    if fam.startswith("partial"):
        # an objective defined on part of the box only (sqrt / log of a quantity that turns negative): outside a ball around the
        # start it returns NaN (or +inf) and a NaN gradient; the long trial steps leave the domain, the short ones do not
        rho = float(np.exp(rng.uniform(np.log(0.05), np.log(2.0)))) * max(float(np.linalg.norm(d)), 1e-300)
        bad = float("nan") if fam == "partial_nan" else float("inf")
        fq, gq, xs = f, g, x0.copy()

        def f(x, fq=fq, xs=xs, rho=rho, bad=bad):
            return fq(x) if float(np.linalg.norm(x - xs)) <= rho else bad

        def g(x, gq=gq, xs=xs, rho=rho):
            return gq(x) if float(np.linalg.norm(x - xs)) <= rho else np.full(x.shape, np.nan)

    return fam, n, f, g, lb, ub, x0, d


def run(spec):
    from lbfgsb.linesearch import line_search
    from lbfgsb.scalar_function import prepare_scalar_function

    out = Outcome()
    if spec.get("kind") == "in_run":
        return run_in_run(spec, out)
    keys = set()
    rng = np.random.default_rng(spec["seed"])
    old = np.seterr(all="ignore")
    last = None
    try:
        for j in range(spec["count"]):
            fam, n, f, g, lb, ub, x0, d = one_call(rng)
            mode = "callable" if rng.random() < 0.8 else "2-point"
            if j % 6 == 3 and n >= 2 and mode == "callable":
                # magnitudes: one variable lives on the 1e-305 scale (coordinate, bound and the gap between them), its component of the
                # direction is a subnormal number, and its bound is the one that limits the step (a few units to a few dozen)
                r1, r2 = float(rng.uniform(0.5, 2.0)), float(rng.uniform(0.5, 2.0))
                up = bool(rng.random() < 0.5)
                U, gap = 1.04e-305 * r1, 6e-308 * r2
                M = float(np.exp(rng.uniform(np.log(1.2), np.log(40.0))))
                lb, ub, x0, d = lb.copy(), ub.copy(), x0.copy(), d.copy()
                lb[0], ub[0] = (0.0, U) if up else (-U, 0.0)
                x0[0] = (U - gap) if up else -(U - gap)
                d[0] = (gap / M) * (1.0 if up else -1.0)
                if abs(d[0]) < np.finfo(float).tiny:
                    out.count("calls_with_a_subnormal_direction_component_limiting_the_step")
            log = []

            nested = {"on": False, "use": bool(j % 6 == 4), "runs": 0}

            def inner_problem():
                # another optimisation (unbounded: its own maximum step is huge) run from inside the objective while the outer
                # line search is in progress, as a bilevel / value-function objective does
                from lbfgsb import minimize_lbfgsb

                c = np.array([0.3, -0.7])
                minimize_lbfgsb(x0=np.array([2.0, 1.5]), fun=lambda z: float(np.sum((z - c) ** 4) + z @ z), jac=lambda z: 4 * (z - c) ** 3 + 2 * z,
                                maxiter=3, maxcor=2)
                nested["runs"] += 1

            def fun(x, _f=f, nested=nested):
                xr = np.array(x, copy=True)
                if nested["on"] and nested["use"]:
                    inner_problem()
                v = _f(xr)
                log.append(("f", xr, v))
                return v

            def jac(x, _g=g):
                xr = np.array(x, copy=True)
                v = _g(xr)
                log.append(("g", xr, v))
                return v

            x0_arg = x0.copy()
            d_arg32 = None
            if j % 5 == 2 and mode == "callable":
                # a caller of the line-search layer holding its point in single precision (rounded towards the inside of the box);
                # the direction is recomputed from that point so that the max feasible step is the same for judge and routine
                x32 = x0.astype(np.float32)
                inf32 = np.array(np.inf, dtype=np.float32)
                x32 = np.where(x32 < lb, np.nextafter(x32, inf32), x32)
                x32 = np.where(x32 > ub, np.nextafter(x32, -inf32), x32).astype(np.float32)
                if probes.in_box(x32.astype(float), lb, ub):
                    x0 = x32.astype(float)
                    gq = g(x0.copy())
                    tq = float(np.exp(rng.uniform(-4, 2)))
                    d = np.clip(x0 - tq * gq, lb, ub) - x0
                    x0_arg = x32
                    out.count("calls_with_single_precision_point")
                    d32 = d.astype(np.float32)
                    if j % 10 == 7 and probes.in_box(x0 + d32.astype(float), lb - 1e-6 * np.abs(d), ub + 1e-6 * np.abs(d)):
                        # ... and its direction as well
                        d = d32.astype(float)
                        d_arg32 = d32
                        out.count("calls_with_single_precision_point_and_direction")
            sf = prepare_scalar_function(fun, x0_arg.copy(), jac=jac if mode == "callable" else "2-point", args=(), epsilon=1e-8,
                                         bounds=(lb, ub), finite_diff_rel_step=None)
            if rng.random() < 0.3:
                # the solver may have set a scaling factor on the wrapper (gradient scaler): values and slopes are scaled alike
                sf.scaling_factor = float(np.exp(rng.uniform(np.log(1e-2), np.log(1e2))))
                out.count("calls_with_scaling_factor")
            scale = sf.scaling_factor
            f0 = sf.fun(x0.copy())
            g0 = sf.grad(x0.copy())
            if not (np.isfinite(f0) and np.all(np.isfinite(g0))):
                out.count("skipped_nonfinite_start")
                continue
            if not (g0 @ d < 0):
                out.count("skipped_not_descent")
                continue
            above = int(gen.pick(rng, [0, 1, 5]))
            cap = int(rng.integers(1, 21))
            ftol = float(gen.pick(rng, [1e-3, 1e-3, 1e-4, 1e-2, 0.3]))
            gtol = float(gen.pick(rng, [0.9, 0.9, 0.5, 0.1, 0.99]))
            xtol = float(gen.pick(rng, [0.1, 0.1, 1e-3, 1e-8]))
            max_user = float(gen.pick(rng, [1e8, 1e8, 10.0, 1.0]))
            is_boxed = bool(np.all(np.isfinite(lb)) and np.all(np.isfinite(ub)))
            if j % 4 == 1 and mode == "callable":
                # as after a failed search or on a wrapper that has served another search: the last point the wrapper evaluated is
                # not the start of this search (f0 and g0 are handed over by the caller, as the solver does)
                other = np.clip(x0 + float(rng.uniform(0.1, 0.9)) * d, lb, ub)
                sf.fun_and_grad(other)
                out.count("calls_on_a_wrapper_whose_last_point_is_not_the_start")
            del log[:]
            where = f"{fam} n={n} mode={mode} iter={above} cap={cap} tol=({ftol},{gtol},{xtol})"
            ipr, lgr = -1, None
            if rng.random() < 0.3:
                ipr = int(gen.pick(rng, [0, 1, 99, 100, 101]))
                lgr = probes.CapturingLogger().logger
                out.count("calls_with_logging")
            try:
                nested["on"] = True
                ret = line_search(x0_arg.copy(), f0, g0.copy(), d.copy() if d_arg32 is None else d_arg32.copy(), lb, ub, above, max_user, is_boxed, sf, ftol, gtol, xtol, cap, ipr, lgr)
                nested["on"] = False
                if nested["runs"]:
                    out.count("calls_with_an_optimisation_nested_in_the_objective")
            except Exception as e:
                out.violate("line_search_raised", f"{where}: {e!r}; x0={x0.tolist()} d={d.tolist()} lb={lb.tolist()} ub={ub.tolist()}", family=fam)
                break
            # stencil points of the finite-difference gradient are also "evaluated points"; only request points are trials
            snapshot = list(log)
            if d_arg32 is not None:
                # point and direction in single precision: the trial points are formed in single precision, the other clauses would have
                # to be judged at that resolution; only the box clause is judged here (the bounds are doubles: a bound that is not
                # representable in single precision must not be rounded across)
                for k_, p_, v_ in snapshot:
                    out.count("evaluations_of_single_precision_searches_checked_against_the_box")
                    if not probes.in_box(np.asarray(np.real(p_), dtype=float), lb, ub):
                        out.violate("trial_outside_box", f"{where}: point and direction given in single precision: evaluation at {np.asarray(p_).tolist()} outside the box "
                                    f"lb={lb.tolist()} ub={ub.tolist()}", what="evaluated_point", family=fam)
                        break
                if out.violations:
                    break
                continue
            if mode != "callable":
                # keep every point for feasibility but only the trial points (first f-call of each request) as trials:
                # stencil points differ from the trial by ~1e-8 and are never within 8 ulp of x0 + a*d, so matching is unaffected
                pass
            nv = len(out.violations)
            if scale != 1.0:
                snapshot = [(k, p, (v * scale if k == "f" else v)) for k, p, v in snapshot]
            if mode == "callable":
                judge_call(out, x0, d, lb, ub, f0, cap, above, max_user, ret, snapshot, where, dict(family=fam, mode=mode))
            else:
                # budget is counted in trials: group consecutive f-calls into trial + stencil (n calls per gradient)
                trials = []
                i = 0
                while i < len(snapshot):
                    trials.append(snapshot[i])
                    i += 1 + n
                judge_call(out, x0, d, lb, ub, f0, cap, above, max_user, ret, trials, where, dict(family=fam, mode=mode))
                for k, p, v in snapshot:
                    if not probes.in_box(p, lb, ub):
                        out.violate("trial_outside_box", f"{where}: stencil/trial point outside the box: {p.tolist()}", what="stencil", family=fam, mode=mode)
                        break
            nf = len([1 for k, p, v in snapshot if k == "f"])
            if nf >= 2 or ret is None:
                keys.add(digest(x0, d, lb, ub, cap, above, ftol, gtol, xtol))
            last = dict(family=fam, n=n, mode=mode, x0=x0, d=d, lb=lb, ub=ub, cap=cap, above_iter=above, ret=ret, evaluations=nf)
            if len(out.violations) > nv:
                break
    finally:
        np.seterr(**old)
    out.nontrivial = bool(keys)
    out.keys = keys
    out.sample = dict(spec=spec, last_call=last)
    return out


def selftest():
    res = []
    x0 = np.array([0.0, 0.0])
    d = np.array([1.0, 0.5])
    lb = np.array([-1.0, -1.0])
    ub = np.array([1.0, 1.0])
    o = Outcome()
    judge_call(o, x0, d, lb, ub, 1.0, 5, 1, 1e8, 1.0, [("f", x0 + 1.0 * d, 0.5)], "selftest", {})
    res.append(("silent on a good step", not o.violations))
    o = Outcome()
    bad = x0 + d
    bad[0] = np.nextafter(1.0, 2.0)
    judge_call(o, x0, d, lb, ub, 1.0, 5, 1, 1e8, 1.0, [("f", bad, 0.5)], "selftest", {})
    res.append(("flags a trial one ulp outside the box", any(v["mech"] == "trial_outside_box" for v in o.violations)))
    o = Outcome()
    judge_call(o, x0, d, lb, ub, 1.0, 5, 1, 1e8, 1.0, [("f", x0 + d, 1.0)], "selftest", {})
    res.append(("flags a non-decreasing step", any(v["mech"] == "step_not_downhill" for v in o.violations)))
    o = Outcome()
    judge_call(o, x0, d, lb, ub, 1.0, 1, 1, 1e8, 0.5, [("f", x0 + d, 0.5), ("f", x0 + 0.5 * d, 0.4)], "selftest", {})
    res.append(("flags a budget overrun", any(v["mech"] == "budget_exceeded" for v in o.violations)))
    return res
