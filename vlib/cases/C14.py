"""C14 - runs are deterministic, isolated from each other and do not touch their inputs."""

from __future__ import annotations

import itertools
import os

import numpy as np

from .. import fresh, gen, probes, sched
from ..common import Outcome, subseed

LEVEL = "exploration"
RULE = ("kinds of cases: (repeat) the same call repeated in one process, interleaved with unrelated runs, vs a fresh-interpreter baseline; "
        "(restart2) two restarts from one checkpoint object, with and without a gradient scaler; (frozen) x0, bounds and every array of the "
        "checkpoint made read-only and fingerprinted; (iprint) all iprint levels {-1,0,1,7,99,100,101,1000} x logger {None, capturing}; "
        "(enum) two short runs on two threads under a baton scheduler, ALL interleavings of their objective calls (a+b<=12, else sampled); "
        "(line) 2-3 threads preempted at seeded random LINE events inside the lbfgsb modules (sys.monitoring); (nested) the objective of A "
        "runs B to completion at chosen call indices. Every result must be bit-identical to the solo baseline computed in a fresh "
        "interpreter. Non-trivial = schedule with >=2 context switches, or a frozen/restart/iprint case; distinct = distinct (case, schedule)")
ASSUMPTIONS = [
    "one runnable thread at a time (baton): interleavings, not true parallelism; free-threaded builds out of scope",
    "solo baselines come from python -m vlib.fresh (a new interpreter per case)",
    "a read-only input that makes the call raise is a violation (the statement says read-only arrays are accepted)",
]
FAMS = ("qp", "rosenbrock", "styblinski_tang", "rastrigin", "qp_quartic", "beale", "flat", "qp_subnormal")
IPRINTS = (-1, 0, 1, 7, 99, 100, 101, 1000)


def floors(tier):
    return {"results_compared_with_fresh_baseline": 400, "schedules": 150, "context_switches": 800, "enumerated_schedules": 100,
            "line_level_schedules": 20, "line_events": 20000, "nested_runs": 15, "frozen_cases": 15, "iprint_runs": 100,
            "double_restarts": 20, "runs_with_data_forwarded_through_args_compared_with_closures": 150, "double_restarts_with_in_place_update_function": 5, "hostile_user_runs": 20, "objective_switch_cases_in_which_the_filter_dropped_a_pair": 1, "__nontrivial__": 150}


def exhaustive(tier):
    return {"all": False, "subspaces": ["all interleavings of the objective calls of two concurrent runs while their call counts sum to <= 12"]}


def small_cfg(rng, mode=None):
    cfg = dict(jac=mode or gen.pick(rng, ["callable", "callable", None, "2-point", "3-point"]), maxcor=int(rng.integers(1, 6)),
               maxls=int(gen.pick(rng, [3, 5, 20])), maxiter=int(rng.integers(2, 7)), ftol=0.0, gtol=1e-10, maxfun=500)
    if cfg["jac"] != "callable":
        # non-default differencing settings: anything they leave behind must not leak into another run
        cfg["eps"] = float(gen.pick(rng, [1e-8, 1e-6, 1e-4, 1e-2]))
        cfg["finite_diff_rel_step"] = gen.pick(rng, [None, None, 1e-7, 1e-3])
    if mode is None and rng.random() < 0.15:
        cfg["ftarget"] = 1e300  # already met at x0: the early-return path (no gradient is ever computed)
    return cfg


def cases(tier, seed):
    rng = np.random.default_rng(subseed("C14", seed))
    q = tier == "quick"

    def prob(nmax=4):
        return gen.rand_spec(rng, FAMS, nmax=nmax, nmin=2, boxes=("none", "mixed", "boxed", "lower"), starts=("interior", "face", "vertex"))

    def twin(ps):
        """another objective on the same box and start (so that both runs evaluate identical points)"""
        t = prob(ps["n"])
        t["n"] = ps["n"] if t["family"] not in ("rosenbrock", "beale") else max(ps["n"], 2)
        t["geometry_from"] = dict(ps)
        return t

    for i in range(24 if q else 600):
        a = prob(6)
        items = [{"problem": a, "cfg": small_cfg(rng)}, {"problem": twin(a), "cfg": small_cfg(rng)}, {"problem": prob(6), "cfg": small_cfg(rng)}]
        if i % 2 == 1:
            # a run on an objective that is nan / +inf on part of its domain, with a starved line search: it ends inside a failed
            # search, and whatever that leaves behind must not reach the runs made afterwards
            wild = gen.rand_spec(rng, ("qp_nan_region", "qp_inf_region", "edge_walk", "log_barrier", "exp_wall"), nmax=4, nmin=2, boxes=("none",), starts=("interior",))
            items.insert(1, {"problem": wild, "cfg": dict(small_cfg(rng, "callable"), maxls=int(gen.pick(rng, [1, 2])), maxiter=int(rng.integers(3, 12)))})
        yield {"kind": "repeat", "items": items}
    for i in range(48 if q else 600):
        cfg = small_cfg(rng, "callable")
        yield {"kind": "restart2", "problem": prob(6), "cfg": cfg, "scaler": gen.pick(rng, [None, 0.01, 3.0, "packaged"]),
               "extra": int(rng.integers(1, 4)), "target_met": bool(i % 3 == 0), "ufd_in_place": bool(i % 3 == 1),
               "maxcor_drop": int(rng.integers(1, 4)) if i % 2 == 0 else 0}
    for i in range(32 if q else 800):
        yield {"kind": "frozen", "problem": prob(6), "cfg": small_cfg(rng), "scaler": gen.pick(rng, [None, 0.5, 7.0, "packaged"])}
    for i in range(16 if q else 300):
        yield {"kind": "iprint", "problem": prob(5), "cfg": small_cfg(rng)}
    for i in range(64 if q else 800):
        # logging must not influence a run whose objective is redefined on the fly (curvature filter, its "dropping" messages)
        ps = gen.rand_spec(rng, ("qp", "qp_quartic"), nmax=7, nmin=2, boxes=("none", "mixed", "boxed"), starts=("interior", "face"), condmax=1e3)
        yield {"kind": "iprint_ufd", "switch": {"problem": ps, "maxcor": int(rng.integers(3, 8)), "maxiter": int(rng.integers(7, 12)),
                                                "switch_at": int(rng.integers(3, 7)), "variant": gen.pick(rng, ["indefinite", "indefinite", "indefinite", "reg"]),
                                                "vseed": int(rng.integers(0, 2**31 - 1)), "strength": float(rng.uniform(1.5, 6.0)),
                                                "eps_SY": float(gen.pick(rng, [2.2e-16, 1e-2, 0.1, 0.3]))}}
    for i in range(16 if q else 200):
        # very short runs so that all interleavings can be enumerated
        ca = dict(jac="callable", maxcor=int(rng.integers(1, 4)), maxls=5, maxiter=int(rng.integers(1, 4)), ftol=0.0, gtol=1e-10, maxfun=6)
        cb = dict(jac="callable", maxcor=int(rng.integers(1, 4)), maxls=5, maxiter=int(rng.integers(1, 4)), ftol=0.0, gtol=1e-10, maxfun=6)
        pa = prob(3)
        yield {"kind": "enum", "a": {"problem": pa, "cfg": ca}, "b": {"problem": twin(pa) if i % 2 else prob(4), "cfg": cb}, "cap": 924}
    for i in range(16 if q else 400):
        k = int(gen.pick(rng, [2, 2, 3]))
        pa = prob(5)
        yield {"kind": "line", "items": [{"problem": pa, "cfg": small_cfg(rng)}, {"problem": twin(pa), "cfg": small_cfg(rng)}]
               + [{"problem": prob(5), "cfg": small_cfg(rng)} for _ in range(k - 2)],
               "seeds": [int(s) for s in rng.integers(0, 2**31 - 1, 4 if q else 12)], "p": float(gen.pick(rng, [0.002, 0.01, 0.05]))}
    for i in range(48 if q else 1500):
        yield {"kind": "hostile", "problem": prob(6), "cfg": dict(small_cfg(rng), cb="never", maxiter=int(rng.integers(3, 15)))}
    for i in range(40 if q else 1500):
        yield {"kind": "args", "seed": int(rng.integers(0, 2**31 - 1))}
    for i in range(24 if q else 500):
        pa = prob(4)
        yield {"kind": "nested", "a": {"problem": pa, "cfg": small_cfg(rng)}, "b": {"problem": twin(pa) if i % 2 else prob(4), "cfg": small_cfg(rng)},
               "at": sorted(set(int(v) for v in rng.integers(0, 12, 3)))}


# ---------------------------------------------------------------------------
def digest_of(tr):
    if tr.exc is not None:
        return "raised:" + type(tr.exc).__name__
    return fresh.digest_state(tr.snap)


def compare(out, got, want, where, tags):
    out.count("results_compared_with_fresh_baseline")
    if got != want:
        out.violate("result_differs_from_solo_baseline", f"{where}: result digest {got[:16]} != fresh-interpreter baseline {want[:16]}", **tags)
        return False
    return True


def run_item(item, hooks=None):
    P = gen.make_problem(item["problem"])
    return probes.run_min(P, item["cfg"], hooks=hooks)


def case_repeat(spec, out):
    want = fresh.fresh_digests(spec["items"])
    order = [0, 1, 0, 2, 1, 0, 2, 2, 1] if len(spec["items"]) == 3 else [0, 1, 2, 0, 3, 1, 2, 0, 3, 3, 1, 2]
    if len(spec["items"]) == 4:
        out.count("repeat_cases_with_a_run_ending_inside_a_failed_search")
    for k, i in enumerate(order):
        compare(out, digest_of(run_item(spec["items"][i])), want[i], f"repeat: call #{k} (problem {i}) after {order[:k]}", dict(kind="repeat"))
        if out.violations:
            return
    out.nontrivial = True


def case_restart2(spec, out):
    P = gen.make_problem(spec["problem"])
    cfg = dict(spec["cfg"])
    first = probes.run_min(P, cfg)
    if first.exc is not None:
        out.count("baseline_raised")
        return
    ck = first.result

    def fp():
        return probes.fingerprint(ck.x, ck.jac, ck.hess_inv.sk, ck.hess_inv.yk, float(ck.fun), int(ck.nfev), int(ck.njev), int(ck.nit),
                                  str(ck.message), int(ck.status), bool(ck.success), sorted(ck.keys()))

    before = fp()
    c2 = dict(cfg, maxiter=int(ck.nit) + spec["extra"])
    if spec["scaler"] is not None:
        c2["scaler"] = spec["scaler"]
    if spec.get("target_met") and np.isfinite(ck.fun):
        c2["ftarget"] = float(ck.fun) + 1.0  # the checkpoint already meets the target: early return path
        c2.pop("scaler", None)
    if spec.get("maxcor_drop"):
        c2["maxcor"] = max(1, int(cfg.get("maxcor", 10)) - int(spec["maxcor_drop"]))  # the continuation asks for a smaller memory
        out.count("double_restarts_with_a_smaller_memory")
    hooks = {}
    if spec.get("ufd_in_place") and not spec.get("target_met"):
        # the objective gained a term t.x between the two runs: the update function adds its gradient IN PLACE to every array it is
        # handed (current gradient and stored gradients) and returns them - whatever it is handed must be the run's own working
        # copies, never the arrays of the caller's checkpoint
        tvec = 0.01 * np.arange(1, P.n + 1, dtype=float)
        out.count("double_restarts_with_in_place_update_function")

        def ufd(x, f0, f0_old, grad, X, G):
            grad += tvec
            for gi in G:
                gi += tvec
            return f0 + float(tvec @ x), f0_old + (float(tvec @ X[-1]) if len(X) else float(tvec @ x)), grad, G

        hooks["ufd"] = ufd
    r1 = probes.run_min(P, c2, checkpoint=ck, x0=np.array(ck.x, copy=True), hooks=hooks)
    mid = fp()
    r2 = probes.run_min(P, c2, checkpoint=ck, x0=np.array(ck.x, copy=True), hooks=hooks)
    out.count("double_restarts")
    tags = dict(kind="restart2", scaler=str(spec["scaler"]))
    if mid != before:
        out.violate("checkpoint_modified_by_restart", f"restart2 {P.spec['family']}: the caller's checkpoint object changed during the restart "
                    f"(scaler={spec['scaler']})", **tags)
        return
    if digest_of(r1) != digest_of(r2):
        out.violate("second_restart_differs", f"restart2 {P.spec['family']}: restarting twice from the same checkpoint object gives two different "
                    f"results (scaler={spec['scaler']}): {digest_of(r1)[:12]} vs {digest_of(r2)[:12]}", **tags)
        return
    out.nontrivial = True


def case_frozen(spec, out):
    from lbfgsb import minimize_lbfgsb

    P = gen.make_problem(spec["problem"])
    cfg = dict(spec["cfg"])
    tags = dict(kind="frozen", scaler=str(spec["scaler"]))
    ref = probes.run_min(P, cfg)
    if ref.exc is not None:
        out.count("baseline_raised")
        return
    # 1. frozen x0 / bounds
    tr = probes.Trace()
    kw = probes.build_kwargs(P, dict(cfg, plain_inputs=True), tr)
    x0 = kw["x0"]
    bounds = kw["bounds"]
    probes.freeze(x0, bounds)
    fp = probes.fingerprint(x0, bounds)
    old = np.seterr(all="ignore")
    try:
        res = minimize_lbfgsb(**kw)
        snap = probes.snap_state(res)
    except Exception as e:
        out.violate("readonly_input_rejected", f"frozen {P.spec['family']}: read-only x0/bounds made the call raise {e!r}", what="x0_bounds", **tags)
        return
    finally:
        np.seterr(**old)
    out.count("frozen_cases")
    if probes.fingerprint(x0, bounds) != fp:
        out.violate("input_modified", f"frozen {P.spec['family']}: x0 or bounds changed", what="x0_bounds", **tags)
        return
    if fresh.digest_state(snap) != fresh.digest_state(ref.snap):
        out.violate("frozen_inputs_change_result", f"frozen {P.spec['family']}: result differs with read-only inputs", what="x0_bounds", **tags)
        return
    # 1b. a box whose open sides are written as the largest finite double instead of infinity (read-only as well)
    tr = probes.Trace()
    kw = probes.build_kwargs(P, dict(cfg, plain_inputs=True), tr)
    bounds = np.array(kw["bounds"], dtype=float, copy=True)
    big = np.finfo(float).max
    bounds[:, 0] = np.where(np.isneginf(bounds[:, 0]), -big, bounds[:, 0])
    bounds[:, 1] = np.where(np.isposinf(bounds[:, 1]), big, bounds[:, 1])
    if np.any(np.abs(bounds) == big):
        kw["bounds"] = bounds
        probes.freeze(kw["x0"], bounds)
        fp = probes.fingerprint(kw["x0"], bounds)
        old = np.seterr(all="ignore")
        try:
            minimize_lbfgsb(**kw)
        except Exception as e:
            out.violate("readonly_input_rejected", f"frozen {P.spec['family']}: read-only bounds with sides at the largest finite double made the call raise {e!r}",
                        what="huge_bounds", **tags)
            return
        finally:
            np.seterr(**old)
        out.count("frozen_cases_with_bounds_at_the_largest_finite_double")
        if probes.fingerprint(kw["x0"], bounds) != fp:
            out.violate("input_modified", f"frozen {P.spec['family']}: bounds with sides at the largest finite double were changed by the call", what="huge_bounds", **tags)
            return
    # 2. frozen checkpoint, restart with / without scaler
    ck = ref.result
    arrays = [ck.x, ck.jac, ck.hess_inv.sk, ck.hess_inv.yk]
    if hasattr(ck.hess_inv, "rho"):
        arrays.append(ck.hess_inv.rho)
    copies = [np.array(a, copy=True) for a in arrays]
    probes.freeze(*arrays)
    c2 = dict(cfg, maxiter=int(ck.nit) + 2)
    if spec["scaler"] is not None:
        c2["scaler"] = spec["scaler"]
    x0r = np.array(ck.x, copy=True)
    probes.freeze(x0r)
    tr2 = probes.Trace()
    kw2 = probes.build_kwargs(P, c2, tr2, checkpoint=ck, x0=x0r)
    kw2["x0"] = x0r
    old = np.seterr(all="ignore")
    try:
        minimize_lbfgsb(**kw2)
    except Exception as e:
        out.violate("readonly_input_rejected", f"frozen {P.spec['family']}: restart from a read-only checkpoint raised {e!r} (scaler={spec['scaler']})",
                    what="checkpoint", **tags)
        return
    finally:
        np.seterr(**old)
        for a in arrays:
            a.flags.writeable = True
    if not all(np.array_equal(a, c) for a, c in zip(arrays, copies)):
        out.violate("input_modified", f"frozen {P.spec['family']}: checkpoint arrays changed during the restart", what="checkpoint", **tags)
        return
    out.nontrivial = True


def case_iprint(spec, out):
    P = gen.make_problem(spec["problem"])
    ref = None
    for ip in IPRINTS:
        for lg in (False, True):
            tr = probes.run_min(P, dict(spec["cfg"], iprint=ip, logger=lg))
            out.count("iprint_runs")
            d = digest_of(tr)
            if ref is None:
                ref = d
            elif d != ref:
                out.violate("logging_changes_result", f"iprint {P.spec['family']}: iprint={ip} logger={'capturing' if lg else None} gives digest {d[:12]} "
                            f"!= {ref[:12]} (iprint=-1, no logger)", kind="iprint", iprint=ip, logger=lg)
                return
    # ... nor on what a LATER call sees: the stop criteria are given as stateful callables (a schedule handing out the next target / the
    # next tolerance each time it is asked); the two-call sequence must come out the same under every logging configuration
    f0 = P.f(np.clip(P.x0, P.lb, P.ub))
    if np.isfinite(f0):
        ref2 = None
        for ip in (-1, 1, 101):
            for lg in (False, True):
                sched = {"k": 0}

                def next_target(sched=sched):
                    sched["k"] += 1
                    return float(f0) - 0.05 * sched["k"] * (abs(float(f0)) + 1.0)

                def next_gtol(sched=sched):
                    sched["k"] += 1
                    return 10.0 ** (-4 - sched["k"] % 5)

                a = probes.run_min(P, dict(spec["cfg"], iprint=ip, logger=lg, maxiter=4), hooks={"ftarget_obj": next_target, "gtol_obj": next_gtol})
                b = probes.run_min(P, dict(spec["cfg"], iprint=ip, logger=lg), hooks={"ftarget_obj": next_target, "gtol_obj": next_gtol})
                out.count("iprint_runs", 2)
                out.count("two_call_sequences_sharing_stateful_stop_criteria")
                d2 = digest_of(a) + digest_of(b)
                if ref2 is None:
                    ref2 = d2
                elif d2 != ref2:
                    out.violate("logging_changes_result", f"iprint {P.spec['family']}: two calls sharing stateful callable stop criteria: with iprint={ip} logger="
                                f"{'capturing' if lg else None} the pair of results differs from the one obtained with iprint=-1 and no logger", kind="iprint", iprint=ip, logger=lg)
                    return
    out.nontrivial = True


def case_hostile(spec, out):
    """A user who returns every gradient in one reused work array and overwrites the arrays it is handed (objective /
    gradient argument, callback xk) must get exactly the run of a well-behaved user."""
    item = {"problem": spec["problem"], "cfg": spec["cfg"]}
    want = fresh.fresh_digests([item])[0]
    P = gen.make_problem(spec["problem"])
    tr = probes.run_min(P, dict(spec["cfg"], hostile_user=True))
    out.count("hostile_user_runs")
    compare(out, digest_of(tr), want, f"hostile {P.spec['family']} jac={spec['cfg']['jac']}: run with a buffer-reusing, argument-overwriting user",
            dict(kind="hostile", mode=str(spec["cfg"]["jac"])))
    out.nontrivial = True


def case_iprint_ufd(spec, out):
    from .C13 import switch_trace

    ref = None
    for ip in (-1, 0, 1, 99, 101, 1000):
        for lg in (False, True):
            tr = switch_trace(spec["switch"], dict(iprint=ip, logger=lg))
            if lg and ip == -1 and tr.log_records is not None and any("Dropping update" in m for m in tr.log_records):
                out.count("objective_switch_cases_in_which_the_filter_dropped_a_pair")
            out.count("iprint_runs")
            out.count("iprint_runs_with_objective_switch")
            d = digest_of(tr)
            if ref is None:
                ref = d
            elif d != ref:
                out.violate("logging_changes_result", f"iprint_ufd: objective switch at update call {spec['switch']['switch_at']} ({spec['switch']['variant']}): "
                            f"iprint={ip} logger={'capturing' if lg else None} gives digest {d[:12]} != {ref[:12]} (iprint=-1, no logger)",
                            kind="iprint_ufd", iprint=ip, logger=lg)
                return
    out.nontrivial = True


def threaded(items, chooser, line=None):
    """Run each item on its own managed thread; returns (digests, baton, line_events)."""
    baton = sched.Baton(len(items), chooser)

    def make(i):
        def fn():
            return run_item(items[i], hooks={"on_f": lambda k, x: baton.point()})

        return fn

    fns = [make(i) for i in range(len(items))]
    nline = 0
    if line is not None:
        import lbfgsb

        with sched.LinePreemption(baton, os.path.dirname(lbfgsb.__file__)) as lp:
            hung = baton.run(fns)
            nline = lp.events
            active = lp.active
    else:
        hung = baton.run(fns)
        active = True
    digs = []
    for i in range(len(items)):
        if baton.errors[i] is not None:
            digs.append("thread-raised:" + repr(baton.errors[i]))
        elif baton.results[i] is None:
            digs.append("hung")
        else:
            digs.append(digest_of(baton.results[i]))
    return digs, baton, nline, hung, active


def case_enum(spec, out, keys):
    items = [spec["a"], spec["b"]]
    want = fresh.fresh_digests(items)
    solo = [run_item(it) for it in items]
    if any(t.exc is not None for t in solo):
        out.count("baseline_raised")
        return
    a, b = solo[0].nf, solo[1].nf
    # decision k says which thread owns the next slice; every arrangement of a zeros and b ones is one interleaving
    total = a + b
    if total <= 12:
        combos = list(itertools.combinations(range(total), a))
        out.count("exhaustively_enumerated_pairs")
    else:
        rng = np.random.default_rng(subseed("enum", spec["a"]["problem"]["seed"], spec["b"]["problem"]["seed"]))
        combos = [tuple(sorted(rng.choice(total, a, replace=False).tolist())) for _ in range(300)]
    for combo in combos[: spec["cap"]]:
        order = [1] * total
        for i in combo:
            order[i] = 0
        digs, baton, _, hung, _ = threaded(items, sched.explicit_chooser(order))
        out.count("schedules")
        out.count("enumerated_schedules")
        out.count("context_switches", baton.switches)
        if hung:
            out.violate("scheduler_hang", f"enum: threads {hung} did not finish under order {order}", kind="enum")
            return
        for i in range(2):
            if not compare(out, digs[i], want[i], f"enum: thread {i} under interleaving {order} ({baton.switches} switches)", dict(kind="enum")):
                return
        if baton.switches >= 2:
            keys.add("enum/" + "".join(map(str, order)) + f"/{spec['a']['problem']['seed']}")


def case_line(spec, out, keys):
    items = spec["items"]
    want = fresh.fresh_digests(items)
    for s in spec["seeds"]:
        digs, baton, nline, hung, active = threaded(items, sched.random_chooser(s, spec["p"]), line=True)
        if not active:
            out.count("line_preemption_unavailable")
            return
        out.count("schedules")
        out.count("line_level_schedules")
        out.count("line_events", nline)
        out.count("context_switches", baton.switches)
        if hung:
            out.violate("scheduler_hang", f"line: threads {hung} did not finish (seed {s})", kind="line")
            return
        for i in range(len(items)):
            if not compare(out, digs[i], want[i], f"line: thread {i} of {len(items)} preempted at LINE events (seed {s}, p={spec['p']}, "
                           f"{baton.switches} switches, {nline} line events)", dict(kind="line")):
                return
        if baton.switches >= 2:
            keys.add(f"line/{s}/{spec['p']}/{items[0]['problem']['seed']}")


def case_nested(spec, out, keys):
    items = [spec["a"], spec["b"]]
    want = fresh.fresh_digests(items)
    inner = []

    def on_f(k, x):
        if k in spec["at"]:
            inner.append(digest_of(run_item(spec["b"])))

    tr = run_item(spec["a"], hooks={"on_f": on_f})
    out.count("nested_runs", len(inner))
    if not compare(out, digest_of(tr), want[0], f"nested: outer run with {len(inner)} inner runs at objective calls {spec['at']}", dict(kind="nested", which="outer")):
        return
    for j, d in enumerate(inner):
        if not compare(out, d, want[1], f"nested: inner run #{j}", dict(kind="nested", which="inner")):
            return
    if inner:
        keys.add(f"nested/{spec['a']['problem']['seed']}/{spec['at']}")


def _f_with_parameter(x, a):
    """One objective for a family of problems; the member is chosen by the extra argument."""
    s_ = np.sqrt(np.abs(a)) if not isinstance(a, (bool, np.bool_)) else np.sqrt(float(a))
    return float(np.sum((x - 0.3) ** 2) + float(s_) * float(np.sum(np.cos(x))) + (0.25 * float(np.sum(x)) if np.signbit(float(a)) else 0.0))


def _g_with_parameter(x, a):
    s_ = np.sqrt(np.abs(a)) if not isinstance(a, (bool, np.bool_)) else np.sqrt(float(a))
    return 2 * (x - 0.3) - float(s_) * np.sin(x) + (0.25 if np.signbit(float(a)) else 0.0)


def case_args(spec, out):
    """`args` only forwards: a run given (fun, jac, args=(a,)) is the run given the closures x -> fun(x, a), x -> jac(x, a), whatever the
    type of a and whatever other members of the family were solved before in the process (values that compare equal - 1.5 and
    float32(1.5), 1 and 1.0 and True, 0.0 and -0.0 - are different arguments)."""
    from lbfgsb import minimize_lbfgsb

    rng = np.random.default_rng(spec["seed"])
    n = int(rng.integers(2, 6))
    x0 = rng.uniform(-2, 2, n)
    bounds = np.column_stack([np.full(n, -3.0), np.full(n, 3.0)])
    vals = [1.5, np.float32(1.5), 2, 2.0, np.float32(2.0), True, 1, 1.0, 0.0, -0.0, np.float64(0.7), np.float32(0.7), np.longdouble(0.7)]
    order = [vals[int(k)] for k in rng.permutation(len(vals))][: int(rng.integers(4, len(vals) + 1))]
    kw = dict(maxcor=int(rng.integers(1, 8)), maxiter=int(rng.integers(3, 25)), ftol=0.0, gtol=1e-10)
    old = np.seterr(all="ignore")
    try:
        for a in order:
            r1 = minimize_lbfgsb(x0=x0.copy(), fun=_f_with_parameter, jac=_g_with_parameter, args=(a,), bounds=bounds.copy(), **kw)
            r2 = minimize_lbfgsb(x0=x0.copy(), fun=(lambda x, a=a: _f_with_parameter(x, a)), jac=(lambda x, a=a: _g_with_parameter(x, a)), bounds=bounds.copy(), **kw)
            out.count("runs_with_data_forwarded_through_args_compared_with_closures")
            bad = probes.diff_states(probes.snap_state(r1), probes.snap_state(r2))
            if bad:
                out.violate("result_depends_on_how_the_data_are_passed", f"args: with args=({a!r},) of type {type(a).__name__} (after {[type(v).__name__ for v in order[:order.index(a)]]} "
                            f"in the same process) fields {bad} differ from the run on the closures x -> fun(x, a)", kind="args")
                return
    finally:
        np.seterr(**old)
    out.nontrivial = True


def run(spec):
    out = Outcome()
    keys = set()
    kind = spec["kind"]
    if kind == "args":
        case_args(spec, out)
    elif kind == "repeat":
        case_repeat(spec, out)
    elif kind == "restart2":
        case_restart2(spec, out)
    elif kind == "frozen":
        case_frozen(spec, out)
    elif kind == "iprint":
        case_iprint(spec, out)
    elif kind == "enum":
        case_enum(spec, out, keys)
    elif kind == "line":
        case_line(spec, out, keys)
    elif kind == "nested":
        case_nested(spec, out, keys)
    elif kind == "hostile":
        case_hostile(spec, out)
    elif kind == "iprint_ufd":
        case_iprint_ufd(spec, out)
    if keys:
        out.keys = keys
        out.nontrivial = True
    else:
        out.key = f"{kind}/{subseed(spec) % 10**9}"
    out.count("cases:" + kind)
    out.sample = dict(kind=kind, spec={k: v for k, v in spec.items() if k != "seeds"})
    return out


def selftest():
    res = []
    o = Outcome()
    compare(o, "aa", "bb", "selftest", {})
    res.append(("flags a differing digest", bool(o.violations)))
    # the scheduler really interleaves: two threads appending to a shared log
    log = []
    b = sched.Baton(2, sched.explicit_chooser([1, 0, 1, 0]))

    def mk(i):
        def fn():
            for k in range(3):
                log.append((i, k))
                b.point()
            return i

        return fn

    hung = b.run([mk(0), mk(1)])
    res.append(("baton scheduler interleaves deterministically", not hung and b.switches >= 3 and log[:3] == [(0, 0), (1, 0), (0, 1)]))
    a = np.arange(3.0)
    probes.freeze(a)
    try:
        a *= 2
        ok = False
    except ValueError:
        ok = True
    res.append(("write barrier fires on an in-place store", ok))
    return res
