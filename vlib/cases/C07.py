"""C07 - the callback state is a faithful snapshot usable as a crash checkpoint.

Fault enumeration over iterations: every iteration k of every explored run is a crash
point; for each, the process is "killed" (a BaseException raised from the objective) at
every later objective-call index up to the second next callback, and the run is
restarted from the state object the callback received, held *by reference*.
"""

from __future__ import annotations

import numpy as np

from .. import gen, probes
from ..common import Outcome, subseed
from ..e2e import MESSAGES

LEVEL = "fault_enumeration"
RULE = ("one case = one problem (qp / qp_quartic / rosenbrock / beale / rastrigin / styblinski_tang, boxes, n 2..7, maxcor 1..6, maxls in "
        "{2,5,20}, <=12 iterations). For every callback k: (a) its deep copy equals run(maxiter=state.nit) on x, fun, jac, nfev, njev, nit, "
        "pairs, bit for bit; (b) the referenced state and xk are re-read at every later callback and at the end and must not have changed; "
        "(c) the run with a callback returning False is bit-identical (result and evaluation log) to the run without; (d) for every "
        "objective-call index c after callback k up to the second next callback the objective raises SimulatedCrash at c and the run is "
        "restarted from the referenced state: its first new iterate must equal the uninterrupted run's. Non-trivial = crash point whose "
        "state holds >=1 pair and is not the last iteration; distinct = distinct (problem, k, c)")
ASSUMPTIONS = [
    "the crash is simulated by a BaseException raised from the user's objective (no handler in the package may catch it)",
    "continuation tolerance 1e-9 relative (C06); everything else bit-exact",
]
FAMS = ("qp", "qp_quartic", "rosenbrock", "beale", "rastrigin", "styblinski_tang", "qp_subnormal")
XT = 1e-9
CMP = ("x", "fun", "jac", "nfev", "njev", "nit", "sk", "yk")


def floors(tier):
    return {"callback_states": 300, "states_vs_maxiter_run": 300, "retained_states_rechecked": 800, "crash_points": 500,
            "restarts_from_retained_state": 500, "callback_free_runs_compared": 60, "callback_free_runs_compared_with_objective_redefined": 60, "callback_free_runs_compared_with_nested_run_in_callback": 30, "problems_with_reused_gradient_buffer": 20, "finite_difference_restarts_from_retained_state": 100,
            "ufd_runs_stopped_by:FTOL": 20, "continuations_compared_to_the_end": 400, "continuations_through_a_failed_line_search": 40, "problems_with_a_target_tying_with_the_value_of_an_iterate": 15, "restarts_from_states_right_after_a_memory_refresh": 6, "__nontrivial__": 300}


def exhaustive(tier):
    return {"all": False, "subspaces": ["every iteration of every explored run as crash point x every objective-call index until the second next callback"]}


def cases(tier, seed):
    rng = np.random.default_rng(subseed("C07", seed))
    nprob = 420 if tier == "quick" else 6000
    for i in range(nprob):
        ps = gen.rand_spec(rng, FAMS, nmax=7, nmin=2, boxes=("none", "mixed", "boxed", "lower", "narrow"),
                           starts=("interior", "face", "vertex", "outward"), condmax=1e3)
        spec = {"problem": ps, "maxcor": int(rng.integers(1, 7)), "maxls": int(gen.pick(rng, [2, 5, 20])), "K": int(rng.integers(4, 13)),
                "scaler": float(np.exp(rng.uniform(np.log(1e-2), np.log(1e2)))) if i % 3 == 0 else None}
        if i % 13 == 12:
            # scale: dimensions and memories larger than the bulk of the cases
            ps["n"] = int(rng.integers(20, 41))
            spec["maxcor"] = int(rng.integers(11, 21))
        if i % 7 == 4:
            spec["ls"] = {"ftol_linesearch": float(gen.pick(rng, [1e-4, 1e-2, 0.1])), "gtol_linesearch": float(gen.pick(rng, [0.5, 0.99])),
                          "xtol_linesearch": float(gen.pick(rng, [1e-8, 1e-3, 0.3])), "max_steplength": float(gen.pick(rng, [1e10, 1e10, 2.0]))}
        if i % 6 == 5 and not spec.get("scaler"):
            spec["target_tie"] = int(rng.integers(2, 7))
        if i % 5 == 2:
            spec["reuse_grad_buffer"] = True  # the user's gradient fills and returns one preallocated array
        if i % 4 == 1:
            # long runs with a starved line search: several failed line searches (memory reboots) inside one run; the crash
            # enumeration is limited to the first callbacks, every state is followed to the end of the run
            spec["problem"] = gen.rand_spec(rng, ("rosenbrock", "rosenbrock", "beale", "rastrigin", "qp_nan_region", "qp_inf_region", "edge_walk", "edge_walk"),
                                            nmax=4, nmin=2, boxes=("none", "mixed", "lower"), starts=("interior", "face"))
            spec.update(K=int(rng.integers(20, 45)), maxls=int(gen.pick(rng, [1, 2, 2, 3])), long=True)
        yield spec
    # (runs on variables of wildly different length scales are not put through the crash enumeration below: the compact representation
    #  rebuilt by a restart and the one the live run has updated step by step then differ by rounding amplified by conditioning of 1e12
    #  and more, 3e-3 in the next iterate on the unchanged tree; the restarts that ARE exact there - from a state without pairs, right
    #  after a memory refresh - are the `refresh` kind)
    for i in range(400 if tier == "quick" else 12000):
        ps = gen.rand_spec(rng, ("scaled_rosenbrock",), nmax=6, nmin=2, boxes=("none", "none", "lower"), starts=("interior",))
        yield {"kind": "refresh", "problem": ps, "maxcor": int(rng.integers(3, 10)), "K": 40}
    # ... nor a run with finite-difference gradients whose callback runs another, independent optimisation (a probe with other
    # differencing settings and another box) before returning False
    for i in range(60 if tier == "quick" else 1500):
        ps = gen.rand_spec(rng, ("qp", "qp_quartic", "rosenbrock", "styblinski_tang"), nmax=6, nmin=2, boxes=("mixed", "boxed", "lower", "unit", "nonneg"),
                           starts=("interior", "face", "vertex"), condmax=1e3)
        yield {"kind": "nested_callback", "problem": ps, "maxcor": int(rng.integers(1, 7)), "jac": gen.pick(rng, [None, "2-point", "3-point"]),
               "inner_jac": gen.pick(rng, [None, "2-point", "3-point"]), "inner_eps": float(gen.pick(rng, [1e-3, 1e-5])),
               "inner_rel": gen.pick(rng, [None, 1e-2]), "inner_box": gen.pick(rng, ["none", "boxed", "lower"]), "K": int(rng.integers(3, 9))}
    # finite-difference gradients with the user's own steps: the state kept after iteration k restarts into the same iterate k+1
    for i in range(60 if tier == "quick" else 1500):
        ps = gen.rand_spec(rng, ("qp", "qp_quartic", "rosenbrock", "styblinski_tang"), nmax=5, nmin=2, boxes=("none", "mixed", "boxed", "lower"),
                           starts=("interior", "face"), condmax=1e2)
        yield {"kind": "fd_restart", "problem": ps, "maxcor": int(rng.integers(1, 7)), "jac": gen.pick(rng, ["2-point", "3-point", None]),
               "rel": gen.pick(rng, [None, 1e-6, 1e-3, 1e-2]), "eps": float(gen.pick(rng, [1e-8, 1e-6])), "K": int(rng.integers(3, 9))}
    # a callback that returns False must not alter a run whose objective is redefined on the fly either (relative-reduction / target stops)
    nu = 120 if tier == "quick" else 3000
    for i in range(nu):
        ps = gen.rand_spec(rng, ("qp", "qp_quartic", "qp_softplus"), nmax=7, nmin=2, boxes=("none", "mixed", "boxed", "lower"), starts=("interior", "face"), condmax=1e3)
        yield {"kind": "ufd_callback", "problem": ps, "maxcor": int(rng.integers(1, 7)), "maxls": int(gen.pick(rng, [2, 5, 20])),
               "ftol": float(gen.pick(rng, [1e-1, 1e-2, 1e-3, 1e-5])), "lam0": float(np.exp(rng.uniform(np.log(0.1), np.log(20.0)))),
               "decay": float(rng.uniform(0.3, 0.9)), "from_call": int(rng.integers(0, 4)), "target": bool(rng.random() < 0.3)}


def relerr(a, b):
    a = np.asarray(a, dtype=float)
    b = np.asarray(b, dtype=float)
    return float(np.max(np.abs(a - b)) / max(1.0, float(np.max(np.abs(b)))))


def judge_snapshot(out, snap, ref_snap, where, tags):
    bad = probes.diff_states(snap, ref_snap, fields=CMP)
    if bad:
        det = {k: (probes.human_short(snap.get(k)), probes.human_short(ref_snap.get(k))) for k in bad[:3]}
        out.violate("callback_state_differs_from_maxiter_run", f"{where}: fields {bad} differ from run(maxiter=state.nit): {det}", fields=",".join(bad), **tags)
        return False
    return True


def judge_retained(out, rec, where, tags):
    now = probes.snap_state(rec["ref"])
    bad = probes.diff_states(now, rec["snap"])
    if bad:
        out.violate("retained_state_changed", f"{where}: the state object kept by the user changed after the callback returned: fields {bad}", fields=",".join(bad), **tags)
        return False
    if not np.array_equal(rec["xk_ref"], rec["xk"]):
        out.violate("retained_xk_changed", f"{where}: the xk array handed to the callback changed afterwards", **tags)
        return False
    return True


class Reweighted:
    """f_j(x) = f(x) + lam_j/2 |x|^2 with lam_j = lam0*decay^j: a regularisation weight relaxed at every call of the update function."""

    def __init__(self, P, lam0, decay):
        self.P, self.lam0, self.decay, self.j = P, lam0, decay, 0
        self.n, self.lb, self.ub, self.x0, self.bounds, self.spec, self.meta = P.n, P.lb, P.ub, P.x0, P.bounds, P.spec, P.meta

    @property
    def lam(self):
        return self.lam0 * self.decay ** self.j

    def f(self, x):
        return self.P.f(x) + 0.5 * self.lam * float(x @ x)

    def g(self, x):
        return self.P.g(x) + self.lam * x


def run_ufd_callback(spec, out):
    """(c) for runs with update_fun_def: with and without a callback returning False the result is bit-identical."""
    from collections import deque

    P = gen.make_problem(spec["problem"])
    tags = dict(family=P.spec["family"], kind="ufd_callback")
    name = f"{P.spec['family']} n={P.n} maxcor={spec['maxcor']} update_fun_def relaxing a weight from call {spec['from_call']} on, ftol={spec['ftol']:g}"
    res = []
    for with_cb in (False, True):
        R = Reweighted(P, spec["lam0"], spec["decay"])
        calls = {"n": 0, "rewrites": 0}

        def ufd(x, f0, f0_old, grad, X, G, R=R, calls=calls):
            k = calls["n"]
            calls["n"] += 1
            if k < spec["from_call"]:
                return f0, f0_old, grad, G
            R.j += 1
            calls["rewrites"] += 1
            Gn = deque(R.g(np.array(p, copy=True)) for p in X)
            xo = np.array(X[-1], copy=True) if len(X) else np.array(x, copy=True)
            return R.f(np.array(x, copy=True)), R.f(xo), R.g(np.array(x, copy=True)), Gn

        cfg = dict(jac="callable", maxcor=spec["maxcor"], maxls=spec["maxls"], ftol=spec["ftol"], gtol=1e-12, maxfun=100000, maxiter=40,
                   cb="never" if with_cb else None)
        if spec["target"]:
            old = np.seterr(all="ignore")
            cfg["ftarget"] = 0.5 * (P.f(P.x0.copy()) + 0.5 * spec["lam0"] * float(P.x0 @ P.x0))
            np.seterr(**old)
        tr = probes.run_min(R, cfg, hooks={"ufd": ufd})
        res.append((tr, calls["rewrites"]))
    (a, ra), (b, rb) = res
    out.count("callback_free_runs_compared")
    out.count("callback_free_runs_compared_with_objective_redefined")
    if (a.exc is None) != (b.exc is None):
        out.violate("callback_alters_run", f"{name}: one of the two runs raised ({a.exc!r} / {b.exc!r})", **tags)
        return
    if a.exc is not None:
        out.count("runs_raised")
        return
    key = e2e_key(a.snap["message"])
    out.count("ufd_runs_stopped_by:" + key)
    bad = probes.diff_states(a.snap, b.snap)
    same_log = len(a.evals) == len(b.evals) and all(u[0] == v[0] and np.array_equal(u[1], v[1]) for u, v in zip(a.evals, b.evals))
    if bad or not same_log:
        out.violate("callback_alters_run", f"{name}: with a callback returning False fields {bad} / evaluation log ({len(b.evals)} vs {len(a.evals)} calls) "
                    f"differ from the run without callback (both stop with {a.snap['message']!r} / {b.snap['message']!r})", **tags)
        return
    # the states handed out must not be tied to the result either
    for j, rec in enumerate(b.cb):
        out.count("retained_states_rechecked")
        if not judge_retained(out, rec, f"{name}: state of callback #{j} re-read after the run", dict(tags, when="end")):
            return
    out.nontrivial = ra > 0 and key in ("FTOL", "TARGET")
    out.key = f"ufd_callback/{P.spec['family']}/{P.spec['seed']}/{spec['maxcor']}/{spec['ftol']}"
    out.sample = dict(spec=spec, message=a.snap["message"], rewrites=ra)


def run_nested_callback(spec, out):
    P = gen.make_problem(spec["problem"])
    Q = gen.make_problem({"family": "qp", "n": P.n, "seed": spec["problem"]["seed"] + 7, "cond": 10.0, "box": spec["inner_box"], "start": "interior"})
    tags = dict(family=P.spec["family"], kind="nested_callback", mode=str(spec["jac"]))
    name = f"{P.spec['family']} n={P.n} jac={spec['jac']} with a callback running an independent {spec['inner_jac']} optimisation"
    cfg = dict(jac=spec["jac"], maxcor=spec["maxcor"], maxls=20, ftol=0.0, gtol=1e-10, maxfun=100000, maxiter=spec["K"])
    qcfg = dict(jac=spec["inner_jac"], maxcor=3, maxiter=2, eps=spec["inner_eps"], finite_diff_rel_step=spec["inner_rel"], maxfun=500)

    def on_cb(i, xk, state):
        probes.run_min(Q, qcfg)
        return False

    a = probes.run_min(P, cfg)
    b = probes.run_min(P, dict(cfg, cb="never"), hooks={"on_cb": on_cb})
    out.count("callback_free_runs_compared")
    out.count("callback_free_runs_compared_with_nested_run_in_callback")
    if (a.exc is None) != (b.exc is None):
        out.violate("callback_alters_run", f"{name}: one of the two runs raised ({a.exc!r} / {b.exc!r})", **tags)
        return
    if a.exc is not None:
        out.count("runs_raised")
        return
    bad = probes.diff_states(a.snap, b.snap)
    same_log = len(a.evals) == len(b.evals) and all(u[0] == v[0] and np.array_equal(u[1], v[1]) for u, v in zip(a.evals, b.evals))
    if bad or not same_log:
        k = next((i for i, (u, v) in enumerate(zip(a.evals, b.evals)) if not np.array_equal(u[1], v[1])), min(len(a.evals), len(b.evals)))
        out.violate("callback_alters_run", f"{name}: with the callback (which returns False) fields {bad} / the evaluation log differ from the run without "
                    f"callback (first different evaluation point #{k} of {len(a.evals)}/{len(b.evals)})", **tags)
        return
    out.nontrivial = len(b.cb) >= 2
    out.key = f"nested_callback/{P.spec['family']}/{P.spec['seed']}/{spec['jac']}/{spec['inner_jac']}"
    out.sample = dict(spec=spec, callbacks=len(b.cb))


def run_refresh(spec, out):
    """Variables on length scales from 1e-8 to 1e16: now and then the middle matrix of the memory cannot be factorised and the run
    refreshes its memory (the state of that iteration carries no pair). A restart from exactly that state has nothing to restore:
    its next two iterates are those of the uninterrupted run, digit for digit."""
    P = gen.make_problem(spec["problem"])
    tags = dict(family=P.spec["family"], kind="refresh")
    base = dict(jac="callable", maxcor=spec["maxcor"], maxls=20, ftol=0.0, gtol=0.0, maxfun=100000)
    name = f"{P.spec['family']} n={P.n} maxcor={spec['maxcor']}"
    main_tr = probes.run_min(P, dict(base, maxiter=spec["K"], cb="never"))
    out.count("runs_on_variables_of_wildly_different_scales")
    if main_tr.exc is not None:
        out.count("runs_raised")
        return
    by_nit = {int(r["snap"]["nit"]): r for r in main_tr.cb}
    prev_pairs, prev_nit = None, None
    for r in main_tr.cb:
        k = int(r["snap"]["nit"])
        m = 0 if r["snap"]["sk"] is None else int(r["snap"]["sk"].shape[0])
        refreshed = prev_pairs is not None and prev_pairs >= 2 and m == 0 and k == prev_nit + 1
        prev_pairs, prev_nit = m, k
        if not refreshed:
            continue
        out.count("states_right_after_a_memory_refresh")
        st = r["ref"]
        for k_end in (k + 1, k + 2):
            if k_end not in by_nit:
                continue
            rs = probes.run_min(P, dict(base, maxiter=k_end), checkpoint=st, x0=np.array(st.x, dtype=float, copy=True))
            out.count("restarts_from_retained_state")
            out.count("restarts_from_states_right_after_a_memory_refresh")
            if rs.exc is not None:
                out.violate("restart_from_retained_state_raised", f"{name}: restart from the state of iteration {k} (memory just refreshed) raised {rs.exc!r}", **tags)
                return
            bad = probes.diff_states(rs.snap, by_nit[k_end]["snap"], fields=("x", "fun", "jac", "nfev", "njev", "nit"))
            if bad and relerr(rs.snap["x"], by_nit[k_end]["snap"]["x"]) > 1e-9:
                out.violate("recovery_differs_from_uninterrupted_run", f"{name}: the memory was refreshed in iteration {k} (its state carries no pair); a restart from "
                            f"that state up to iteration {k_end} differs from the uninterrupted run in {bad} (x by "
                            f"{relerr(rs.snap['x'], by_nit[k_end]['snap']['x']):.3e}): the run went on with something the state does not carry", **tags)
                return
            out.nontrivial = True
    out.key = f"refresh/{P.spec['seed']}/{spec['maxcor']}"
    out.sample = dict(spec=spec, callbacks=len(main_tr.cb))


def run_fd_restart(spec, out):
    P = gen.make_problem(spec["problem"])
    tags = dict(family=P.spec["family"], kind="fd_restart", mode=str(spec["jac"]))
    base = dict(jac=spec["jac"], maxcor=spec["maxcor"], maxls=20, ftol=0.0, gtol=1e-10, maxfun=100000, eps=spec["eps"])
    if spec["jac"] is not None and spec["rel"] is not None:
        base["finite_diff_rel_step"] = spec["rel"]
    name = f"{P.spec['family']} n={P.n} jac={spec['jac']} rel_step={spec['rel']} eps={spec['eps']:g}"
    main_tr = probes.run_min(P, dict(base, maxiter=spec["K"], cb="never"))
    if main_tr.exc is not None:
        out.count("runs_raised")
        return
    out.count("callback_states", len(main_tr.cb))
    for j, rec in enumerate(main_tr.cb):
        k = int(rec["snap"]["nit"])
        if k >= spec["K"]:
            continue
        want = probes.run_min(P, dict(base, maxiter=k + 1))
        st = rec["ref"]
        rs = probes.run_min(P, dict(base, maxiter=k + 1), checkpoint=st, x0=np.array(st.x, dtype=float, copy=True))
        out.count("restarts_from_retained_state")
        out.count("finite_difference_restarts_from_retained_state")
        if rs.exc is not None or want.exc is not None:
            out.violate("restart_from_retained_state_raised", f"{name}: restart from the state of callback #{j} raised {(rs.exc or want.exc)!r}", **tags)
            return
        e = relerr(rs.result.x, want.result.x)
        out.maxi("max_fd_recovery_relerr", e)
        if rs.result.nit == want.result.nit and not (e <= 1e-6):
            if (rec["snap"]["sk"] is not None and rec["snap"]["sk"].shape[0] > P.n) or probes.grazes_bound(st.x, P.lb, P.ub):
                out.count("skipped_rounding_sensitive_step")
                continue
            out.violate("recovery_differs_from_uninterrupted_run", f"{name}: restart from the state of callback #{j} (nit={k}) gives an iterate {k + 1} that differs by "
                        f"{e:.3e} (relative) from the uninterrupted run's (finite-difference tolerance 1e-6)", **tags)
            return
    out.nontrivial = len(main_tr.cb) >= 2
    out.key = f"fd_restart/{P.spec['family']}/{P.spec['seed']}/{spec['jac']}/{spec['rel']}"
    out.sample = dict(spec=spec, callbacks=len(main_tr.cb))


def e2e_key(msg):
    from ..e2e import MSG_KEY

    return MSG_KEY.get(msg, "OTHER")


def run(spec):
    out = Outcome()
    if spec.get("kind") == "ufd_callback":
        run_ufd_callback(spec, out)
        return out
    if spec.get("kind") == "fd_restart":
        run_fd_restart(spec, out)
        return out
    if spec.get("kind") == "refresh":
        run_refresh(spec, out)
        return out
    if spec.get("kind") == "nested_callback":
        run_nested_callback(spec, out)
        return out
    P = gen.make_problem(spec["problem"])
    K = spec["K"]
    base = dict(jac="callable", maxcor=spec["maxcor"], maxls=spec["maxls"], ftol=0.0, gtol=1e-12, maxfun=100000)
    if spec.get("target_tie"):
        # a target equal, to the last bit, to the objective value of a later iterate (taken from an earlier run of the same problem):
        # the run and every restart stop there
        pre = probes.run_min(P, dict(base, maxiter=int(spec["target_tie"])))
        if pre.exc is None and pre.result.nit == int(spec["target_tie"]) and np.isfinite(pre.result.fun):
            base["ftarget"] = float(pre.result.fun) / (float(spec["scaler"]) if spec.get("scaler") else 1.0) if not spec.get("scaler") else None
            if base["ftarget"] is None:
                base.pop("ftarget")
            else:
                out.count("problems_with_a_target_tying_with_the_value_of_an_iterate")
    if spec.get("ls"):
        base.update(spec["ls"])  # non-default line-search constants / user step cap, the same in the run and in every restart
        out.count("problems_with_non_default_line_search_constants")
    if spec.get("reuse_grad_buffer"):
        base["reuse_grad_buffer"] = True
        out.count("problems_with_reused_gradient_buffer")
    if int(P.spec["seed"]) % 5 == 4:
        # the run and every restart traced through the user's logger (DEBUG level, or never configured below WARNING) at a verbosity at
        # which every routine reports: diagnostics must not evaluate anything
        base.update(logger=[True, "WARNING"][int(P.spec["seed"]) // 5 % 2], iprint=int([99, 101, 1000][int(P.spec["seed"]) // 10 % 3]))
        out.count("problems_traced_through_a_logger")
    if spec.get("multi_scale"):
        base["gtol"] = 0.0
        out.count("problems_with_variables_on_length_scales_1e-8_to_1e16")
    if spec.get("scaler"):
        # snapshot and maxiter=k run are compared in the same (scaled) units; the recovery restart is made on the explicitly
        # scaled objective without scaler, which is what the state's values refer to
        base["scaler"] = spec["scaler"]
        out.count("problems_with_gradient_scaler")
    tags = dict(family=P.spec["family"])
    keys = set()
    name = f"{P.spec['family']} n={P.n} maxcor={spec['maxcor']} maxls={spec['maxls']}"

    # reference run with a recording callback; at every callback all states kept earlier are re-read
    from lbfgsb import minimize_lbfgsb

    holder = {}

    def on_cb(i, xk, state):
        for j2, rec in enumerate(holder["tr"].cb[:i]):
            out.count("retained_states_rechecked")
            if not out.violations:
                judge_retained(out, rec, f"{name}: state of callback #{j2} re-read during callback #{i}", dict(tags, when="later_callback"))
        return False

    main_tr = probes.Trace()
    holder["tr"] = main_tr
    kw = probes.build_kwargs(P, dict(base, maxiter=K, cb="never"), main_tr, hooks={"on_cb": on_cb})
    old = np.seterr(all="ignore")
    try:
        main_tr.result = minimize_lbfgsb(**kw)
        main_tr.snap = probes.snap_state(main_tr.result)
    except Exception as e:
        main_tr.exc = e
    finally:
        np.seterr(**old)
    if main_tr.exc is not None:
        out.count("runs_raised")
        out.sample = dict(spec=spec, raised=repr(main_tr.exc))
        return out
    for j, rec in enumerate(main_tr.cb):
        out.count("retained_states_rechecked")
        if not out.violations:
            judge_retained(out, rec, f"{name}: state of callback #{j} re-read after the run", dict(tags, when="end"))
    out.count("callback_states", len(main_tr.cb))

    # (c) a callback returning False does not alter the run
    plain = probes.run_min(P, dict(base, maxiter=K))
    out.count("callback_free_runs_compared")
    if plain.exc is None:
        bad = probes.diff_states(plain.snap, main_tr.snap)
        same_log = len(plain.evals) == len(main_tr.evals) and all(
            a[0] == b[0] and np.array_equal(a[1], b[1]) for a, b in zip(plain.evals, main_tr.evals))
        if bad or not same_log:
            out.violate("callback_alters_run", f"{name}: with a callback returning False fields {bad} / evaluation log "
                        f"({len(main_tr.evals)} vs {len(plain.evals)} calls) differ from the run without callback", **tags)
    if out.violations:
        out.sample = dict(spec=spec)
        return out

    # (a) snapshot k == run(maxiter = state.nit)
    runs = {}

    def full(k):
        if k not in runs:
            runs[k] = probes.run_min(P, dict(base, maxiter=k))
        return runs[k]

    for j, rec in enumerate(main_tr.cb):
        k = int(rec["snap"]["nit"])
        ref = full(k)
        out.count("states_vs_maxiter_run")
        if ref.exc is not None:
            continue
        if not judge_snapshot(out, rec["snap"], ref.snap, f"{name}: callback #{j} (state.nit={k})", dict(tags, what="snapshot")):
            break
        if not np.array_equal(rec["xk"], rec["snap"]["x"]):
            out.violate("xk_differs_from_state_x", f"{name}: callback #{j}: xk != state.x", **tags)
            break
    if out.violations:
        out.sample = dict(spec=spec)
        return out
    # states are numbered by iteration: without failed line searches the j-th callback has nit == j+1
    nits = [int(r["snap"]["nit"]) for r in main_tr.cb]
    if nits != sorted(set(nits)):
        out.violate("callback_nit_not_increasing", f"{name}: state.nit sequence {nits}", **tags)

    # (e) every retained state followed to the end of the run: the continuation must go through the same iterates and end the
    # same way (same iteration count, same termination reason) as the uninterrupted run, as long as rounding has not separated them
    main_by_nit = {int(r["snap"]["nit"]): r["snap"]["x"] for r in main_tr.cb}
    # first iteration of the uninterrupted run that lies in the round-off regime (decrease of the objective below 1e-9 relative, or
    # projected gradient below 1e-6): from there on whether a line search finds a lower point is decided by rounding, and so are
    # the reported iterations and the termination reason
    horizon = K + 1
    prev_f = None
    for r in main_tr.cb:
        fk = float(r["snap"]["fun"])
        pgk = gen.pg_inf(np.asarray(r["snap"]["x"], dtype=float), np.asarray(r["snap"]["jac"], dtype=float), P.lb, P.ub)
        if (prev_f is not None and not (prev_f - fk > 1e-9 * max(1.0, abs(prev_f), abs(fk)))) or not (pgk > 1e-6 * max(1.0, abs(fk))):
            horizon = int(r["snap"]["nit"])
            break
        prev_f = fk
    # iterations of the uninterrupted run whose curvature pair was stored (newest pair == x_m - x_(m-1)); when a pair is rejected the
    # run keeps an older base point that the state cannot carry (known_findings.json, C12-skipped-update-base-point; DESIGN.md C06):
    # the run and any restart part ways one iteration later, so only rejection-free continuations are judged here
    stored = []
    prev_x = np.clip(P.x0, P.lb, P.ub)
    for r in main_tr.cb:
        sk = r["snap"]["sk"]
        stored.append(bool(sk is not None and sk.shape[0] >= 1 and np.array_equal(sk[-1], r["snap"]["x"] - prev_x)))
        prev_x = r["snap"]["x"]
    for j, rec in enumerate(main_tr.cb):
        st = rec["ref"]
        k = int(rec["snap"]["nit"])
        if k >= K:
            continue
        if base.get("ftarget") is not None and float(rec["snap"]["fun"]) != float(base["ftarget"]):
            # the target ties with the value of ONE iterate of the uninterrupted run to the last bit; a continuation from an earlier state
            # reaches that iterate up to rounding only, and whether it then meets the target is decided by that rounding. Only the
            # continuation from the tying state itself (which holds the value exactly) is judged
            out.count("continuations_towards_an_exact_tie_not_judged")
            continue
        if not all(stored[m] for m in range(j, len(main_tr.cb)) if int(main_tr.cb[m]["snap"]["nit"]) < horizon):
            out.count("continuations_after_a_rejected_pair_not_judged")
            continue
        rbase = dict(base)
        if rbase.pop("scaler", None) is not None:
            rbase["explicit_scale"] = spec["scaler"]
        rs = probes.run_min(P, dict(rbase, maxiter=K, cb="never"), checkpoint=st, x0=np.array(st.x, dtype=float, copy=True))
        out.count("continuations_followed_to_the_end")
        if rs.exc is not None:
            out.violate("restart_from_retained_state_raised", f"{name}: continuation from the state of callback #{j} raised {rs.exc!r}", **tags)
            break
        # the states handed out DURING the continuation are states of the whole run: their counters are those a continuation limited
        # to that many iterations returns, i.e. the kept state's counters plus the calls made since
        for j2, r2 in enumerate(rs.cb):
            out.count("states_of_continued_runs_checked_for_their_counters")
            if int(r2["snap"]["nfev"]) != int(st.nfev) + int(r2["nf"]) or int(r2["snap"]["njev"]) != int(st.njev) + int(r2["ng"]):
                out.violate("state_differs_from_maxiter_run", f"{name}: continuation from the state of callback #{j} (nfev={st.nfev}, njev={st.njev}): the state handed to its "
                            f"callback #{j2} reports nfev={r2['snap']['nfev']}, njev={r2['snap']['njev']} after {r2['nf']} objective and {r2['ng']} gradient calls "
                            f"of the continuation", **dict(tags, what="snapshot_in_continuation"))
                break
        if out.violations:
            break
        diverged = False
        for r2 in rs.cb:
            m = int(r2["snap"]["nit"])
            if m not in main_by_nit:
                continue
            if relerr(r2["snap"]["x"], main_by_nit[m]) > 1e-6:
                diverged = True
                break
        nits_main = sorted(m for m in main_by_nit if k < m < horizon)
        nits_rs = sorted(int(r2["snap"]["nit"]) for r2 in rs.cb if int(r2["snap"]["nit"]) < horizon)
        if k + 1 >= horizon:
            out.count("continuations_in_round_off_regime")
            continue
        if diverged or (rec["snap"]["sk"] is not None and rec["snap"]["sk"].shape[0] > P.n) or probes.grazes_bound(st.x, P.lb, P.ub):
            out.count("continuations_separated_by_rounding")
            continue
        out.count("continuations_compared_to_the_end")
        if main_tr.snap["message"] == MESSAGES["ABNORMAL"] or any(b - a > 1 for a, b in zip([k] + nits_main, nits_main)):
            out.count("continuations_through_a_failed_line_search")
        ends_differ = (int(rs.snap["nit"]) != int(main_tr.snap["nit"]) or rs.snap["message"] != main_tr.snap["message"])
        if int(main_tr.snap["nit"]) >= horizon and int(rs.snap["nit"]) >= horizon:
            ends_differ = False  # both end inside the round-off regime: not judged
        if nits_rs != nits_main or ends_differ:
            out.violate("continuation_ends_differently", f"{name}: restarted from the state of callback #{j} (nit={k}) the run reports iterations {nits_rs} and ends at "
                        f"nit={rs.snap['nit']} with {rs.snap['message']!r}; the uninterrupted run reports {nits_main} and ends at nit={main_tr.snap['nit']} with "
                        f"{main_tr.snap['message']!r} (iterations below {horizon} compared), although the iterates they share agree to 1e-6: the continuation depends on something the state does not carry", **tags)
            break
    if out.violations:
        out.sample = dict(spec=spec)
        return out

    # (d) crash after callback k, restart from the retained (referenced) state
    for j, rec in enumerate(main_tr.cb):
        k = int(rec["snap"]["nit"])
        if k >= K or (spec.get("long") and j >= 4):
            continue
        nxt = full(k + 1)
        if nxt.exc is not None or nxt.result.message != MESSAGES["ITER"]:
            continue
        hi = main_tr.cb[j + 2]["nf"] if j + 2 < len(main_tr.cb) else main_tr.nf
        for c in range(rec["nf"], hi):
            held = {}

            def keep(i, xk, state, _j=j):
                if i == _j:
                    held["state"] = state
                return False

            def crash(i, x, _c=c):
                if i == _c:
                    raise probes.SimulatedCrash(f"killed at objective call {_c}")

            tr = probes.Trace()
            kw = probes.build_kwargs(P, dict(base, maxiter=K, cb="never"), tr, hooks={"on_cb": keep, "on_f": crash})
            crashed = False
            old = np.seterr(all="ignore")
            try:
                minimize_lbfgsb(**kw)
            except probes.SimulatedCrash:
                crashed = True
            except Exception as e:
                out.violate("crash_converted", f"{name}: simulated crash at objective call {c} surfaced as {e!r}", **tags)
                break
            finally:
                np.seterr(**old)
            if not crashed:
                out.count("crash_not_reached")
                continue
            out.count("crash_points")
            st = held.get("state")
            if st is None:
                out.count("crash_before_state_kept")
                continue
            # the user's recovery: restart from what they kept
            try:
                x0 = np.array(st.x, dtype=float, copy=True) if c % 2 else st.x  # a copy, or (the idiom `x0=state.x`) the kept state's own array
                rbase = dict(base, x0_same_object=True)
                if rbase.pop("scaler", None) is not None:
                    rbase["explicit_scale"] = spec["scaler"]
                rs = probes.run_min(P, dict(rbase, maxiter=int(st.nit) + 1), checkpoint=st, x0=x0)
            except Exception as e:
                out.violate("restart_from_retained_state_raised", f"{name}: {e!r}", **tags)
                break
            out.count("restarts_from_retained_state")
            # the kept state must survive being used as a checkpoint (a second recovery attempt may follow)
            kept = probes.snap_state(st)
            if probes.diff_states(kept, rec["snap"]):
                out.violate("retained_state_changed", f"{name}: crash at objective call {c}; the state kept from callback #{j} changed while it was used "
                            f"as checkpoint of the restart: fields {probes.diff_states(kept, rec['snap'])}", when="restart", **tags)
                break
            if rs.exc is not None:
                out.violate("restart_from_retained_state_raised", f"{name}: crash at objective call {c} after callback #{j}; restart from the retained "
                            f"state raised {rs.exc!r}", **tags)
                break
            want = full(int(rec["snap"]["nit"]) + 1)
            e = relerr(rs.result.x, want.result.x)
            out.maxi("max_recovery_relerr", e)
            if not (e <= XT) and rs.result.nit == want.result.nit and rec["snap"]["sk"] is not None and rec["snap"]["sk"].shape[0] > P.n:
                out.count("skipped_rank_deficient_memory")  # more pairs than variables: singular compact system amplifies restoration rounding
                continue
            if not (e <= XT) and rs.result.nit == want.result.nit and probes.grazes_bound(st.x, P.lb, P.ub):
                out.count("skipped_rounding_sensitive_step")  # iterate within ulps of a bound, not on it: discrete decisions at their thresholds
                continue
            if not (e <= XT) or rs.result.nit != want.result.nit:
                out.violate("recovery_differs_from_uninterrupted_run", f"{name}: crash at objective call {c} (callback #{j} kept, nit={k}); restart from the retained "
                            f"state gives iterate {rs.result.nit} = {np.asarray(rs.result.x).tolist()} but the uninterrupted run has iterate "
                            f"{want.result.nit} = {np.asarray(want.result.x).tolist()} (rel. diff {e:.3e})", **tags)
                break
            if e <= 1e-12 and rs.result.nit == want.result.nit and int(rs.result.nfev) != int(want.result.nfev) and "scaler" not in base:
                # the same iterate to twelve digits, hence the same sequence of trial steps: the recovery must have cost the same number of
                # objective evaluations as the uninterrupted run (a restart evaluates nothing at its start point: value and gradient
                # come with the state)
                out.violate("recovery_differs_from_uninterrupted_run", f"{name}: crash at objective call {c} (callback #{j} kept, nit={k}); the restart from the retained "
                            f"state reaches the same iterate {rs.result.nit} but reports nfev={rs.result.nfev} where the uninterrupted run has {want.result.nfev}", **tags)
                break
            out.count("recoveries_compared_for_their_evaluation_count")
            if rec["snap"]["sk"] is not None and rec["snap"]["sk"].shape[0] >= 1:
                keys.add(f"{P.spec['family']}/{P.spec['seed']}/{spec['maxcor']}/{k}/{c}")
        if out.violations:
            break
    out.keys = keys
    out.nontrivial = bool(keys)
    out.sample = dict(spec=spec, callbacks=len(main_tr.cb), nits=nits[:12])
    return out


def selftest():
    from scipy.optimize import LbfgsInvHessProduct, OptimizeResult

    res = []
    x = np.array([1.0, 2.0])
    st = OptimizeResult(x=x, fun=1.0, jac=np.array([0.1, 0.2]), nfev=3, njev=3, nit=2, message="m", status=0, success=False,
                        hess_inv=LbfgsInvHessProduct(np.ones((1, 2)), np.ones((1, 2))))
    rec = dict(ref=st, snap=probes.snap_state(st), xk=x.copy(), xk_ref=x.copy())
    o = Outcome()
    judge_retained(o, rec, "selftest", {})
    res.append(("silent on an untouched state", not o.violations))
    x += 1.0  # the live iterate moves on: an aliased state.x follows it
    o = Outcome()
    judge_retained(o, rec, "selftest", {})
    res.append(("flags a state aliased with the live iterate", any(v["mech"] == "retained_state_changed" for v in o.violations)))
    o = Outcome()
    a = probes.snap_state(st)
    b = dict(a, nit=a["nit"] + 1)
    judge_snapshot(o, a, b, "selftest", {})
    res.append(("flags an off-by-one nit", bool(o.violations)))
    return res
