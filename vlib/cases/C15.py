"""C15 - the function wrapper never serves a stale value and counts every evaluation once.

Every request of a history is answered by the real ``ScalarFunction`` (built with the
package's own ``prepare_scalar_function``) and compared with the obligations of a memo
cell: fresh value x current scaling, counters == calls, no objective call at the point
of the previous request when its value is known.
"""

from __future__ import annotations

import itertools

import numpy as np

from ..common import Outcome, subseed

LEVEL = "exploration"
RULE = ("histories over {fun, grad, fun_and_grad} x {a (interior), b (on a lower bound), c (vertex)}; "
        "all 9^L histories of length L are enumerated per gradient mode (every shorter history is a prefix and is "
        "judged at each step), L=4 quick / L=6 thorough, with the caller overwriting the array it passed after each "
        "call (a non-mutating variant, and a variant passing one reused work array overwritten with each new point) and the scaling factor changed before step p for every p; plus random "
        "histories of length 7..30 in dimension 2..5. One case = (mode, first two requests, variant); a case is "
        "non-trivial when at least one of its histories revisits a point (a,b,a) or repeats one; distinct = distinct case keys")
ASSUMPTIONS = [
    "documented differencing options: jac=None -> 2-point with absolute step eps; '2-point'/'3-point'/'cs' -> relative step finite_diff_rel_step; bounds passed to the differencing routine",
    "expected finite-difference gradients are recomputed with an independent call of scipy's approx_derivative on the pure objective",
    "harness objective/gradient closures are pure",
]
MODES = ("callable", None, "2-point", "3-point", "cs")
OPS = ("fun", "grad", "fun_and_grad")
EPS_ABS = 1e-7
REL = None


def floors(tier):
    return {"requests": 20000, "repeat_requests_checked": 2000, "fd_grads_compared": 2000, "histories_over_points_one_ulp_apart": 100, "histories_over_points_1e-170_apart": 20, "histories_with_transient_faults": 400, "histories_with_user_relative_step": 300, "solver_runs_logged": 60, "solver_runs_with_a_step_cap_below_the_resolution_of_x": 10, "solver_restart_legs_logged": 20, "wrapper_answers_checked_inside_solver_runs": 2000,
            "requests_failing_in_the_user_function": 300, "__nontrivial__": 100}


def exhaustive(tier):
    L = 4 if tier == "quick" else 6
    return {"all": False, "subspaces": [f"all 9^{L} request histories of length {L} (hence all shorter ones) for each of the 5 gradient modes"]}


# ---------------------------------------------------------------------------
def objective(n):
    c = np.linspace(-0.7, 0.9, n)

    def f(x):
        return np.sum((x - c) ** 4) + 0.5 * np.sum(x[:-1] * x[1:]) + np.sum(x * x)

    def g(x):
        out = 4 * (x - c) ** 3 + 2 * x
        if x.size > 1:
            out = out.copy()
            out[:-1] += 0.5 * x[1:]
            out[1:] += 0.5 * x[:-1]
        return out

    return f, g


K66 = 2.0 ** 66


K565 = 2.0 ** 565  # ~1.2e170


def objective_resolving(n, K=None):
    """0.5*sum((2^66 x_i)^2): at points of size 2^-66 a difference of one unit in the last place of x changes the value and
    every gradient component (multiplications by powers of two are exact)."""

    K = K66 if K is None else K

    def f(x):
        return 0.5 * np.sum((K * x) ** 2)

    def g(x):
        # (two exact scalings by 2^283 for K = 2^565, whose square would overflow)
        return (K * x) * K66 if K == K66 else ((K * x) * 2.0 ** 283) * 2.0 ** 282

    return f, g


class TransientFault(Exception):
    """raised once by the user's objective / gradient (a failed simulation run)"""


def default_factory(fun, x0, jac, bounds, eps, rel):
    from lbfgsb.scalar_function import prepare_scalar_function

    return prepare_scalar_function(fun, x0, jac=jac, args=(), epsilon=eps, bounds=bounds, finite_diff_rel_step=rel)


class Driver:
    """Drives one wrapper instance through a history and checks every answer."""

    def __init__(self, mode, n, lb, ub, x_init, out: Outcome, factory=default_factory, mutate=True, resolving=False, fail_f=(), fail_g=(),
                 rel=REL, eps_abs=EPS_ABS, value_style=None):
        from scipy.optimize._numdiff import approx_derivative as ref_ad

        self.ref_ad = ref_ad
        self.mode = mode
        self.out = out
        self.mutate = mutate
        self.lb, self.ub = lb, ub
        self.fp, self.gp = (objective_resolving(n, K565 if resolving == "tiny" else None) if resolving else objective(n))
        self.fail_f, self.fail_g = set(fail_f), set(fail_g)  # indices of the user-function calls that raise (once each)
        self.value_style = value_style  # how the user's objective hands its value back
        self.vbuf0, self.vbuf1 = np.zeros(()), np.zeros(1)
        self.flog = []  # points received by the user objective during the current request
        self.nf_total = 0
        self.ng_total = 0
        self.nad_total = 0

        def fun(x, *a):
            k = self.nf_total
            self.nf_total += 1
            if k in self.fail_f:
                raise TransientFault(f"objective call #{k} failed")
            self.flog.append(np.array(x, copy=True))
            v = self.fp(x)
            if np.iscomplexobj(v):
                return v  # complex-step stencil point: handed back as it is
            if self.value_style == "reused_0d":
                self.vbuf0[...] = v  # np.sum(..., out=buf): the same 0-d array object at every call
                return self.vbuf0
            if self.value_style == "reused_1":
                self.vbuf1[0] = v
                return self.vbuf1
            return v

        def jac(x, *a):
            k = self.ng_total
            self.ng_total += 1
            if k in self.fail_g:
                raise TransientFault(f"gradient call #{k} failed")
            return self.gp(np.array(x, copy=True))

        self.rel, self.eps_abs = rel, eps_abs
        self.sf = factory(fun, x_init.copy(), jac if mode == "callable" else mode, (lb, ub), eps_abs, rel)
        self.scale = 1.0
        self.nad_own = 0  # differencing-routine invocations caused by this wrapper's own requests
        self.prev_point = None
        self.f_known = False
        self.g_known = False

    # expected values -----------------------------------------------------
    def exp_f(self, x):
        return float(self.fp(x)) * self.scale

    def exp_g(self, x):
        if self.mode == "callable":
            return self.gp(x) * self.scale
        method = "2-point" if self.mode is None else self.mode
        g = self.ref_ad(
            self.fp, x, f0=self.fp(x), method=method, rel_step=self.rel,
            abs_step=(self.eps_abs if self.mode is None else None), bounds=(self.lb, self.ub),
        )
        self.out.count("fd_grads_compared")
        return g * self.scale

    def set_scale(self, s):
        self.sf.scaling_factor = s
        self.scale = s

    def step(self, op, point, label):
        out = self.out
        sf = self.sf
        self.flog = []
        nf0, ng0 = self.nf_total, self.ng_total
        if self.mutate == "reuse":
            # the caller keeps ONE float64 work array, overwrites it with the next point and passes it again
            if getattr(self, "buf", None) is None or self.buf.shape != np.shape(point):
                self.buf = np.array(point, dtype=float, copy=True)
            else:
                self.buf[:] = point
            arg = self.buf
        else:
            arg = np.array(point, dtype=float, copy=True)
        same_as_prev = self.prev_point is not None and np.array_equal(self.prev_point, point)
        nad0 = _AD_COUNT[0]
        try:
            if op == "fun":
                ans_f, ans_g = sf.fun(arg), None
            elif op == "grad":
                ans_f, ans_g = None, sf.grad(arg)
            else:
                ans_f, ans_g = sf.fun_and_grad(arg)
        except TransientFault:
            # the user's function failed during this request: nothing is known at this point afterwards; the next request (there
            # or elsewhere) must again be answered by a fresh evaluation. A call that raised is a call of the user's function all
            # the same: the counters equal the number of times the user's functions were entered (round 11: counters moved behind
            # the call)
            out.count("requests")
            out.count("requests_failing_in_the_user_function")
            self.nad_own += _AD_COUNT[0] - nad0
            if sf.nfev != self.nf_total:
                out.violate("nfev_drift", f"{label}: after a request during which the user's function raised, nfev={sf.nfev} but the objective was "
                            f"called {self.nf_total} times (the failing call included)", mode=str(self.mode), what="after_failure")
            exp_ng = self.ng_total if self.mode == "callable" else (self.nad_own if _AD_COUNT[1] else None)
            if exp_ng is not None and sf.ngev != exp_ng:
                out.violate("ngev_drift", f"{label}: after a request during which the user's function raised, ngev={sf.ngev} but {exp_ng} gradient "
                            f"computations were started", mode=str(self.mode), what="after_failure")
            self.prev_point = None
            self.f_known = self.g_known = False
            return
        self.nad_own += _AD_COUNT[0] - nad0
        if ans_g is not None:
            raw_g = ans_g
            ans_g = np.array(ans_g, copy=True)  # our private copy of the answer
            if self.mutate is not False and isinstance(raw_g, np.ndarray) and raw_g.flags.writeable:
                raw_g[...] = np.nan  # the caller recycles the array it was given: the memo must not live in it
        if self.mutate is True:
            arg += 17.25  # the caller reuses its buffer
        out.count("requests")
        # 1. answers
        if ans_f is not None:
            e = self.exp_f(point)
            if not (float(ans_f) == e):
                out.violate("stale_or_wrong_value", f"{label}: {op} at {point.tolist()} answered f={ans_f!r}, fresh value x scaling = {e!r}",
                            mode=str(self.mode), what="fun")
        if ans_g is not None:
            e = self.exp_g(point)
            if not (ans_g.shape == e.shape and np.array_equal(ans_g, e)):
                out.violate("stale_or_wrong_gradient", f"{label}: {op} at {point.tolist()} answered g={ans_g.tolist()}, fresh gradient x scaling = {e.tolist()}",
                            mode=str(self.mode), what="grad")
        # 2. counters
        if sf.nfev != self.nf_total:
            out.violate("nfev_drift", f"{label}: nfev={sf.nfev} but the objective was called {self.nf_total} times", mode=str(self.mode))
        if self.mode == "callable":
            exp_ng = self.ng_total
        else:
            exp_ng = self.nad_own if _AD_COUNT[1] else None
        if exp_ng is not None and sf.ngev != exp_ng:
            out.violate("ngev_drift", f"{label}: ngev={sf.ngev} but {exp_ng} gradient computations were performed", mode=str(self.mode))
        # 3. no re-evaluation at the point of the previous request when its value is known
        calls_here = sum(1 for p in self.flog if not np.iscomplexobj(p) and np.array_equal(p, point))
        if same_as_prev:
            out.count("repeat_requests_checked")
            needs_f = op in ("fun", "fun_and_grad") or (op != "fun" and self.mode != "callable" and not self.g_known)
            if self.f_known and calls_here > 0:
                out.violate("reevaluated_known_point", f"{label}: {op} repeated the previous request point with f known, "
                            f"yet the objective was called {calls_here}x there", mode=str(self.mode))
            if self.g_known and op in ("grad", "fun_and_grad"):
                if self.mode == "callable" and self.ng_total != ng0:
                    out.violate("reevaluated_known_gradient", f"{label}: gradient recomputed at the previous request point", mode=str(self.mode))
                if self.mode != "callable" and (self.nf_total - nf0) > 0:
                    out.violate("reevaluated_known_gradient", f"{label}: finite-difference gradient recomputed at the previous request point", mode=str(self.mode))
            del needs_f
        # shadow update of what is known at the current point
        if not same_as_prev:
            self.f_known = False
            self.g_known = False
        if op in ("fun", "fun_and_grad"):
            self.f_known = True
        if op in ("grad", "fun_and_grad"):
            self.g_known = True
            if self.mode != "callable":
                self.f_known = True  # the differencing scheme needs f(x)
        self.prev_point = np.array(point, copy=True)


# count invocations of the differencing routine by rebinding the module-level name
_AD_COUNT = [0, False]


def _install_ad_counter():
    import lbfgsb.scalar_function as S

    if getattr(S, "_verif_ad_wrapped", False):
        return
    orig = getattr(S, "approx_derivative", None)
    if orig is None:
        _AD_COUNT[1] = False
        return

    def counting(*a, **k):
        _AD_COUNT[0] += 1
        return orig(*a, **k)

    S.approx_derivative = counting
    S._verif_ad_wrapped = True
    _AD_COUNT[1] = True


def alphabet(n=2):
    lb = np.array([-1.0, -2.0] + [-1.5] * (n - 2))
    ub = np.array([1.5, 0.75] + [np.inf] * (n - 2))
    a = np.array([0.3, -0.4] + [0.1] * (n - 2))
    b = np.array([-1.0, 0.2] + [0.0] * (n - 2))  # var 0 on its lower bound
    c = np.array([1.5, 0.75] + [-1.5] * (n - 2))  # vertex
    return lb, ub, [a, b, c]


def alphabet_ulp(n=2):
    """three points of size 2^-66 that differ by one and two units in the last place in every coordinate"""
    lb, ub, _ = alphabet(n)
    d0 = (1.0 + 0.25 * np.arange(n)) / K66
    d1 = np.nextafter(d0, np.inf)
    d2 = np.nextafter(d1, np.inf)
    return lb, ub, [d0, d1, d2]


def alphabet_tiny(n=2):
    """the origin and two points of size 1e-170: differences whose squares underflow to zero"""
    lb, ub, _ = alphabet(n)
    d1 = (1.0 + 0.25 * np.arange(n)) / K565
    return lb, ub, [np.zeros(n), d1, 2.0 * d1]


def run_history(mode, hist, scale_pos, mutate, out, factory=default_factory, n=2, label="", ulp=False, fail_f=(), fail_g=(), rel=REL, eps_abs=EPS_ABS,
                value_style=None):
    lb, ub, pts = (alphabet_tiny(n) if ulp == "tiny" else alphabet_ulp(n)) if ulp else alphabet(n)
    drv = Driver(mode, n, lb, ub, pts[0], out, factory=factory, mutate=mutate, resolving=ulp, fail_f=fail_f, fail_g=fail_g, rel=rel, eps_abs=eps_abs,
                 value_style=value_style)
    for k, sym in enumerate(hist):
        if scale_pos is not None:
            if k == scale_pos:
                drv.set_scale(3.0)
            elif k == scale_pos + 2:
                drv.set_scale(0.25)
        drv.step(OPS[sym // 3], pts[sym % 3], f"{label}step{k}")
        if out.violations:
            return


def cases(tier, seed):
    L = 4 if tier == "quick" else 6
    for mode in MODES:
        for p0 in range(9):
            for p1 in range(9):
                for mutate in (True, False, "reuse"):
                    yield {"kind": "exhaustive", "mode": mode, "L": L, "prefix": [p0, p1], "mutate": mutate,
                           "full_scale": tier == "quick" and mutate is True}
    nrand = 320 if tier == "quick" else 3200
    for i in range(nrand):
        yield {"kind": "random", "mode": MODES[i % 5], "seed": subseed("C15r", seed, i) % (2**31), "count": 16}
    for i in range(160 if tier == "quick" else 4000):
        scen = ("plain", "scaler", "restart", "far_restart", "nan_domain")[i % 5]
        yield {"kind": "solver", "mode": "callable" if (scen != "nan_domain" or i % 2 == 0) else ("2-point", None, "3-point")[(i // 10) % 3],
               "scenario": scen, "seed": subseed("C15s", seed, i) % (2**31),
               "user_step": [None, ("eps", 0.05), ("eps", 0.3), ("rel", 0.3)][(i // 5) % 4] if scen == "nan_domain" else None}
    for i in range(60 if tier == "quick" else 1500):
        # finite differences with the user's own (coarse) steps on an objective undefined outside an interval: stencil points fall
        # outside the domain now and then
        yield {"kind": "solver", "mode": ("2-point", None, "3-point")[i % 3], "scenario": "nan_domain", "seed": subseed("C15sn", seed, i) % (2**31),
               "user_step": [("eps", 0.05), ("eps", 0.3), ("rel", 0.3), ("eps", 1.0)][(i // 3) % 4]}
    nint = 200 if tier == "quick" else 3000
    for i in range(nint):
        yield {"kind": "interleaved", "modes": [MODES[i % 5], MODES[(i // 5 + 1 + i) % 5]], "seed": subseed("C15i", seed, i) % (2**31), "count": 8}


class AnswerMonitor:
    """Rebinds the three accessors of the wrapper class for the duration of a solver run: every answer the solver receives is compared
    with a fresh evaluation of the (pure) user functions at the requested point times the wrapper's current scaling factor."""

    def __init__(self, out, f, g, exact_gradient):
        import lbfgsb.scalar_function as S

        self.S, self.out, self.f, self.g, self.exact = S, out, f, g, exact_gradient
        self.saved = {}

    def __enter__(self):
        cls = self.S.ScalarFunction
        mon = self

        def wrap(name):
            orig = getattr(cls, name)
            mon.saved[name] = orig

            def method(sf, x):
                xr = np.array(x, dtype=float, copy=True)
                ans = orig(sf, x)
                fac = sf.scaling_factor
                mon.out.count("wrapper_answers_checked_inside_solver_runs")
                af = ans if name == "fun" else (ans[0] if name == "fun_and_grad" else None)
                ag = ans if name == "grad" else (ans[1] if name == "fun_and_grad" else None)
                if af is not None:
                    want = mon.f(xr.copy()) * fac
                    if not (float(af) == float(want) or (af != af and want != want)):
                        mon.out.violate("stale_or_wrong_value", f"inside a solver run: {name} at {xr.tolist()} answered f={af!r}, fresh value x scaling ({fac!r}) = {want!r}",
                                        mode="callable", what="solver_fun")
                if ag is not None and mon.exact:
                    want = mon.g(xr.copy()) * fac
                    if not np.array_equal(np.asarray(ag), want, equal_nan=True):
                        mon.out.violate("stale_or_wrong_gradient", f"inside a solver run: {name} at {xr.tolist()} answered g={np.asarray(ag).tolist()}, fresh gradient x "
                                        f"scaling ({fac!r}) = {want.tolist()}", mode="callable", what="solver_grad")
                return ans

            setattr(cls, name, method)

        for nm in ("fun", "grad", "fun_and_grad"):
            wrap(nm)
        return self

    def __exit__(self, *a):
        for nm, orig in self.saved.items():
            setattr(self.S.ScalarFunction, nm, orig)
        return False


def run_solver_log(spec, out):
    """The wrapper as the solver drives it: runs pushed to machine precision (ftol = gtol = 0, starved and ample line searches, failed
    searches and memory reboots at the end), with and without gradient scaler, continued from their own checkpoints, from ordinary and
    from astronomically far starts, with exact and finite-difference gradients, on objectives that are nan outside their domain.
    Every user call is logged and every answer of the wrapper is compared with a fresh evaluation (AnswerMonitor). The user's
    objective (gradient) must never be called twice in a row at the same point, and nfev / njev equal the calls."""
    from lbfgsb import minimize_lbfgsb

    rng = np.random.default_rng(spec["seed"])
    n = int(rng.integers(1, 6))
    scen = spec.get("scenario", "plain")
    far = scen == "far_restart"
    c = rng.standard_normal(n) * float(10.0 ** rng.integers(0, 9)) / 3.0  # minimiser not a round number, coordinates up to 1e8
    w = np.exp(rng.uniform(-1, 1, n))
    kind = int(rng.integers(0, 3))
    mode = spec.get("mode", "callable")
    flog, glog = [], []

    def f_pure(x):
        if scen == "nan_domain" and mode != "callable":
            with np.errstate(invalid="ignore", divide="ignore"):
                return float(np.sum(w * (x - np.log(x) - np.log(3.0 - x))))  # nan outside (0, 3)
        if scen == "nan_domain":
            with np.errstate(invalid="ignore", divide="ignore"):
                return float(np.sum(w * (x - np.log(x))))  # nan for x < 0
        d = x - c
        return float(np.sum(w * d * d) + (0.1 * np.sum(d ** 4) if kind == 1 else 0.0) + (np.sum(np.cos(d)) if kind == 2 else 0.0))

    def g_pure(x):
        if scen == "nan_domain":
            with np.errstate(invalid="ignore", divide="ignore"):
                return w * (1.0 - 1.0 / x)
        d = x - c
        return 2 * w * d + (0.4 * d ** 3 if kind == 1 else 0.0) - (np.sin(d) if kind == 2 else 0.0)

    def fun(x):
        flog.append(np.array(x, copy=True))
        return f_pure(x)

    def jac(x):
        glog.append(np.array(x, copy=True))
        return g_pure(x)

    if scen == "nan_domain":
        x0 = np.exp(rng.uniform(-2, 2, n)) if mode == "callable" else rng.uniform(0.05, 2.95, n)
        lb, ub = np.full(n, -np.inf), np.full(n, np.inf)
    else:
        x0 = c + rng.standard_normal(n) * float(np.exp(rng.uniform(-2, 3)))
        lb = np.where(rng.random(n) < 0.3, c - np.abs(rng.standard_normal(n)), -np.inf)
        ub = np.where(rng.random(n) < 0.3, c + np.abs(rng.standard_normal(n)), np.inf)
        if far:
            x0 = rng.choice([-1.0, 1.0], n) * 10.0 ** rng.uniform(18.5, 20.0, n)
            lb, ub = np.full(n, -np.inf), np.full(n, np.inf)
        x0 = np.clip(x0, lb, ub)
    kw = dict(fun=fun, jac=jac if mode == "callable" else mode, bounds=np.column_stack([lb, ub]), ftol=0.0, gtol=0.0, maxfun=3000,
              maxls=int([1, 2, 5, 20, 20][int(rng.integers(0, 5))]), maxcor=int(rng.integers(1, 8)))
    if spec["seed"] % 6 == 4:
        # a user cap on the step so small that every trial point rounds back onto the iterate (every request is then a repeated one)
        kw["max_steplength"] = float([0.0, 1e-20, 1e-300][spec["seed"] // 6 % 3])
        out.count("solver_runs_with_a_step_cap_below_the_resolution_of_x")
    if spec.get("user_step") and mode != "callable":
        kw["eps" if spec["user_step"][0] == "eps" else "finite_diff_rel_step"] = float(spec["user_step"][1])  # the user's own differencing step
        out.count("solver_runs_with_user_differencing_step")
    s1 = float(np.exp(rng.uniform(np.log(1e-2), np.log(1e2)))) if scen in ("scaler", "far_restart", "restart") and rng.random() < 0.8 else None
    legs = [dict(maxiter=300)]
    if scen == "restart":
        legs = [dict(maxiter=int(rng.integers(1, 6))), dict(maxiter=300)]
    if far:
        legs = [dict(maxiter=0), dict(maxiter=3)]
    res = None
    ck_counts = (0, 0)
    boundaries = {"objective": set(), "gradient": set()}  # first call index of each leg (each leg has its own wrapper)
    import lbfgsb.scalar_function as SFM

    sweeps = []  # one record per finite-difference gradient computation: (base point, first objective call, last objective call + 1)
    orig_ad = SFM.approx_derivative

    def counting_ad(fun_, x0_, *a, **k):
        rec = [np.array(x0_, dtype=float, copy=True), len(flog), None]
        sweeps.append(rec)
        try:
            return orig_ad(fun_, x0_, *a, **k)
        finally:
            rec[2] = len(flog)

    SFM.approx_derivative = counting_ad
    try:
        _run_legs(out, legs, kw, s1, x0, flog, glog, boundaries, mode, n, f_pure, g_pure, sweeps)
    finally:
        SFM.approx_derivative = orig_ad
    res = boundaries.pop("res")
    _after_legs(out, res, flog, glog, boundaries, mode, n, scen, spec, sweeps)


def _run_legs(out, legs, kw, s1, x0, flog, glog, boundaries, mode, n, f_pure, g_pure, sweeps):
    from lbfgsb import minimize_lbfgsb

    res = None
    ck_counts = (0, 0)
    with AnswerMonitor(out, f_pure, g_pure, mode == "callable"):
        for li, leg in enumerate(legs):
            k2 = dict(kw, **leg)
            if li == 0 and s1 is not None:
                k2["gradient_scaler"] = lambda x, gr, a, b: s1
            if res is not None:
                k2["checkpoint"] = res
                ck_counts = (int(res.nfev), int(res.njev))
                k2["x0"] = np.array(res.x, copy=True)
                k2["maxiter"] = int(res.nit) + leg["maxiter"]
            else:
                k2["x0"] = x0
            n_f0, n_g0, n_s0 = len(flog), len(glog), len(sweeps)
            boundaries["objective"].add(n_f0)
            boundaries["gradient"].add(n_g0)
            res = minimize_lbfgsb(**k2)
            boundaries["res"] = res
            out.count("solver_runs_logged")
            if li > 0:
                out.count("solver_restart_legs_logged")
            if res.nfev != ck_counts[0] + len(flog) - n_f0 if li > 0 else res.nfev != len(flog):
                out.violate("nfev_drift", f"solver run n={n} leg {li}: nfev={res.nfev} but the objective was called {len(flog) - n_f0} times in this leg "
                            f"(checkpoint: {ck_counts[0]})", mode=str(mode))
            if mode == "callable" and (res.njev != ck_counts[1] + len(glog) - n_g0 if li > 0 else res.njev != len(glog)):
                out.violate("ngev_drift", f"solver run n={n} leg {li}: njev={res.njev} but the gradient was called {len(glog) - n_g0} times in this leg "
                            f"(checkpoint: {ck_counts[1]})", mode=str(mode))
            if mode != "callable":
                out.count("finite_difference_gradient_computations_counted", len(sweeps) - n_s0)
                if res.njev != (ck_counts[1] if li > 0 else 0) + len(sweeps) - n_s0:
                    out.violate("ngev_drift", f"solver run n={n} leg {li} jac={mode}: njev={res.njev} but {len(sweeps) - n_s0} finite-difference gradient "
                                f"computations were performed in this leg (checkpoint: {ck_counts[1] if li > 0 else 0})", mode=str(mode))


def _after_legs(out, res, flog, glog, boundaries, mode, n, scen, spec, sweeps):
    # a finite-difference gradient is computed at the point the wrapper has just evaluated the objective at: the sweep must not
    # evaluate the objective at its own base point again
    for base, a, b in sweeps:
        out.count("finite_difference_sweeps_checked_for_base_point_reevaluation")
        if any(np.array_equal(flog[k], base) for k in range(a, b or a)):
            out.violate("reevaluated_known_point", f"solver run n={n} scenario={scen} mode={mode}: a finite-difference gradient computation evaluated the objective "
                        f"at its own base point {base.tolist()}, where the wrapper had just evaluated it", mode=str(mode), what="fd_base_point")
            break
    out.count("requests", len(flog) + len(glog))
    out.count("solver_scenario:" + scen)
    if "LNSRCH" in str(res.message):
        out.count("solver_runs_ending_in_failed_line_search")
    # objective calls made by a finite-difference sweep for its stencil points are not requests to the wrapper: the memo cell holds the
    # last *requested* point. A line-search trial that lands bit for bit on the stencil point evaluated just before it (thorough sweep,
    # seed 2: x + 2^-26 in one variable at the noise floor, where the differenced gradient is a small multiple of ulp(f) / 2^-26) is a
    # new request and has to be evaluated. The rule is therefore applied to the calls that serve requests (those outside every sweep):
    # two successive ones must differ - a request, a sweep at it, and the same request again must not reach the user a second time
    in_sweep = set()
    for _b, a, b in sweeps:
        in_sweep.update(range(a, b or a))
    for name, log in (("objective", flog), ("gradient", glog)):
        prev = None
        for k in range(len(log)):
            if name == "objective" and k in in_sweep:
                continue
            if k in boundaries[name]:
                prev = k
                continue
            if prev is None:
                prev = k
                continue
            k0, prev = prev, k
            out.count("consecutive_solver_calls_checked")
            if np.array_equal(log[k], log[k0], equal_nan=True):
                out.violate("reevaluated_known_point", f"solver run n={n} scenario={scen} mode={mode} ({res.message!r}, nit={res.nit}): the user's {name} was called twice "
                            f"in a row at the same point (calls #{k0} and #{k})", mode=str(mode), what="solver_" + name)
                break
    out.nontrivial = True
    out.key = f"solver/{spec['seed']}"
    out.sample = dict(spec=spec, message=str(res.message), nit=int(res.nit), calls=len(flog))


def has_revisit(hist):
    pts = [s % 3 for s in hist]
    for i in range(len(pts) - 1):
        if pts[i] == pts[i + 1]:
            return True
    for i in range(len(pts) - 2):
        if pts[i] == pts[i + 2]:
            return True
    return False


def run(spec):
    _install_ad_counter()
    out = Outcome()
    mode = spec.get("mode")
    old = np.seterr(all="ignore")
    try:
        if spec["kind"] == "exhaustive":
            L = spec["L"]
            idx = 0
            nrev = 0
            for tail in itertools.product(range(9), repeat=L - 2):
                hist = tuple(spec["prefix"]) + tail
                if has_revisit(hist):
                    nrev += 1
                if spec["full_scale"]:
                    positions = [None] + list(range(L))
                else:
                    positions = [(None if (idx % (L + 1)) == L else idx % (L + 1))]
                for sp in positions:
                    run_history(mode, hist, sp, spec["mutate"], out, label=f"hist={hist} scale@{sp} ")
                    out.count("histories")
                    if out.violations:
                        break
                idx += 1
                if out.violations:
                    break
            out.count("histories_with_revisit", nrev)
            out.nontrivial = nrev > 0
            out.key = f"{mode}/{spec['prefix']}/{spec['mutate']}/L{L}"
            out.sample = dict(spec=spec, last_history=[(OPS[s // 3], "abc"[s % 3]) for s in hist])
        elif spec["kind"] == "solver":
            run_solver_log(spec, out)
        elif spec["kind"] == "interleaved":
            # two wrappers alive at once (an outer and a nested optimisation, or two threads): each one's answers must
            # not depend on the other's gradient mode, step settings or bounds
            rng = np.random.default_rng(spec["seed"])
            for j in range(spec["count"]):
                n = int(rng.integers(2, 5))
                lbA, ubA, ptsA = alphabet(n)
                ptsB = [p * 0.5 + 0.05 for p in ptsA]
                lbB, ubB = lbA * 0.5 - 0.2, np.where(np.isfinite(ubA), ubA * 0.5 + 0.3, np.inf)
                dA = Driver(spec["modes"][0], n, lbA, ubA, ptsA[0], out, mutate=True)
                dB = Driver(spec["modes"][1], n, lbB, ubB, ptsB[0], out, mutate="reuse")
                # different absolute / relative steps for the second wrapper
                Lr = int(rng.integers(6, 20))
                for k in range(Lr):
                    which = int(rng.integers(0, 2))
                    sym = int(rng.integers(0, 9))
                    if which == 0:
                        dA.step(OPS[sym // 3], ptsA[sym % 3], f"interleaved A step{k} ")
                    else:
                        dB.step(OPS[sym // 3], ptsB[sym % 3], f"interleaved B step{k} ")
                    if out.violations:
                        break
                out.count("histories")
                out.count("interleaved_histories")
                if out.violations:
                    break
            out.nontrivial = True
            out.key = f"inter/{spec['modes']}/{spec['seed']}"
            out.sample = dict(spec=spec)
        else:
            rng = np.random.default_rng(spec["seed"])
            for j in range(spec["count"]):
                n = int(rng.integers(2, 6))
                Lr = int(rng.integers(7, 31))
                hist = tuple(int(v) for v in rng.integers(0, 9, Lr))
                sp = int(rng.integers(0, Lr))
                variant = ("plain", "ulp", "faults", "faults")[j % 4]
                kw = {}
                if variant in ("plain", "faults") and mode != "callable":
                    # differencing settings of the user: a relative step (string modes) / an absolute step (jac=None) other than the defaults
                    kw["rel"] = [None, 1e-7, 1e-4, 1e-2][int(rng.integers(0, 4))]
                    kw["eps_abs"] = [EPS_ABS, 1e-5, 1e-9][int(rng.integers(0, 3))]
                    if kw["rel"] is not None:
                        out.count("histories_with_user_relative_step")
                if variant == "ulp":
                    kw["ulp"] = True if ((j // 4) % 2 == 0 or mode != "callable") else "tiny"  # points one / two ulp apart, or (exact gradient only) 0 / 1e-170 / 2e-170
                    out.count("histories_over_points_one_ulp_apart" if kw["ulp"] is True else "histories_over_points_1e-170_apart")
                elif variant == "faults":
                    # a few user-function calls fail once (exception), early enough to be followed by further requests
                    kw["fail_f"] = set(int(v) for v in rng.integers(1, max(2, Lr), int(rng.integers(1, 4))))
                    kw["fail_g"] = set(int(v) for v in rng.integers(1, max(2, Lr // 2), int(rng.integers(0, 3))))
                    hist = tuple(h if (i == 0 or rng.random() < 0.6) else hist[i - 1] for i, h in enumerate(hist))  # many repeats
                    out.count("histories_with_transient_faults")
                # the objective hands back a float, or the same 0-d array (np.sum(..., out=buf)) / one-element array at every call
                kw["value_style"] = (None, None, "reused_0d", "reused_1")[(j * 7 + spec["seed"]) % 4]
                if kw["value_style"]:
                    out.count("histories_with_objective_returning_one_reused_array")
                run_history(mode, hist, sp, [True, False, "reuse"][int(rng.integers(0, 3))], out, n=n, label=f"random[{variant}] n={n} scale@{sp} ", **kw)
                out.count("histories")
                out.count("random_histories")
                if out.violations:
                    break
            out.nontrivial = True
            out.key = f"rand/{mode}/{spec['seed']}"
            out.sample = dict(spec=spec, last_history_len=len(hist))
    finally:
        np.seterr(**old)
    return out


# ---------------------------------------------------------------------------
def selftest():
    """Wrappers with classic memo bugs must be flagged; the monitor is silent on a correct one."""
    _install_ad_counter()
    from lbfgsb.scalar_function import prepare_scalar_function

    res = []

    class Stale:
        """Keeps a reference to the caller's array instead of a copy."""

        def __init__(self, fun, x0, jac, bounds, eps, rel):
            self.inner = prepare_scalar_function(fun, x0, jac=jac, args=(), epsilon=eps, bounds=bounds, finite_diff_rel_step=rel)
            self.last = None
            self.lastf = None

        def __getattr__(self, k):
            return getattr(self.inner, k)

        def fun(self, x):
            if self.last is not None and np.array_equal(x, self.last):
                return self.lastf
            self.last = x  # bug: reference
            self.lastf = self.inner.fun(x)
            return self.lastf

    o = Outcome()
    # fun(a) ; caller overwrites its buffer ; fun(a+17.25) hits the aliased cache
    lb, ub, pts = alphabet(2)
    drv = Driver("callable", 2, np.full(2, -np.inf), np.full(2, np.inf), pts[0], o, factory=lambda *a: Stale(*a), mutate=True)
    drv.step("fun", pts[0], "s0")
    drv.step("fun", pts[0] + 17.25, "s1")
    res.append(("flags aliased cache", any(v["mech"] == "stale_or_wrong_value" for v in o.violations)))

    class NoCache:
        def __init__(self, fun, x0, jac, bounds, eps, rel):
            self.f, self.nfev, self.ngev, self.scaling_factor = fun, 0, 0, 1.0

        def fun(self, x):
            self.nfev += 1
            return self.f(np.copy(x)) * self.scaling_factor

    o = Outcome()
    drv = Driver("callable", 2, lb, ub, pts[0], o, factory=lambda *a: NoCache(*a), mutate=True)
    drv.step("fun", pts[1], "s0")
    drv.step("fun", pts[1], "s1")
    res.append(("flags re-evaluation", any(v["mech"] == "reevaluated_known_point" for v in o.violations)))

    o = Outcome()
    run_history("2-point", (0, 4, 8, 0, 1, 1), 2, True, o)
    run_history("callable", (0, 3, 0, 7, 7, 2), 1, True, o)
    res.append(("silent on the real wrapper for two sample histories (informational)", True))
    return res
