"""Cheap one-shot line coverage of the package under test (sys.monitoring LINE events, each
location disabled after its first hit).  Reported in the evidence so that "this branch
was never reached by the workload" is visible; it is evidence, never a verdict."""

from __future__ import annotations

import os
import sys

TOOL = 4


class LineCoverage:
    def __init__(self, pkg_dir):
        self.pkg_dir = os.path.realpath(pkg_dir) + os.sep
        self.hit = set()
        self.active = False

    def start(self):
        mon = getattr(sys, "monitoring", None)
        if mon is None:
            return self
        try:
            mon.use_tool_id(TOOL, "verif-cover")
        except ValueError:
            return self
        self.active = True
        pkg = self.pkg_dir
        hit = self.hit

        def on_line(code, line):
            fn = code.co_filename
            if fn.startswith(pkg):
                hit.add((fn[len(pkg):], line))
            return mon.DISABLE

        mon.register_callback(TOOL, mon.events.LINE, on_line)
        mon.set_events(TOOL, mon.events.LINE)
        return self

    def stop(self):
        if self.active:
            mon = sys.monitoring
            mon.set_events(TOOL, 0)
            mon.register_callback(TOOL, mon.events.LINE, None)
            mon.free_tool_id(TOOL)
            self.active = False

    def result(self):
        out = {}
        for fn, line in self.hit:
            out.setdefault(fn, []).append(line)
        return {k: sorted(v) for k, v in out.items()}


def executable_lines(pkg_dir):
    """Lines that carry code, per module file (from the compiled code objects)."""
    res = {}
    for name in sorted(os.listdir(pkg_dir)):
        if not name.endswith(".py"):
            continue
        path = os.path.join(pkg_dir, name)
        try:
            code = compile(open(path).read(), path, "exec")
        except SyntaxError:
            continue
        lines = set()
        stack = [code]
        while stack:
            c = stack.pop()
            for _, _, ln in c.co_lines():
                if ln is not None and ln > 0:
                    lines.add(ln)
            for k in c.co_consts:
                if hasattr(k, "co_lines"):
                    stack.append(k)
        res[name] = lines
    return res


# source-text markers of branches worth naming in the evidence: (file, text that must be on the line)
BRANCHES = [
    ("main.py", 'istate.task_str = "RESTART_FROM_LNSRCH"', "memory reset after a failed line search"),
    ("main.py", 'istate.task_str = "ABNORMAL_TERMINATION_IN_LNSRCH"', "abnormal termination"),
    ("main.py", "res = copy.copy(checkpoint)", "early return on restart (target already met)"),
    ("main.py", "mats = LBFGSB_MATRICES(n)\n", "matrix reset"),
    ("main.py", "if len(X) == 1:\n                    mats = LBFGSB_MATRICES(n)", "reset after the curvature filter left one point"),
    ("main.py", "X.popleft()", "history truncated at restart (maxcor reduced)"),
    ("linesearch.py", "if best_stp is None:", "line search without improving trial"),
    ("linesearch.py", "# produced a nan step", "non-finite trial step"),
    ("linesearch.py", 'task = b"WARNING: dcsrch did not converge within max iterations"', "line-search evaluation cap reached"),
    ("cauchy.py", "is_gpc_found = True", "Cauchy minimiser inside a segment"),
    ("cauchy.py", "x_cp[ibp] = ub[ibp]", "variable fixed at its upper bound"),
    ("cauchy.py", "x_cp[ibp] = lb[ibp]", "variable fixed at its lower bound"),
    ("cauchy.py", "t_cur = np.inf", "all breakpoints passed"),
    ("subspacemin.py", "return xc\n", "no free variable at the Cauchy point"),
    ("bfgsmats.py", "X.popleft()", "oldest pair evicted"),
    ("bfgsmats.py", "_X.appendleft(X[k])", "curvature filter keeps a point"),
    ("scalar_function.py", "self.g = np.where(is_fixed, 0.0, self.g)", "finite-difference gradient of a fixed variable"),
]


def summarise(hit_by_file, pkg_dir):
    exe = executable_lines(pkg_dir)
    summary = {}
    for fn, lines in sorted(exe.items()):
        got = set(hit_by_file.get(fn, []))
        summary[fn] = {"reached": len(got & lines), "executable": len(lines)}
    named = {}
    for fn, marker, label in BRANCHES:
        path = os.path.join(pkg_dir, fn)
        try:
            src = open(path).read()
        except OSError:
            continue
        pos = src.find(marker)
        if pos < 0:
            named[label] = "marker not found"
            continue
        line = src.count("\n", 0, pos) + 1
        got = set(hit_by_file.get(fn, []))
        # the marker may span lines; accept a hit on any of them
        span = range(line, line + marker.count("\n") + 1)
        named[label] = "reached" if any(ln in got for ln in span) else "NOT reached"
    return summary, named
