"""Deterministic baton scheduler for threads running optimisations concurrently.

Exactly one managed thread is runnable at any time; the baton may move at *yield points*:
  - every call of a user objective (``point()`` called from the recorder hook), and/or
  - LINE events inside the lbfgsb package (``sys.monitoring``), with a seeded probability.
Who runs next is a pure function of the schedule (explicit list or seeded RNG), hence
every interleaving is replayable.
"""

from __future__ import annotations

import os
import random
import sys
import threading


class Baton:
    def __init__(self, nthreads, choose):
        """choose(alive_ids, current_id, step) -> id of the thread that runs next."""
        self.n = nthreads
        self.choose = choose
        self.sems = [threading.Semaphore(0) for _ in range(nthreads)]
        self.alive = [True] * nthreads
        self.ids = {}
        self.current = None
        self.step = 0
        self.switches = 0
        self.trace = []  # sequence of thread ids in order of execution slices
        self.results = [None] * nthreads
        self.errors = [None] * nthreads
        self.lock = threading.Lock()

    # -- called by managed threads ---------------------------------------
    def me(self):
        return self.ids.get(threading.get_ident())

    def point(self):
        """A yield point: possibly hand the baton to another thread."""
        i = self.me()
        if i is None or self.current != i:
            return
        alive = [k for k in range(self.n) if self.alive[k]]
        nxt = self.choose(alive, i, self.step)
        self.step += 1
        if nxt == i or nxt is None or not self.alive[nxt]:
            return
        self.switches += 1
        self.trace.append(nxt)
        self.current = nxt
        self.sems[nxt].release()
        self.sems[i].acquire()

    def _finish(self, i):
        self.alive[i] = False
        alive = [k for k in range(self.n) if self.alive[k]]
        if alive:
            nxt = self.choose(alive, i, self.step)
            if nxt is None or nxt not in alive:
                nxt = alive[0]
            self.step += 1
            self.trace.append(nxt)
            self.current = nxt
            self.sems[nxt].release()
        else:
            self.current = None

    def _body(self, i, fn):
        self.ids[threading.get_ident()] = i
        self.sems[i].acquire()
        try:
            self.results[i] = fn()
        except BaseException as e:  # noqa
            self.errors[i] = e
        finally:
            self._finish(i)

    def run(self, fns, first=0, timeout=300):
        ths = [threading.Thread(target=self._body, args=(i, fn), daemon=True) for i, fn in enumerate(fns)]
        for t in ths:
            t.start()
        self.current = first
        self.trace.append(first)
        self.sems[first].release()
        for t in ths:
            t.join(timeout)
        hung = [i for i, t in enumerate(ths) if t.is_alive()]
        return hung


def explicit_chooser(order):
    """order: list of thread ids; decision k picks order[k] (if alive), else stays."""
    def choose(alive, cur, step):
        if step < len(order):
            want = order[step]
            if want in alive:
                return want
        return cur if cur in alive else (alive[0] if alive else None)

    return choose


def random_chooser(seed, p_switch):
    rng = random.Random(seed)

    def choose(alive, cur, step):
        if cur in alive and rng.random() >= p_switch:
            return cur
        others = [a for a in alive if a != cur]
        if not others:
            return cur if cur in alive else None
        return others[rng.randrange(len(others))]

    return choose


class LinePreemption:
    """sys.monitoring LINE events inside the package under test become yield points."""

    TOOL = 3

    def __init__(self, baton, pkg_dir):
        self.baton = baton
        self.pkg_dir = os.path.realpath(pkg_dir) + os.sep
        self.events = 0
        self.active = False

    def __enter__(self):
        mon = sys.monitoring
        try:
            mon.use_tool_id(self.TOOL, "verif-sched")
        except ValueError:
            return self  # tool id taken: line-level preemption unavailable (counted by the caller)
        self.active = True

        def on_line(code, line):
            fn = code.co_filename
            if not fn.startswith(self.pkg_dir):
                return mon.DISABLE
            self.events += 1
            self.baton.point()
            return None

        mon.register_callback(self.TOOL, mon.events.LINE, on_line)
        mon.set_events(self.TOOL, mon.events.LINE)
        return self

    def __exit__(self, *a):
        if self.active:
            mon = sys.monitoring
            mon.set_events(self.TOOL, 0)
            mon.register_callback(self.TOOL, mon.events.LINE, None)
            mon.free_tool_id(self.TOOL)
            mon.restart_events()
            self.active = False
        return False
