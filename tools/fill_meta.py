#!/venv/bin/python
"""Fill what_changed / needs_to_manifest of seeded changes from tools/seed_descriptions.json ({id: [what, needs]})."""
import json, os

HERE = os.path.dirname(os.path.dirname(os.path.abspath(__file__)))
D = json.load(open(os.path.join(HERE, "tools", "seed_descriptions.json")))
for sid, v in D.items():
    p = os.path.join(HERE, "seeded", sid, "meta.json")
    if not os.path.exists(p):
        continue
    m = json.load(open(p))
    if m.get("what_changed") == v[0] and m.get("needs_to_manifest") == v[1]:
        continue
    m["what_changed"], m["needs_to_manifest"] = v
    json.dump(m, open(p, "w"), indent=1)
    print("filled", sid)
