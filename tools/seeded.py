#!/venv/bin/python
"""Evaluate seeded breaking changes (/verif/seeded/<id>/{patch.diff,demo.py,meta.json}).

For each selected change: copy /repo to a scratch directory outside /repo and /verif, apply
patch.diff there, confirm that (a) the repository's own test-suite still passes with it,
(b) the demonstration exits non-zero with it and zero without it, then run the quick (or
thorough) checks of the listed properties with VERIF_REPO=<scratch> and record which
fire.  /repo itself is never touched.

usage: tools/seeded.py [--only id[,id]] [--props C01,C02|all] [--tier quick] [--update-meta]
"""

import argparse
import glob
import json
import os
import shutil
import subprocess
import sys
import tempfile
import time

HERE = os.path.dirname(os.path.dirname(os.path.abspath(__file__)))
ALL = [f"C{i:02d}" for i in range(1, 21)]


def scratch(patch=None):
    root = tempfile.mkdtemp(prefix="lbfgsb_seed_", dir=os.environ.get("TMPDIR", "/tmp"))
    for d in ("lbfgsb", "tests"):
        shutil.copytree(os.path.join("/repo", d), os.path.join(root, d), ignore=shutil.ignore_patterns("__pycache__"))
    for fn in ("pyproject.toml", "tox.ini"):
        if os.path.exists(os.path.join("/repo", fn)):
            shutil.copy(os.path.join("/repo", fn), root)
    if patch:
        p = subprocess.run(["patch", "-p1", "--no-backup-if-mismatch", "-i", patch], cwd=root, capture_output=True, text=True)
        if p.returncode != 0:
            shutil.rmtree(root, ignore_errors=True)
            raise RuntimeError("patch does not apply: " + p.stdout[-400:] + p.stderr[-200:])
    return root


def suite(root):
    env = dict(os.environ, PYTHONPATH=root, PYTHONDONTWRITEBYTECODE="1", OMP_NUM_THREADS="1")
    env.pop("LBFGSB_VERIF", None)
    p = subprocess.run(["/venv/bin/python", "-m", "pytest", "-q", "-p", "no:cacheprovider", "--timeout=900", "tests"], cwd=root, env=env,
                       capture_output=True, text=True, timeout=1800)
    return p.returncode == 0, (p.stdout.strip().splitlines() or [""])[-1]


def demo(root, path):
    env = dict(os.environ, PYTHONPATH=root, PYTHONDONTWRITEBYTECODE="1", OMP_NUM_THREADS="1")
    p = subprocess.run(["/venv/bin/python", path], cwd=root, env=env, capture_output=True, text=True, timeout=900)
    return p.returncode, (p.stdout.strip().splitlines() or [""])[-1][:300]


def check(root, prop, tier, seed):
    env = dict(os.environ, VERIF_REPO=root, VERIF_EVIDENCE_DIR=os.path.join(root, "evidence"), VERIF_REPLAY_DIR=os.path.join(root, "replay"),
               VERIF_SEED=str(seed))
    t0 = time.time()
    p = subprocess.run([os.path.join(HERE, "check"), prop, "--tier", tier], cwd=HERE, env=env, capture_output=True, text=True, timeout=7200)
    lines = p.stdout.strip().splitlines()
    first = ""
    for i, l in enumerate(lines):
        if l.startswith("VIOLATION") and i + 1 < len(lines):
            first = lines[i + 1].strip()[:240]
            break
    return dict(exit=p.returncode, violations=sum(1 for l in lines if l.startswith("VIOLATION")), first=first, wall_s=round(time.time() - t0, 1))


def main():
    ap = argparse.ArgumentParser()
    ap.add_argument("--only", default=None)
    ap.add_argument("--own", default=None, help="comma list of properties: the changes written for them")
    ap.add_argument("--props", default=None, help="comma list, 'all', or default: the property named in meta.json")
    ap.add_argument("--tier", default="quick")
    ap.add_argument("--seed", type=int, default=0)
    ap.add_argument("--update-meta", action="store_true")
    ap.add_argument("--skip-confirm", action="store_true")
    a = ap.parse_args()
    dirs = [d for d in sorted(glob.glob(os.path.join(HERE, "seeded", "*"))) if os.path.isdir(d)]
    if a.own:
        dirs = [d for d in dirs if os.path.basename(d).split("-")[0] in a.own.split(",")]
    if a.only:
        want = set(a.only.split(","))
        dirs = [d for d in dirs if os.path.basename(d) in want]
    for d in dirs:
        sid = os.path.basename(d)
        meta = json.load(open(os.path.join(d, "meta.json")))
        patch = os.path.join(d, "patch.diff")
        demos = sorted(glob.glob(os.path.join(d, "demo*.py")))
        try:
            root = scratch(patch)
        except RuntimeError as e:
            print(f"[{sid}] PATCH DOES NOT APPLY: {e}")
            continue
        try:
            conf = {}
            if not a.skip_confirm:
                ok, tail = suite(root)
                conf["suite_passes_with_change"] = ok
                conf["suite"] = tail
                clean = scratch(None)
                try:
                    for dm in demos:
                        shutil.copy(dm, root)
                        shutil.copy(dm, clean)
                        rc1, o1 = demo(root, os.path.basename(dm))
                        rc0, o0 = demo(clean, os.path.basename(dm))
                        conf["demo_with_change"] = dict(exit=rc1, last=o1)
                        conf["demo_without_change"] = dict(exit=rc0, last=o0)
                finally:
                    shutil.rmtree(clean, ignore_errors=True)
                print(f"[{sid}] suite={'pass' if ok else 'FAIL'} demo with change exit={conf.get('demo_with_change', {}).get('exit')} "
                      f"without exit={conf.get('demo_without_change', {}).get('exit')}")
            props = ALL if a.props == "all" else (a.props.split(",") if a.props else [meta["property"]])
            results = {}
            for prop in props:
                r = check(root, prop, a.tier, a.seed)
                results[prop] = r
                status = "CAUGHT" if r["exit"] == 1 and r["violations"] else ("INCONCLUSIVE" if r["exit"] == 2 else "missed")
                print(f"[{sid}] {prop} {a.tier} seed={a.seed}: {status} ({r['wall_s']}s) {r['first']}")
            if a.update_meta:
                meta.setdefault("what_i_ran", {})
                if conf:
                    meta["what_i_ran"]["confirmation"] = conf
                det = meta.setdefault("detected_by", {})
                for prop, r in results.items():
                    det[f"{prop}:{a.tier}:seed{a.seed}"] = dict(caught=bool(r["exit"] == 1 and r["violations"]), exit=r["exit"], first=r["first"], wall_s=r["wall_s"])
                with open(os.path.join(d, "meta.json"), "w") as fh:
                    json.dump(meta, fh, indent=1)
                    fh.write("\n")
        finally:
            shutil.rmtree(root, ignore_errors=True)


if __name__ == "__main__":
    sys.exit(main())
