#!/venv/bin/python
"""Regenerate MANIFEST.json from the per-property metadata below and validate it."""

import json
import os
import sys

HERE = os.path.dirname(os.path.dirname(os.path.abspath(__file__)))

HOOK_COMMITS = []  # guarded source hooks in /repo (none: all probes attach from the harness)

CHECKS = {}


def C(pid, category, text, note, technique, design):
    CHECKS[pid] = dict(category=category, text=text, note=note, technique=technique, design=design)


TB = ("Trusted: NumPy/SciPy of the image, the harness's pure objective closures and dense reference models in "
      "vlib/oracles.py, CPython. Decides only the executions produced (seeded generators, VERIF_SEED).")

C("C15", "exploration",
  "Runtime monitor on the real ScalarFunction: every answer of every request history (all 9^L histories of length L over "
  "3 ops x 3 points, L=4 quick / 6 thorough, 5 gradient modes, caller-buffer mutation, scaling changes, plus long random "
  "histories) is compared bit-for-bit with a fresh evaluation, counters with the call log, and repeats must cost no objective call.",
  TB + " Finite-difference answers are compared with an independent approx_derivative call using the documented options.",
  "reference-model monitor over exhaustively enumerated call histories", "5 C15")
C("C19", "exploration",
  "Each exported gradient is compared with a 5-level Richardson numerical derivative of its function at thousands of generic "
  "and lattice points in dimensions 1..12; shape and real-scalar return are asserted.",
  TB, "numerical-derivative oracle over sampled inputs", "5 C19")

C("C01", "exploration",
  "Thousands of strictly convex box problems (three families, every box kind, starts on faces/vertices with outward gradients, every start "
  "activity pattern for small n) are solved by the real minimiser; the projected-gradient norm recomputed from the harness's own gradient "
  "must be at the tolerance / floating-point resolution level whatever message is returned.",
  TB + " Resolution estimate sqrt(L*eps*Fabs) with a calibrated factor 20 (largest ratio seen on correct code is reported).",
  "end-to-end oracle on returned points over generated workloads", "5 C01")
C("C02", "exploration",
  "Recorder around the user's objective/gradient/callback: every argument ever received (finite-difference stencil points included), every "
  "callback iterate/state and the result are compared exactly with the box over thousands of bounded runs in all five gradient modes.",
  TB, "boundary recorder + exact box assertion on every evaluation event", "5 C02")
C("C03", "exploration",
  "The objective is re-evaluated by the harness at x0, every callback iterate and the result of runs with tiny line-search / evaluation "
  "budgets and overflowing objectives; the sequence must be non-increasing exactly. Intercepted line searches count how many ended without convergence.",
  TB, "monotonicity monitor over recorded iterates", "5 C03")
C("C04", "exploration",
  "Every implication of the statement (message vs state, success flag, iteration/evaluation budgets, single invocation of callable stop "
  "criteria) is evaluated on each returned result over a sampled configuration lattice and on restarts below/at/above the checkpoint's nit.",
  TB, "implication monitor on returned results over a configuration lattice", "5 C04")
C("C05", "exploration",
  "fun/jac of every callback state and result are compared bit-for-bit with the pure closures at the reported x (times the scaler), nfev/njev "
  "with the call log, across chains of up to 4 restarts.",
  TB, "re-evaluation oracle + call-count conservation", "5 C05")
C("C06", "exploration",
  "For every split k of short runs: zero-iteration restart (same state, same most recent pairs), next iterate vs the uninterrupted run, chained "
  "restarts, and reduced maxcor vs a truncated checkpoint.",
  TB + " Continuation tolerance 1e-9 relative (observed 8e-15).", "differential monitor restart vs uninterrupted run at every split point", "5 C06")
C("C07", "fault_enumeration",
  "Every iteration of every explored run is a crash point: the state kept by reference is re-read later (no mutation), compared with "
  "run(maxiter=state.nit), and after a simulated kill at every later objective call the restart from it must reproduce the uninterrupted continuation.",
  TB + " Crash = BaseException raised from the objective.", "crash injection at every objective-call index + snapshot comparison", "5 C07")
C("C08", "exploration",
  "get_cauchy_point is called on every structural pattern (position x gradient sign x bound finiteness, n<=2 quick / n<=3 thorough) x memory "
  "sizes x tie variants and on random inputs, and intercepted inside real runs; point, pinning, feasibility, model decrease and auxiliary "
  "vector are compared with a dense reference.",
  TB + " Tolerances calibrated (point 1e-9 vs observed 5e-13; aux vector 1e-7 vs 1e-10).", "reference-model monitor on synthetic and intercepted calls", "5 C08")
C("C09", "exploration",
  "subspace_minimization (with get_freev) is fed reference Cauchy points on structural patterns and random inputs and intercepted in real runs; "
  "compared with a dense truncated reduced-Newton reference; active variables bit-unchanged; model decrease; descent.",
  TB, "reference-model monitor on synthetic and intercepted calls", "5 C09")
C("C10", "exploration",
  "Histories of up to 40 accepted/rejected candidate updates and every update intercepted in real runs are judged against a shadow FIFO memory "
  "and a dense BFGS recursion (equality, symmetry, Cholesky, secant); the matrix handed to the Cauchy routine is compared with the live deques.",
  TB + " Tolerance 1e3*(cond(B)+cond(middle matrix))*eps, calibrated (largest ratio 5.6).", "shadow-state + dense reference monitor over update histories", "5 C10")
C("C11", "exploration",
  "Direct calls of line_search on logged objectives (convex, oscillating, sinusoid, overflowing, finite-resolution plateaus): every evaluated "
  "point in the box, evaluations <= cap, returned step in (0, max feasible] and strictly downhill among the logged trials.",
  TB, "boundary recorder + postcondition monitor on direct calls", "5 C11")

C("C12", "exploration",
  "The ordered list of points at which the objective is evaluated by the port is compared with SciPy's L-BFGS-B (Algorithm 778) on "
  "unconstrained problems, relative 1e-6, until a documented deviation (detected from the port's intercepted line searches) fires; "
  "boundary-probing quartics flip an accept/reject decision when a line-search constant changes; the constants handed to the inner "
  "routines are read at the interception points; convex box problems are compared on the final value.",
  TB + " Reference = the SciPy build of the image; differences below 1e-6 over 12 iterations are invisible.",
  "differential trace monitor against a reference implementation", "5 C12")
C("C13", "exploration",
  "Identity update functions must leave result, callback states and the evaluation log bit-identical; objective switches (rescaling, "
  "regularisation weight, indefinite perturbations) at every update call index are followed by monitors on every later state (pairs are "
  "bit-exact differences of the rewritten gradients with curvature, newest point retained at the rewrite) and by a restart-equivalence check.",
  TB, "metamorphic + reference-chain monitor over recorded states", "5 C13")
C("C14", "exploration",
  "Every result is compared bit-for-bit with a solo baseline computed in a fresh interpreter: repeated and interleaved calls, two restarts "
  "from one checkpoint, read-only (frozen) inputs with fingerprints, all iprint x logger combinations, ALL interleavings of the objective "
  "calls of two short runs on two threads under a deterministic baton scheduler, seeded preemption at LINE events inside the lbfgsb "
  "modules (sys.monitoring), nested runs inside the objective.",
  TB + " One runnable thread at a time (interleavings, not parallelism).", "deterministic scheduler + write barriers + fresh-process differential", "5 C14")
C("C16", "exploration",
  "Bounded problems with active bounds (degenerate sides included) are solved in the four finite-difference modes and with the exact "
  "gradient: no exception, every stencil point inside the box exactly, nfev == objective calls, convex optimum values agree to 1e-6.",
  TB, "boundary recorder + differential monitor FD vs exact gradient", "5 C16")
C("C17", "exploration",
  "Pairs of runs (scaler s vs explicitly scaled objective): evaluation logs, every callback state and the result bit-identical; scaler "
  "invoked once with (clipped x0, unscaled gradient, bounds); target stop judged on the unscaled value; packaged scaler gives unit projected gradient.",
  TB + " Callable gradients only (finite differences of s*f are not bitwise s times those of f).", "metamorphic differential monitor over pairs of runs", "5 C17")
C("C18", "exploration",
  "For every callback state and result of generated runs (rejected updates, failed line searches, scaler, restarts with kept or reduced "
  "maxcor): #pairs <= maxcor, a chain of visited iterates reproduces sk/yk bit for bit, inherited pairs match the checkpoint to rounding, "
  "s.y > 0, dense operator SPD; extract_hess_inv_diag vs an independent dense recursion on synthetic pair sets.",
  TB, "chain-reconstruction monitor over recorded iterates + dense reference", "5 C18")
C("C20", "fault_enumeration",
  "For every call index of every user callable (objective, gradient, callback, update function, scaler, callable ftarget/gtol) of each explored "
  "run, one run is made in which exactly that call raises a prepared exception object (11-type alphabet): the caught exception must be that "
  "object, no result may be returned, and a clean re-run must reproduce the fresh-interpreter digest.",
  TB + " One open known finding (StopIteration absorbed by SciPy's stencil map()).", "exhaustive fault injection over call indices with identity oracle", "5 C20")

ALL = [f"C{i:02d}" for i in range(1, 21)]


def main():
    checks = []
    for pid in ALL:
        if pid not in CHECKS or not os.path.exists(os.path.join(HERE, "vlib", "cases", f"{pid}.py")):
            continue
        m = CHECKS[pid]
        checks.append({
            "property_id": pid,
            "quick_cmd": f"./check {pid} --tier quick",
            "thorough_cmd": f"./check {pid} --tier thorough",
            "evidence_file": f"/verif/evidence/{pid}.json",
            "replay_cmd_template": f"./check {pid} --replay {{path}}",
            "engine": "vlib",
            "level_claimed": {"category": m["category"], "text": m["text"], "design_ref": "DESIGN.md section " + m["design"]},
            "level_note": m["note"],
            "technique": "runtime monitoring: " + m["technique"],
        })
    claimed = {c["property_id"] for c in checks}
    manifest = {
        "version": 1,
        "setup_cmd": "./setup.sh",
        "hooks": {
            "guard": "LBFGSB_VERIF",
            "enable": "checks export LBFGSB_VERIF=1 and attach harness-side probes by rebinding module-level names of lbfgsb.main / "
                      "lbfgsb.scalar_function after import; the repository itself carries no hook code",
            "baseline_off_cmd": "cd /repo && env -u LBFGSB_VERIF /venv/bin/python -m pytest -ra -q -p no:cacheprovider --timeout=900 --continue-on-collection-errors",
            "source_commits": HOOK_COMMITS,
            "add_only": True,
        },
        "engines": [{
            "name": "vlib", "path": "/verif/vlib", "serves_properties": sorted(claimed),
            "kind_free_text": "runtime monitors: recorders around user callables, interception of inner routines, dense reference "
                              "models, fault injection, deterministic thread scheduler; sharded over 16 worker subprocesses",
        }],
        "checks": checks,
        "not_applicable": [{"property_id": p, "reason": "check not built in this revision (runtime monitoring applies; see DESIGN.md)"}
                           for p in ALL if p not in claimed],
        "notes": "All checks: ./check <id> --tier quick|thorough; exit 0 held, 1 VIOLATION, 2 INCONCLUSIVE (monitor floor not reached / watchdog). "
                 "VERIF_REPO selects the tree (default /repo); VERIF_SEED seeds every random choice.",
    }
    path = os.path.join(HERE, "MANIFEST.json")
    with open(path, "w") as fh:
        json.dump(manifest, fh, indent=1)
        fh.write("\n")
    try:
        import jsonschema

        schema = json.load(open("/root/.vp/MANIFEST.schema.json"))
        jsonschema.validate(manifest, schema)
        print("MANIFEST.json valid;", len(checks), "checks;", len(manifest["not_applicable"]), "not claimed")
    except ImportError:
        print("jsonschema unavailable; not validated")


if __name__ == "__main__":
    sys.exit(main())
