#!/venv/bin/python
"""Regenerate MANIFEST.json from the per-property metadata below and validate it."""

import json
import os
import sys

HERE = os.path.dirname(os.path.dirname(os.path.abspath(__file__)))

HOOK_COMMITS = []  # guarded source hooks in /repo (none: all probes attach from the harness)

CHECKS = {}


def C(pid, category, text, note, technique, design):
    CHECKS[pid] = dict(category=category, text=text, note=note, technique=technique, design=design)


TB = ("Trusted: NumPy/SciPy of the image, the harness's pure objective closures and dense reference models in "
      "vlib/oracles.py, CPython. Decides only the executions produced (seeded generators, VERIF_SEED).")

C("C15", "exploration",
  "Runtime monitor on the real ScalarFunction: every answer of every request history (all 9^L histories of length L over "
  "3 ops x 3 points, L=4 quick / 6 thorough, 5 gradient modes, caller-buffer mutation, scaling changes, plus long random "
  "histories) is compared bit-for-bit with a fresh evaluation, counters with the call log, and repeats must cost no objective call.",
  TB + " Finite-difference answers are compared with an independent approx_derivative call using the documented options.",
  "reference-model monitor over exhaustively enumerated call histories", "5 C15")
C("C19", "exploration",
  "Each exported gradient is compared with a 5-level Richardson numerical derivative of its function at thousands of generic "
  "and lattice points in dimensions 1..12; shape and real-scalar return are asserted.",
  TB, "numerical-derivative oracle over sampled inputs", "5 C19")

ALL = [f"C{i:02d}" for i in range(1, 21)]


def main():
    checks = []
    for pid in ALL:
        if pid not in CHECKS or not os.path.exists(os.path.join(HERE, "vlib", "cases", f"{pid}.py")):
            continue
        m = CHECKS[pid]
        checks.append({
            "property_id": pid,
            "quick_cmd": f"./check {pid} --tier quick",
            "thorough_cmd": f"./check {pid} --tier thorough",
            "evidence_file": f"/verif/evidence/{pid}.json",
            "replay_cmd_template": f"./check {pid} --replay {{path}}",
            "engine": "vlib",
            "level_claimed": {"category": m["category"], "text": m["text"], "design_ref": "DESIGN.md section " + m["design"]},
            "level_note": m["note"],
            "technique": "runtime monitoring: " + m["technique"],
        })
    claimed = {c["property_id"] for c in checks}
    manifest = {
        "version": 1,
        "setup_cmd": "./setup.sh",
        "hooks": {
            "guard": "LBFGSB_VERIF",
            "enable": "checks export LBFGSB_VERIF=1 and attach harness-side probes by rebinding module-level names of lbfgsb.main / "
                      "lbfgsb.scalar_function after import; the repository itself carries no hook code",
            "baseline_off_cmd": "cd /repo && env -u LBFGSB_VERIF /venv/bin/python -m pytest -ra -q -p no:cacheprovider --timeout=900 --continue-on-collection-errors",
            "source_commits": HOOK_COMMITS,
            "add_only": True,
        },
        "engines": [{
            "name": "vlib", "path": "/verif/vlib", "serves_properties": sorted(claimed),
            "kind_free_text": "runtime monitors: recorders around user callables, interception of inner routines, dense reference "
                              "models, fault injection, deterministic thread scheduler; sharded over 16 worker subprocesses",
        }],
        "checks": checks,
        "not_applicable": [{"property_id": p, "reason": "check not built yet in this revision (work in progress; runtime monitoring applies)"}
                           for p in ALL if p not in claimed],
        "notes": "All checks: ./check <id> --tier quick|thorough; exit 0 held, 1 VIOLATION, 2 INCONCLUSIVE (monitor floor not reached / watchdog). "
                 "VERIF_REPO selects the tree (default /repo); VERIF_SEED seeds every random choice.",
    }
    path = os.path.join(HERE, "MANIFEST.json")
    with open(path, "w") as fh:
        json.dump(manifest, fh, indent=1)
        fh.write("\n")
    try:
        import jsonschema

        schema = json.load(open("/root/.vp/MANIFEST.schema.json"))
        jsonschema.validate(manifest, schema)
        print("MANIFEST.json valid;", len(checks), "checks;", len(manifest["not_applicable"]), "not claimed")
    except ImportError:
        print("jsonschema unavailable; not validated")


if __name__ == "__main__":
    sys.exit(main())
