#!/venv/bin/python
"""Run checks over several seeds/tiers and report every non-zero exit (false-alarm hunting on the unchanged tree)."""
import argparse, glob, os, subprocess, sys, time

HERE = os.path.dirname(os.path.dirname(os.path.abspath(__file__)))
ap = argparse.ArgumentParser()
ap.add_argument("--seeds", nargs="+", type=int, default=[1, 2, 3])
ap.add_argument("--tier", default="quick")
ap.add_argument("--props", nargs="*", default=None)
a = ap.parse_args()
props = a.props or sorted(os.path.basename(p)[:-3] for p in glob.glob(os.path.join(HERE, "vlib", "cases", "C*.py")))
bad = 0
evdir = os.path.join(HERE, ".work", "sweep-evidence")
for prop in props:
    for s in a.seeds:
        t0 = time.time()
        env = dict(os.environ, VERIF_SEED=str(s), VERIF_EVIDENCE_DIR=evdir)
        p = subprocess.run([os.path.join(HERE, "check"), prop, "--tier", a.tier], cwd=HERE, env=env, capture_output=True, text=True)
        lines = p.stdout.strip().splitlines()
        status = "ok" if p.returncode == 0 else f"EXIT {p.returncode}"
        if p.returncode != 0:
            bad += 1
        print(f"{prop} seed={s} {a.tier}: {status} ({time.time() - t0:.0f}s) " + ("" if p.returncode == 0 else " | ".join(lines[:4])[:700]), flush=True)
print("non-zero exits:", bad)
sys.exit(1 if bad else 0)
