#!/venv/bin/python
"""One-off: fill what_changed / needs_to_manifest of the round-3 seeded changes (summaries of the authors' reports)."""
import json, os

HERE = os.path.dirname(os.path.dirname(os.path.abspath(__file__)))
D = {
 "C02-r3A": ("scalar_function.py: the finite-difference options dict became a class attribute shared by every wrapper",
             "finite-difference gradients in two runs alive at the same time (nested / concurrent) with different boxes of the same n; the outer iterate on a bound the inner box lacks"),
 "C02-r3B": ("main.py: the returned x is cast back to x0's floating dtype after the projection",
             "a float32/float16 start and an active bound that is not representable in that precision and rounds outward (0.1, 1/3)"),
 "C04-r3A": ("main.py: loop guard / classification read a cached projected-gradient norm that is not refreshed after update_fun_def rewrote the gradient",
             "an update_fun_def that really changes the gradient at an iterate stationary for the old definition but not for the new one"),
 "C04-r3B": ("linesearch.py: step halving on non-finite trial values, extra evaluations not charged to the trial counter",
             "an objective returning inf/nan at a trial point together with a small maxfun"),
 "C05-r3A": ("scalar_function.py: grad()/fun_and_grad() return self.g itself when the factor is 1.0",
             "a user gradient that fills and returns one preallocated buffer, no scaler, and a run ending on a failed line search at nit>=1 or callback states inspected later"),
 "C05-r3B": ("scalar_function.py: scaled value / gradient cached at evaluation time (x0 evaluated before the factor is set)",
             "a gradient_scaler factor != 1, no checkpoint, and a first trial point bitwise equal to x0 (|x0| ~ 1e17)"),
 "C07-r3A": ("main.py: the hess_inv built for the callback state is reused for the result; not refreshed after update_fun_def rewrote G",
             "update_fun_def that changes stored gradients + a callback + a stop on ftol/ftarget in that iteration"),
 "C07-r3B": ("main.py: abort test after a failed line search became len(X)==1 or task_str=='RESTART_FROM_LNSRCH' (a hidden flag a restart does not restore)",
             "a run with two non-consecutive line-search failures and a crash / restart between them"),
 "C08-r3A": ("cauchy.py: breakpoint t=0 for variables np.isclose to the bound the gradient pushes against",
             "a variable within 1e-8+1e-5|bound| of (not on) its bound with the gradient pointing outward"),
 "C08-r3B": ("bfgsmats.py/cauchy.py: lazily cached dense middle matrix, invalidated only when the newest pair is accepted",
             "matrices rebuilt through the forced update (update_fun_def changed G) while the newest pair is rejected and the pair count unchanged"),
 "C09-r3A": ("subspacemin.py: 'land the blocking variable on its bound' using an index into the masked array on the unmasked arrays",
             "a free variable with exactly zero Newton component at a lower index than the blocking variable, and a truncated step"),
 "C09-r3B": ("bfgsmats.py: theta computed from the candidate pair before the acceptance test",
             "a rejected pair with 0 < s'y <= eps_SY*y'y (non-default eps_SY), memory non-empty, a free variable"),
 "C10-r3A": ("main.py: curvature filter after update_fun_def only when a new deque object was handed back",
             "an update_fun_def rewriting the stored gradients in place (same deque) such that a stored pair fails the curvature test"),
 "C10-r3B": ("main.py: initialize_X_and_G keeps the oldest maxcor+1 points of a checkpoint instead of the newest",
             "restart with maxcor at least 2 below the number of pairs the checkpoint holds"),
 "C11-r3A": ("linesearch.py: trial points only clipped when the bound-limited step is smaller than the user's max_steplength",
             "non-default max_steplength <= bound-limited step (e.g. 1.0), a variable reaching its bound at the full step"),
 "C11-r3B": ("linesearch.py: best trial via np.argmin over a list (first NaN wins and passes the improvement test)",
             "an objective returning NaN at one trial point (author notes: arguably outside the property)"),
 "C12-r3A": ("scalar_function.py: fun_and_grad evaluates the gradient before the value",
             "a gradient that reuses state stored by the preceding objective call at the same point (forward/adjoint pattern)"),
 "C12-r3B": ("bfgsmats.py: curvature test s'y > eps*max(y'y, 1.0)",
             "pairs with s'y <= 2.2e-16 absolute: minimiser at the origin with iterates shrinking at full relative accuracy, or tiny units"),
 "C13-r3A": ("main.py: the initial update_fun_def call discards the returned gradient history",
             "restart from a checkpoint + a rewrite at the initial invocation + a new container returned"),
 "C13-r3B": ("main.py: shared hess_inv built once per change of the sequences; not refreshed after rewrite + filter",
             "objective rewritten at the very iteration where the run stops through ftol/ftarget"),
 "C14-r3A": ("linesearch.py: the DCSRCH object comes from a module-level lru_cache keyed on (ftol,gtol,xtol,max step)",
             "two line searches alive at the same time with the same key (nested in the objective or interleaved threads; unbounded problems or iteration 0)"),
 "C14-r3B": ("main.py: initial scaling (the only copy of checkpoint.jac) skipped without a scaler",
             "restart without scaler + update_fun_def updating the gradient in place, or a caller writing into result.jac"),
 "C15-r3A": ("scalar_function.py: validity flags set before the user evaluation",
             "an exception escaping an evaluation at a new point followed by a second request at that point"),
 "C15-r3B": ("scalar_function.py: 'same point' decided by allclose(rtol=eps, atol=0)",
             "two consecutive requested points within one ulp of each other and an objective resolving the difference"),
 "C16-r3A": ("scalar_function.py: FD base value taken from the public (scaled) accessor",
             "gradient_scaler factor != 1 with jac=None/'2-point' (or '3-point' at a bound), non-zero f"),
 "C16-r3B": ("main.py: checkpoint counters restored swapped (ngev,nfev = nfev,njev)",
             "restart in a finite-difference mode (nfev != njev)"),
 "C17-r3A": ("scalar_function.py: no-scaling fast path written np.isclose(factor, 1.0)",
             "a scaler returning s with 0 < |s-1| <~ 1e-5"),
 "C17-r3B": ("utils.py: packaged unit scaler zeroes, in the caller's gradient array, components on a bound pointing outwards",
             "the packaged scaler, a start with a variable exactly on a bound with outward gradient, at least two iterations"),
 "C18-r3A": ("main.py: memory reset after a failed line search restarts X from the current x but G from G[-1]",
             "a rejected pair immediately followed by a failed line search, then a successful iteration (non-default eps_SY / negative curvature, tiny maxls)"),
 "C18-r3B": ("utils.py: extract_hess_inv_diag skips parameters whose sk or yk column is all zero",
             "a yk column exactly zero while the same sk column is not (objective linear in one variable)"),
 "C19-r3A": ("ackley_grad returns zeros when x.sum() == 0 (instead of norm == 0)",
             "a point whose coordinates sum to exactly 0.0 away from the origin"),
 "C19-r3B": ("beale_grad builds the consecutive pairs with as_strided assuming a contiguous array",
             "a non-contiguous 1-D view passed as the point"),
 "C01-r3A": None, "C01-r3B": None, "C03-r3A": None, "C03-r3B": None, "C06-r3A": None, "C06-r3B": None, "C20-r3A": None, "C20-r3B": None,
}
D.update(json.load(open(os.path.join(HERE, "tools", "r3_meta_extra.json"))) if os.path.exists(os.path.join(HERE, "tools", "r3_meta_extra.json")) else {})
for sid, v in D.items():
    p = os.path.join(HERE, "seeded", sid, "meta.json")
    if v is None or not os.path.exists(p):
        continue
    m = json.load(open(p))
    m["what_changed"], m["needs_to_manifest"] = v
    json.dump(m, open(p, "w"), indent=1)
    print("filled", sid)
