#!/venv/bin/python
"""Markdown table of the seeded changes and of the checks that catch them (from seeded/*/meta.json)."""
import glob, json, os
HERE = os.path.dirname(os.path.dirname(os.path.abspath(__file__)))
print("| id | property | change | needs to manifest | caught by (tier:seed) |")
print("|---|---|---|---|---|")
for p in sorted(glob.glob(os.path.join(HERE, "seeded", "*", "meta.json"))):
    m = json.load(open(p))
    det = m.get("detected_by", {})
    caught = sorted(k for k, v in det.items() if v.get("caught"))
    missed = sorted(k for k, v in det.items() if not v.get("caught"))
    cell = ", ".join(caught) if caught else "NOT CAUGHT"
    if missed and caught:
        cell += " (not by: " + ", ".join(missed) + ")"
    note = " ".join(x for x in (m.get("status_note"), m.get("rebase_note")) if x)
    if note:
        cell += " — " + note
    print(f"| {m['id']} | {m['property']} | {m.get('what_changed', '')} | {m.get('needs_to_manifest', '')} | {cell} |".replace("\n", " "))
