#!/venv/bin/python
"""Import the deliverables of a seeding sub-agent (worktree /tmp/wt_<PID>) into /verif/seeded/<PID>-<A|B>/."""
import json, os, shutil, sys

HERE = os.path.dirname(os.path.dirname(os.path.abspath(__file__)))
pid = sys.argv[1]
round_tag = sys.argv[2] if len(sys.argv) > 2 else "r1"
wt = f"/tmp/{sys.argv[3] if len(sys.argv) > 3 else 'wt'}_{pid}"
notes = open(os.path.join(wt, "seeded_notes.md")).read() if os.path.exists(os.path.join(wt, "seeded_notes.md")) else ""
for letter in "AB":
    diff = os.path.join(wt, f"seeded_{letter}.diff")
    demo = os.path.join(wt, f"seeded_{letter}_demo.py")
    if not (os.path.exists(diff) and os.path.exists(demo)):
        print(f"{pid}-{letter}: deliverables missing")
        continue
    sid = f"{pid}-{round_tag}{letter}"
    d = os.path.join(HERE, "seeded", sid)
    os.makedirs(d, exist_ok=True)
    shutil.copy(diff, os.path.join(d, "patch.diff"))
    shutil.copy(demo, os.path.join(d, "demo.py"))
    meta = {"id": sid, "property": pid, "source": "independent sub-agent given only the property text and a scratch worktree of /repo",
            "needs_to_manifest": "see notes", "notes_from_author": notes}
    json.dump(meta, open(os.path.join(d, "meta.json"), "w"), indent=1)
    print("imported", sid)
