#!/bin/sh
# Offline setup: nothing to install (pure-Python harness, NumPy/SciPy come with /venv).
# Byte-compile the harness into memory only (no .pyc written) and run every monitor's liveness self-test.
cd "$(dirname "$0")" || exit 3
export PYTHONDONTWRITEBYTECODE=1 PYTHONHASHSEED=0 LBFGSB_VERIF=1 OMP_NUM_THREADS=1 OPENBLAS_NUM_THREADS=1
export PYTHONPATH="${VERIF_REPO:-/repo}:$(pwd)"
mkdir -p evidence replay .work
exec /venv/bin/python -m vlib.selfcheck
